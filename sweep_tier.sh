#!/bin/bash
# sweep_tier.sh <quick|thorough> [seed...]  (VERIF_IDS="C01 C02" restricts the checks): run every check of the given tier on the unchanged tree (evidence and
# replays go to a scratch directory, not to /verif/evidence) and print one line per check: id seed exit wall.
TIER=${1:-quick}; shift
SEEDS=${@:-1}
ROOT=$(cd "$(dirname "$0")" && pwd)
OUT=$(mktemp -d /tmp/sweep-$TIER-XXXXXX)
for seed in $SEEDS; do
  for id in ${VERIF_IDS:-$(python3 -c "import json;print(' '.join(json.loads(l)['id'] for l in open('$ROOT/properties.jsonl')))")}; do
    t0=$(date +%s)
    VERIF_SEED=$seed VERIF_OUT=$OUT "$ROOT/check" $id $TIER > $OUT/$id-$seed.log 2>&1; rc=$?
    t1=$(date +%s)
    echo "$id seed=$seed tier=$TIER exit=$rc wall=$((t1-t0))s $(grep -c '^KNOWN-FINDING' $OUT/$id-$seed.log) known; $(grep -E '^(VIOLATION|INCONCLUSIVE)' $OUT/$id-$seed.log | head -2 | cut -c1-200 | tr '\n' ' ')"
  done
done
echo "logs in $OUT"
