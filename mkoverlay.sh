#!/bin/bash
# mkoverlay.sh <repo> <builddir>: regenerate the check-time overlay from the CURRENT tree.
# Virtual clock: time.Now() -> verifNow() in pkg/cache/cache.go and pkg/server/middleware.go
# (copies only; the repository is never written), plus one added file per package.
set -e
REPO=$1; B=$2
mkdir -p "$B/ov"
sed -e 's/time\.Now()/verifNow()/g' -e 's/time\.Since(/verifSince(/g' -e 's/time\.Until(/verifUntil(/g' "$REPO/pkg/cache/cache.go" > "$B/ov/cache.go"
sed -e 's/time\.Now()/verifNow()/g' -e 's/time\.Since(/verifSince(/g' -e 's/time\.Until(/verifUntil(/g' "$REPO/pkg/server/middleware.go" > "$B/ov/middleware.go"
cat > "$B/ov/cache_clock.go" <<'EOT'
package cache

import (
	"sync/atomic"
	"time"
)

var verifClock atomic.Pointer[func() time.Time]

func verifNow() time.Time {
	if f := verifClock.Load(); f != nil {
		return (*f)()
	}
	return time.Now()
}

func verifSince(t time.Time) time.Duration { return verifNow().Sub(t) }
func verifUntil(t time.Time) time.Duration { return t.Sub(verifNow()) }

// SetVerifNow installs (or, with nil, removes) the virtual clock used by the monitors.
func SetVerifNow(f func() time.Time) {
	if f == nil {
		verifClock.Store(nil)
		return
	}
	verifClock.Store(&f)
}
EOT
sed 's/^package cache/package server/' "$B/ov/cache_clock.go" > "$B/ov/server_clock.go"
cat > "$B/overlay.json" <<EOT
{"Replace": {
 "$REPO/pkg/cache/cache.go": "$B/ov/cache.go",
 "$REPO/pkg/cache/zz_verif_clock.go": "$B/ov/cache_clock.go",
 "$REPO/pkg/server/middleware.go": "$B/ov/middleware.go",
 "$REPO/pkg/server/zz_verif_clock.go": "$B/ov/server_clock.go"
}}
EOT
