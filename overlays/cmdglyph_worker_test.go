package main

// Injected into cmd/glyph at check time with `go test -overlay` (the repository is not
// written). A generic white-box HTTP worker: reads jobs (module source, execution mode,
// environment, requests), wires them exactly as the CLI does — parseSource → setupRoutes →
// createHandler → ServeMux (+ registerStaticRoutes) — and records what a client would see.
// Generation and oracles live in /verif/harness; this file only executes.

import (
	"bufio"
	"bytes"
	"encoding/json"
	"fmt"
	"io"
	"log"
	"net"
	"net/http"
	"net/http/httptest"
	"os"
	"path/filepath"
	"runtime"
	"strings"
	"sync"
	"testing"
	"time"

	"github.com/fatih/color"
	"github.com/glyphlang/glyph/pkg/server"
)

type vReq struct {
	M      string              `json:"m"`
	P      string              `json:"p"` // path + optional ?query, as sent on the wire
	H      map[string][]string `json:"h,omitempty"`
	B      *string             `json:"b,omitempty"`
	Remote string              `json:"remote,omitempty"`
	T      int64               `json:"t,omitempty"` // virtual time in ms (0 = do not touch the clock)
}

type vJob struct {
	ID     int               `json:"id"`
	Src    string            `json:"src"`
	Interp bool              `json:"interp"`
	Env    map[string]string `json:"env,omitempty"`
	Reqs   []vReq            `json:"reqs"`
	TCP    bool              `json:"tcp,omitempty"`
	Conc   int               `json:"conc,omitempty"`  // >1: issue the requests from this many goroutines
	Rounds int               `json:"rounds,omitempty"` // repeat the request list (concurrent mode)
	WatchS int               `json:"watch_s,omitempty"`
	Files  map[string]string `json:"files,omitempty"` // extra files written next to the module
	Pre    []vReq            `json:"pre,omitempty"`   // requests issued one at a time before the (concurrent) main phase
	PauseMs int              `json:"pause_ms,omitempty"` // real time to let pass between the pre phase and the main phase (TTL expiry)
}

type vResp struct {
	S       int    `json:"s"`
	B       string `json:"b"`
	CT      string `json:"ct,omitempty"`
	Loc     string `json:"loc,omitempty"`
	Panic   string `json:"panic,omitempty"`
	Dropped bool   `json:"dropped,omitempty"`
	Unsent  string `json:"unsent,omitempty"`
	Trunc   bool   `json:"trunc,omitempty"`
	T0      int64  `json:"t0,omitempty"` // call / return time of the request (ns since the job started), concurrent mode
	T1      int64  `json:"t1,omitempty"`
}

type vOut struct {
	Ev       string   `json:"ev"`
	ID       int      `json:"id"`
	ParseErr string   `json:"parse_err,omitempty"`
	SetupErr string   `json:"setup_err,omitempty"`
	Compiled bool     `json:"compiled"`
	Resps    []vResp  `json:"resps,omitempty"`
	Hang     string   `json:"hang,omitempty"`
	Stacks   []string `json:"stacks,omitempty"`
	ReqIndex int      `json:"req_index,omitempty"`
	Gor      int      `json:"goroutines,omitempty"`
	Pre      []vResp  `json:"pre,omitempty"`
}

var verifClockMs int64
var verifClockMu sync.Mutex

func TestVerifWorker(t *testing.T) {
	jobsPath := os.Getenv("VERIF_JOBS")
	outPath := os.Getenv("VERIF_OUT")
	if jobsPath == "" || outPath == "" {
		t.Skip("not a verification run")
	}
	devnull, _ := os.OpenFile(os.DevNull, os.O_WRONLY, 0)
	realStdout := os.Stdout
	_ = realStdout
	os.Stdout = devnull
	color.Output = io.Discard
	log.SetOutput(io.Discard)
	base := time.Date(2031, 1, 1, 0, 0, 0, 0, time.UTC)
	server.SetVerifNow(func() time.Time {
		verifClockMu.Lock()
		defer verifClockMu.Unlock()
		return base.Add(time.Duration(verifClockMs) * time.Millisecond)
	})
	jf, err := os.Open(jobsPath)
	if err != nil {
		t.Fatal(err)
	}
	defer jf.Close()
	of, err := os.Create(outPath)
	if err != nil {
		t.Fatal(err)
	}
	defer of.Close()
	ow := bufio.NewWriter(of)
	emit := func(v interface{}) {
		b, _ := json.Marshal(v)
		ow.Write(b)
		ow.WriteByte('\n')
		ow.Flush()
	}
	tmp := os.Getenv("VERIF_TMP")
	if tmp == "" {
		tmp = os.TempDir()
	}
	sc := bufio.NewScanner(jf)
	sc.Buffer(make([]byte, 1<<20), 512<<20)
	for sc.Scan() {
		line := bytes.TrimSpace(sc.Bytes())
		if len(line) == 0 {
			continue
		}
		var job vJob
		if err := json.Unmarshal(line, &job); err != nil {
			emit(vOut{Ev: "badjob", ID: -1, SetupErr: err.Error()})
			continue
		}
		emit(map[string]interface{}{"ev": "begin", "id": job.ID})
		out := runVerifJob(&job, tmp, emit)
		if out != nil {
			emit(out)
		}
	}
	emit(map[string]interface{}{"ev": "done", "goroutines": runtime.NumGoroutine()})
}

func runVerifJob(job *vJob, tmp string, emit func(interface{})) *vOut {
	out := &vOut{Ev: "result", ID: job.ID}
	jobStart := time.Now()
	for k, v := range job.Env {
		if v == "\x00unset" {
			os.Unsetenv(k)
		} else {
			os.Setenv(k, v)
		}
	}
	defer func() {
		for k := range job.Env {
			os.Unsetenv(k)
		}
	}()
	dir := filepath.Join(tmp, fmt.Sprintf("job-%d-%d", os.Getpid(), job.ID))
	srcPath := filepath.Join(dir, "main.glyph")
	if len(job.Files) > 0 {
		os.MkdirAll(dir, 0o755)
		defer os.RemoveAll(dir)
		os.WriteFile(srcPath, []byte(job.Src), 0o644)
		for name, content := range job.Files {
			p := filepath.Join(dir, name)
			os.MkdirAll(filepath.Dir(p), 0o755)
			os.WriteFile(p, []byte(content), 0o644)
		}
	}
	var mux *http.ServeMux
	func() {
		defer func() {
			if e := recover(); e != nil {
				out.SetupErr = fmt.Sprintf("PANIC during setup: %v", e)
			}
		}()
		module, err := parseSource(job.Src)
		if err != nil {
			out.ParseErr = err.Error()
			return
		}
		useCompiler, _, _, router, err := setupRoutes(module, srcPath, job.Interp)
		if err != nil {
			out.SetupErr = err.Error()
			return
		}
		out.Compiled = useCompiler
		mux = http.NewServeMux()
		mux.HandleFunc("/", createHandler(router))
		if err := registerStaticRoutes(mux, module, srcPath, 0); err != nil {
			out.SetupErr = "static: " + err.Error()
			mux = nil
		}
	}()
	if mux == nil {
		return out
	}
	watch := time.Duration(job.WatchS) * time.Second
	if watch == 0 {
		watch = 15 * time.Second
	}
	var ts *httptest.Server
	var client *http.Client
	if job.TCP {
		ts = httptest.NewServer(mux)
		defer ts.Close()
		client = &http.Client{Transport: &http.Transport{DisableKeepAlives: true, DisableCompression: true}, Timeout: watch + 5*time.Second,
			CheckRedirect: func(*http.Request, []*http.Request) error { return http.ErrUseLastResponse }}
	}
	do := func(rq *vReq) vResp {
		if rq.T != 0 {
			verifClockMu.Lock()
			verifClockMs = rq.T
			verifClockMu.Unlock()
		}
		var body io.Reader
		if rq.B != nil {
			body = strings.NewReader(*rq.B)
		}
		if job.TCP {
			req, err := http.NewRequest(rq.M, ts.URL+rq.P, body)
			if err != nil {
				return vResp{Unsent: err.Error()}
			}
			for k, vs := range rq.H {
				for _, v := range vs {
					req.Header.Add(k, v)
				}
			}
			resp, err := client.Do(req)
			if err != nil {
				return vResp{Dropped: true, Panic: err.Error()}
			}
			defer resp.Body.Close()
			b, _ := io.ReadAll(io.LimitReader(resp.Body, 1<<16))
			return vResp{S: resp.StatusCode, B: string(b), CT: resp.Header.Get("Content-Type"), Loc: resp.Header.Get("Location")}
		}
		req, err := http.NewRequest(rq.M, "http://glyph.test"+rq.P, body)
		if err != nil {
			return vResp{Unsent: err.Error()}
		}
		req.RequestURI = req.URL.RequestURI()
		req.RemoteAddr = rq.Remote
		if req.RemoteAddr == "" {
			req.RemoteAddr = "192.0.2.1:40000"
		}
		if _, _, err := net.SplitHostPort(req.RemoteAddr); err != nil {
			req.RemoteAddr = "192.0.2.1:40000"
		}
		for k, vs := range rq.H {
			for _, v := range vs {
				req.Header.Add(k, v)
			}
		}
		rec := httptest.NewRecorder()
		var r vResp
		func() {
			defer func() {
				if e := recover(); e != nil {
					// net/http would log this and close the connection without a response
					r.Dropped = true
					r.Panic = fmt.Sprint(e)
				}
			}()
			mux.ServeHTTP(rec, req)
		}()
		if r.Dropped {
			return r
		}
		b := rec.Body.Bytes()
		if len(b) > 1<<16 {
			b = b[:1<<16]
			r.Trunc = true
		}
		r.S, r.B, r.CT, r.Loc = rec.Code, string(b), rec.Header().Get("Content-Type"), rec.Header().Get("Location")
		return r
	}
	// watchdog wrapper: a request that does not return is a hang; the worker reports it
	// with two goroutine dumps and exits (the goroutine cannot be killed).
	guarded := func(i int, rq *vReq) (vResp, bool) {
		ch := make(chan vResp, 1)
		go func() {
			t0 := time.Since(jobStart).Nanoseconds()
			r := do(rq)
			r.T0, r.T1 = t0, time.Since(jobStart).Nanoseconds()
			ch <- r
		}()
		select {
		case r := <-ch:
			return r, true
		case <-time.After(watch):
		}
		s1 := dumpAll()
		select {
		case r := <-ch:
			return r, true
		case <-time.After(3 * time.Second):
		}
		s2 := dumpAll()
		out.Ev = "hang"
		out.Hang = fmt.Sprintf("%s %s did not return within %v", rq.M, rq.P, watch)
		out.Stacks = []string{s1, s2}
		out.ReqIndex = i
		return vResp{}, false
	}
	for i := range job.Pre {
		r, ok := guarded(-1-i, &job.Pre[i])
		if !ok {
			emit(out)
			os.Exit(99)
		}
		out.Pre = append(out.Pre, r)
	}
	if job.PauseMs > 0 {
		time.Sleep(time.Duration(job.PauseMs) * time.Millisecond)
	}
	if job.Conc <= 1 {
		for i := range job.Reqs {
			r, ok := guarded(i, &job.Reqs[i])
			if !ok {
				emit(out)
				os.Exit(99)
			}
			out.Resps = append(out.Resps, r)
		}
		return out
	}
	// concurrent mode: every goroutine walks the request list with a different stride so
	// that the same route is hit by many requests at once; responses are stored per index.
	rounds := job.Rounds
	if rounds == 0 {
		rounds = 1
	}
	n := len(job.Reqs)
	out.Resps = make([]vResp, n*rounds)
	var wg sync.WaitGroup
	idx := make(chan int, n*rounds)
	for k := 0; k < n*rounds; k++ {
		idx <- k
	}
	close(idx)
	hung := make(chan int, job.Conc)
	start := make(chan struct{})
	for g := 0; g < job.Conc; g++ {
		wg.Add(1)
		go func() {
			defer wg.Done()
			<-start
			for k := range idx {
				r, ok := guarded(k%n, &job.Reqs[k%n])
				if !ok {
					hung <- k
					return
				}
				out.Resps[k] = r
			}
		}()
	}
	close(start)
	done := make(chan struct{})
	go func() { wg.Wait(); close(done) }()
	select {
	case <-done:
	case <-hung:
		emit(out)
		os.Exit(99)
	}
	select {
	case <-hung:
		emit(out)
		os.Exit(99)
	default:
	}
	out.Gor = runtime.NumGoroutine()
	return out
}

func dumpAll() string {
	buf := make([]byte, 1<<20)
	n := runtime.Stack(buf, true)
	return string(buf[:n])
}
