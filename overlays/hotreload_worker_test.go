package hotreload

// Injected into pkg/hotreload at check time with `go test -overlay` (the repository is not
// written). Library-level worker for C19: drives ReloadManager with a real parser+compiler
// as CompilerInterface and a recording ServerInterface, either by calling handleChanges
// directly with crafted change lists (deterministic) or through a real FileWatcher with
// short poll / debounce intervals. Records calls and events; the oracle is in
// /verif/harness/cmd/vcheck/c19.go.

import (
	"bufio"
	"bytes"
	"context"
	"crypto/sha1"
	"encoding/hex"
	"encoding/json"
	"errors"
	"fmt"
	"io"
	"log"
	"os"
	"path/filepath"
	"runtime"
	"strings"
	"sync"
	"testing"
	"time"

	"github.com/glyphlang/glyph/pkg/compiler"
	"github.com/glyphlang/glyph/pkg/parser"
)

type lEdit struct {
	Kind    string   `json:"kind"`
	Content string   `json:"content"`
	Style   string   `json:"style"`            // write | recreate | delete | atomic
	Others  []string `json:"others,omitempty"` // other paths listed in the change set (direct mode), before the main file
	After   []string `json:"after,omitempty"`  // ... and after it
	Reject  bool     `json:"reject,omitempty"` // the server refuses this reload (Reload returns an error)
	GapMs   int      `json:"gap_ms,omitempty"`
}

type lJob struct {
	ID      int     `json:"id"`
	Mode    string  `json:"mode"` // direct | watch | burst
	Initial string  `json:"initial"`
	Edits   []lEdit `json:"edits"`
	BoundMs int     `json:"bound_ms"`
	Settle  int     `json:"settle_ms"`
}

type lEvent struct {
	Success bool   `json:"success"`
	HasErr  bool   `json:"has_err"`
	Count   int    `json:"count"`
	NChg    int    `json:"n_changes"`
	T       int64  `json:"t"`
	Err     string `json:"err,omitempty"`
}

type lCall struct {
	Op    string `json:"op"` // compile | reload | getstate | setstate
	Hash  string `json:"hash,omitempty"`
	OK    bool   `json:"ok"`
	Token string `json:"token,omitempty"`
	T     int64  `json:"t"`
}

type lStep struct {
	Edit      int      `json:"edit"`
	ExpHash   string   `json:"exp_hash"` // hash of the bytecode an independent compilation of this content gives ("" = does not compile)
	Calls     []lCall  `json:"calls"`
	Events    []lEvent `json:"events"`
	Current   string   `json:"current"` // bytecode hash the server runs when the step ended
	StateTok  string   `json:"state_token"`
	Converged bool     `json:"converged"`
	Late      string   `json:"late_current,omitempty"`
	Panic     string   `json:"panic,omitempty"`
	ErrCalls  int      `json:"error_handler_calls"`
	Stats     int      `json:"stats_count"`
}

type lOut struct {
	Ev      string  `json:"ev"`
	ID      int     `json:"id"`
	InitOK  bool    `json:"init_ok"`
	Initial string  `json:"initial_hash"`
	Steps   []lStep `json:"steps"`
	Gor     int     `json:"goroutines,omitempty"`
}

func verifHash(b []byte) string {
	if b == nil {
		return ""
	}
	h := sha1.Sum(b)
	return hex.EncodeToString(h[:8])
}

func verifCompileSrc(src string) (bc []byte, err error) {
	defer func() {
		if e := recover(); e != nil {
			bc, err = nil, fmt.Errorf("panic: %v", e)
		}
	}()
	toks, err := parser.NewLexer(src).Tokenize()
	if err != nil {
		return nil, err
	}
	mod, err := parser.NewParser(toks).Parse()
	if err != nil {
		return nil, err
	}
	return compiler.NewCompiler().Compile(mod)
}

type verifRec struct {
	mu       sync.Mutex
	t0       time.Time
	calls    []lCall
	events   []lEvent
	current  string
	state    map[string]interface{}
	rejectOn bool
	errCalls int
}

func (r *verifRec) add(c lCall) {
	c.T = time.Since(r.t0).Nanoseconds()
	r.calls = append(r.calls, c)
}

type verifCompiler struct{ r *verifRec }

func (c verifCompiler) CompileFile(path string) ([]byte, error) {
	b, err := os.ReadFile(path)
	if err != nil {
		c.r.mu.Lock()
		c.r.add(lCall{Op: "compile", OK: false})
		c.r.mu.Unlock()
		return nil, err
	}
	bc, err := verifCompileSrc(string(b))
	c.r.mu.Lock()
	c.r.add(lCall{Op: "compile", OK: err == nil, Hash: verifHash(bc)})
	c.r.mu.Unlock()
	return bc, err
}

type verifServer struct{ r *verifRec }

func (s verifServer) Reload(bc []byte) error {
	s.r.mu.Lock()
	defer s.r.mu.Unlock()
	if s.r.rejectOn {
		s.r.add(lCall{Op: "reload", OK: false, Hash: verifHash(bc)})
		return errors.New("server refuses this bytecode")
	}
	s.r.add(lCall{Op: "reload", OK: true, Hash: verifHash(bc)})
	s.r.current = verifHash(bc)
	// a real server starts the new program with empty state
	s.r.state = map[string]interface{}{}
	return nil
}

func (s verifServer) GetState() map[string]interface{} {
	s.r.mu.Lock()
	defer s.r.mu.Unlock()
	out := map[string]interface{}{}
	for k, v := range s.r.state {
		out[k] = v
	}
	tok, _ := s.r.state["token"].(string)
	s.r.add(lCall{Op: "getstate", OK: true, Token: tok})
	return out
}

func (s verifServer) SetState(st map[string]interface{}) error {
	s.r.mu.Lock()
	defer s.r.mu.Unlock()
	s.r.state = map[string]interface{}{}
	for k, v := range st {
		s.r.state[k] = v
	}
	tok, _ := st["token"].(string)
	s.r.add(lCall{Op: "setstate", OK: true, Token: tok})
	return nil
}

func TestVerifReloadWorker(t *testing.T) {
	jobsPath := os.Getenv("VERIF_JOBS")
	outPath := os.Getenv("VERIF_OUT")
	if jobsPath == "" || outPath == "" {
		t.Skip("not a verification run")
	}
	log.SetOutput(io.Discard)
	jf, err := os.Open(jobsPath)
	if err != nil {
		t.Fatal(err)
	}
	defer jf.Close()
	of, err := os.Create(outPath)
	if err != nil {
		t.Fatal(err)
	}
	defer of.Close()
	ow := bufio.NewWriter(of)
	emit := func(v interface{}) {
		b, _ := json.Marshal(v)
		ow.Write(b)
		ow.WriteByte('\n')
		ow.Flush()
	}
	tmp := os.Getenv("VERIF_TMP")
	if tmp == "" {
		tmp = os.TempDir()
	}
	sc := bufio.NewScanner(jf)
	sc.Buffer(make([]byte, 1<<20), 64<<20)
	for sc.Scan() {
		line := bytes.TrimSpace(sc.Bytes())
		if len(line) == 0 {
			continue
		}
		var job lJob
		if err := json.Unmarshal(line, &job); err != nil {
			continue
		}
		emit(map[string]interface{}{"ev": "begin", "id": job.ID})
		emit(runVerifReloadJob(&job, tmp))
	}
	emit(map[string]interface{}{"ev": "done", "goroutines": runtime.NumGoroutine()})
}

func runVerifReloadJob(job *lJob, tmp string) *lOut {
	out := &lOut{Ev: "result", ID: job.ID}
	dir := filepath.Join(tmp, fmt.Sprintf("hr-%d-%d", os.Getpid(), job.ID))
	os.MkdirAll(dir, 0o755)
	defer os.RemoveAll(dir)
	file := filepath.Join(dir, "main.glyph")
	os.WriteFile(file, []byte(job.Initial), 0o644)
	rec := &verifRec{t0: time.Now(), state: map[string]interface{}{}}
	ibc, err := verifCompileSrc(job.Initial)
	out.InitOK = err == nil
	out.Initial = verifHash(ibc)
	rec.current = out.Initial
	rec.state["token"] = "tok-init"
	rm := NewReloadManager([]string{dir}, verifCompiler{rec}, verifServer{rec},
		WithOnReload(func(e ReloadEvent) {
			rec.mu.Lock()
			le := lEvent{Success: e.Success, HasErr: e.Error != nil, Count: e.ReloadCount, NChg: len(e.Changes), T: time.Since(rec.t0).Nanoseconds()}
			if e.Error != nil {
				le.Err = e.Error.Error()
				if len(le.Err) > 100 {
					le.Err = le.Err[:100]
				}
			}
			rec.events = append(rec.events, le)
			rec.mu.Unlock()
		}),
		WithErrorHandler(func(error) {
			rec.mu.Lock()
			rec.errCalls++
			rec.mu.Unlock()
		}))
	ctx, cancel := context.WithCancel(context.Background())
	defer cancel()
	if job.Mode != "direct" {
		rm.watcher = NewFileWatcher([]string{dir}, rm.handleChanges, WithPollInterval(4*time.Millisecond), WithDebounce(6*time.Millisecond))
		if err := rm.Start(ctx); err != nil {
			out.InitOK = false
			return out
		}
		defer rm.Stop()
	}
	apply := func(e *lEdit) ChangeType {
		if fi, err := os.Stat(file); err == nil && fi.IsDir() {
			os.Remove(file)
		}
		switch e.Style {
		case "mkdir":
			os.Remove(file)
			os.Mkdir(file, 0o755)
			return ChangeTypeModified
		case "none":
			return ChangeTypeModified
		case "delete":
			os.Remove(file)
			return ChangeTypeDeleted
		case "recreate":
			os.Remove(file)
			if e.GapMs > 0 {
				time.Sleep(time.Duration(e.GapMs) * time.Millisecond)
			}
			os.WriteFile(file, []byte(e.Content), 0o644)
			return ChangeTypeCreated
		case "same-stat":
			content := e.Content
			fi, err := os.Stat(file)
			if err == nil && !fi.IsDir() && int64(len(content))+3 <= fi.Size() {
				content += "\n#" + strings.Repeat("=", int(fi.Size())-len(content)-3) + "\n"
			}
			os.WriteFile(file, []byte(content), 0o644)
			if err == nil && !fi.IsDir() && int64(len(content)) == fi.Size() {
				os.Chtimes(file, fi.ModTime(), fi.ModTime())
			}
			return ChangeTypeModified
		case "atomic":
			tf := filepath.Join(dir, "main.glyph.tmp~")
			os.WriteFile(tf, []byte(e.Content), 0o644)
			os.Rename(tf, file)
			return ChangeTypeModified
		}
		os.WriteFile(file, []byte(e.Content), 0o644)
		return ChangeTypeModified
	}
	bound := time.Duration(job.BoundMs) * time.Millisecond
	settle := time.Duration(job.Settle) * time.Millisecond
	for i := range job.Edits {
		e := &job.Edits[i]
		st := lStep{Edit: i}
		if e.Style != "delete" && e.Style != "none" && e.Style != "mkdir" {
			bc, err := verifCompileSrc(e.Content)
			if err == nil {
				st.ExpHash = verifHash(bc)
			}
		}
		rec.mu.Lock()
		rec.calls, rec.events = nil, nil
		rec.rejectOn = e.Reject
		rec.errCalls = 0
		tok := fmt.Sprintf("tok-%d-%d", job.ID, i)
		rec.state["token"] = tok
		rec.mu.Unlock()
		st.StateTok = tok
		ct := apply(e)
		switch job.Mode {
		case "direct":
			var chg []FileChange
			for _, o := range e.Others {
				chg = append(chg, FileChange{Path: filepath.Join(dir, o), Type: ChangeTypeModified, Timestamp: time.Now()})
			}
			if e.Style != "none" {
				chg = append(chg, FileChange{Path: file, Type: ct, Timestamp: time.Now()})
			}
			for _, o := range e.After {
				chg = append(chg, FileChange{Path: filepath.Join(dir, o), Type: ChangeTypeModified, Timestamp: time.Now()})
			}
			func() {
				defer func() {
					if r := recover(); r != nil {
						st.Panic = fmt.Sprint(r)
					}
				}()
				rm.handleChanges(chg)
			}()
			st.Converged = true
		default:
			last := i == len(job.Edits)-1
			if job.Mode == "burst" && !last {
				if e.GapMs > 0 {
					time.Sleep(time.Duration(e.GapMs) * time.Millisecond)
				}
				break
			}
			deadline := time.Now().Add(bound)
			minWait := time.Now().Add(settle)
			for {
				rec.mu.Lock()
				cur := rec.current
				nev := len(rec.events)
				nsucc := 0
				for _, ev := range rec.events {
					if ev.Success {
						nsucc++
					}
				}
				rec.mu.Unlock()
				// the success event is emitted after the state has been restored: waiting for it
				// (not just for Reload) keeps the sample out of the middle of handleChanges
				if st.ExpHash != "" && !e.Reject && cur == st.ExpHash && nsucc > 0 {
					st.Converged = true
					if job.Mode != "burst" || time.Now().After(minWait) {
						break
					}
				}
				if (st.ExpHash == "" || e.Reject) && nev > 0 && time.Now().After(minWait) {
					st.Converged = true
					break
				}
				if time.Now().After(deadline) {
					break
				}
				time.Sleep(2 * time.Millisecond)
			}
			if !st.Converged {
				time.Sleep(4 * bound)
				rec.mu.Lock()
				st.Late = rec.current
				rec.mu.Unlock()
			}
		}
		rec.mu.Lock()
		st.Calls = append([]lCall(nil), rec.calls...)
		st.Events = append([]lEvent(nil), rec.events...)
		st.Current = rec.current
		st.ErrCalls = rec.errCalls
		if t, ok := rec.state["token"].(string); ok {
			st.StateTok = tok + "|" + t
		} else {
			st.StateTok = tok + "|<lost>"
		}
		rec.mu.Unlock()
		st.Stats = rm.Stats().ReloadCount
		out.Steps = append(out.Steps, st)
	}
	out.Gor = runtime.NumGoroutine()
	return out
}
