package main

// Injected into cmd/glyph at check time with `go test -overlay` (the repository is not
// written). Dev-server worker for C19: builds the CLI's own hotReloadManager on a scratch
// file and a free loopback port, applies a list of file edits, triggers reloads either by
// calling reload() (deterministic) or through the manager's own fsnotify watcher
// (watchForChanges), and records what a client of the port sees — after each edit and
// continuously from a background prober. Nothing is judged here: the oracle is in
// /verif/harness/cmd/vcheck/c19.go.

import (
	"bufio"
	"bytes"
	"encoding/json"
	"fmt"
	"io"
	"log"
	"net"
	"net/http"
	"os"
	"path/filepath"
	"regexp"
	"runtime"
	"strconv"
	"strings"
	"sync"
	"testing"
	"time"

	"github.com/fatih/color"
)

type dEdit struct {
	Kind    string `json:"kind"`
	Content string `json:"content"`
	Style   string `json:"style"` // write | atomic | recreate | delete | trunc-write
	GapMs   int    `json:"gap_ms,omitempty"`
}

type dJob struct {
	ID      int     `json:"id"`
	Mode    string  `json:"mode"` // reload | watch | burst
	SSE     bool    `json:"sse,omitempty"`
	Initial string  `json:"initial"`
	Edits   []dEdit `json:"edits"`
	BoundMs int     `json:"bound_ms"`
	Settle  int     `json:"settle_ms"`
}

type dProbe struct {
	T0   int64  `json:"t0"`
	T1   int64  `json:"t1"`
	S    int    `json:"s"`
	B    string `json:"b,omitempty"`
	Err  string `json:"err,omitempty"`
	Keep bool   `json:"keep,omitempty"`
}

type dStep struct {
	Edit     int      `json:"edit"`
	Cold     string   `json:"cold"` // load | fail | panic: what a cold build of this file content does
	ColdErr  string   `json:"cold_err,omitempty"`
	TWrite   int64    `json:"t_write"`
	TCall    int64    `json:"t_call,omitempty"`
	TRet     int64    `json:"t_ret,omitempty"`
	After    []dProbe `json:"after,omitempty"` // probes after the reload returned / while waiting for convergence
	Final    dProbe   `json:"final"`
	Attempts int      `json:"attempts"`
	Late     *dProbe  `json:"late,omitempty"` // corroboration probe taken long after the bound
	Typed    *dProbe  `json:"typed,omitempty"`
}

type dLog struct {
	T    int64  `json:"t"`
	Line string `json:"line"`
}

type dOut struct {
	Ev        string   `json:"ev"`
	ID        int      `json:"id"`
	StartErr  string   `json:"start_err,omitempty"`
	First     dProbe   `json:"first"`
	Steps     []dStep  `json:"steps"`
	Bg        []dProbe `json:"bg,omitempty"`
	Logs      []dLog   `json:"logs,omitempty"`
	SSEEvents int      `json:"sse_events,omitempty"`
	SSEOpen   bool     `json:"sse_open,omitempty"`
	Gor       int      `json:"goroutines,omitempty"`
	PortLost  bool     `json:"port_lost,omitempty"` // the chosen port was taken by another process before the server bound it
}

type dLineRec struct {
	mu    sync.Mutex
	buf   []byte
	lines []dLog
	t0    time.Time
}

func (l *dLineRec) Write(p []byte) (int, error) {
	l.mu.Lock()
	defer l.mu.Unlock()
	l.buf = append(l.buf, p...)
	for {
		i := bytes.IndexByte(l.buf, '\n')
		if i < 0 {
			break
		}
		line := strings.TrimSpace(string(l.buf[:i]))
		l.buf = l.buf[i+1:]
		// request-log lines are written in pieces by concurrent handlers and can swallow
		// the start of a status line: keep anything that mentions a status tag
		if k := devTagIndex(line); k >= 0 {
			line = line[k:]
		} else if strings.HasPrefix(line, "[GET]") {
			line = ""
		}
		if line != "" {
			if len(line) > 160 {
				line = line[:160]
			}
			l.lines = append(l.lines, dLog{T: time.Since(l.t0).Nanoseconds(), Line: line})
		}
	}
	return len(p), nil
}

func devTagIndex(line string) int {
	best := -1
	for _, tag := range []string{"[SUCCESS]", "[ERROR]", "[WARNING]", "[INFO]", "File changed"} {
		if k := strings.Index(line, tag); k >= 0 && (best < 0 || k < best) {
			best = k
		}
	}
	return best
}

func (l *dLineRec) peek() []dLog {
	l.mu.Lock()
	defer l.mu.Unlock()
	return append([]dLog(nil), l.lines...)
}

func (l *dLineRec) take() []dLog {
	l.mu.Lock()
	defer l.mu.Unlock()
	out := l.lines
	l.lines = nil
	return out
}

func TestVerifDevWorker(t *testing.T) {
	jobsPath := os.Getenv("VERIF_JOBS")
	outPath := os.Getenv("VERIF_OUT")
	if jobsPath == "" || outPath == "" || os.Getenv("VERIF_DEV") == "" {
		t.Skip("not a verification run")
	}
	devnull, _ := os.OpenFile(os.DevNull, os.O_WRONLY, 0)
	os.Stdout = devnull
	log.SetOutput(io.Discard)
	rec := &dLineRec{t0: time.Now()}
	color.Output = rec
	color.NoColor = true
	jf, err := os.Open(jobsPath)
	if err != nil {
		t.Fatal(err)
	}
	defer jf.Close()
	of, err := os.Create(outPath)
	if err != nil {
		t.Fatal(err)
	}
	defer of.Close()
	ow := bufio.NewWriter(of)
	emit := func(v interface{}) {
		b, _ := json.Marshal(v)
		ow.Write(b)
		ow.WriteByte('\n')
		ow.Flush()
	}
	tmp := os.Getenv("VERIF_TMP")
	if tmp == "" {
		tmp = os.TempDir()
	}
	sc := bufio.NewScanner(jf)
	sc.Buffer(make([]byte, 1<<20), 64<<20)
	for sc.Scan() {
		line := bytes.TrimSpace(sc.Bytes())
		if len(line) == 0 {
			continue
		}
		var job dJob
		if err := json.Unmarshal(line, &job); err != nil {
			continue
		}
		emit(map[string]interface{}{"ev": "begin", "id": job.ID})
		var res *dOut
		for attempt := 0; attempt < 4; attempt++ {
			res = runDevJob(&job, tmp, rec)
			if !res.PortLost {
				break
			}
		}
		emit(res)
	}
	emit(map[string]interface{}{"ev": "done", "goroutines": runtime.NumGoroutine()})
}

// devFreePort picks a listening port below the ephemeral range (the probers open thousands of
// short connections whose source ports come from that range; a server bound there can collide
// with one of them) and in a slice of the range that depends on the process, so that parallel
// workers do not race for the same port between this check and the server's own bind.
var devPortSeq int

// devPortSlice: every worker of a run owns a slice of ports of its own. The slice is chosen by the worker's chunk index
// (part of the job file's name), not by its pid: two live workers whose pids happened to be congruent shared a slice,
// and a server restarting on its port could lose it to the other worker for a moment — whose answers the background
// prober then took for a wrong version.
func devPortSlice() (base, width int) {
	if m := regexp.MustCompile(`-(\d+)-\d+\.jobs$`).FindStringSubmatch(os.Getenv("VERIF_JOBS")); m != nil {
		ci, _ := strconv.Atoi(m[1])
		return 20000 + (ci%16)*700, 700
	}
	return 20000 + (os.Getpid()%110)*100, 100
}

func devFreePort() int {
	base, width := devPortSlice()
	for i := 0; i < width; i++ {
		devPortSeq++
		p := base + devPortSeq%width
		l, err := net.Listen("tcp", fmt.Sprintf("127.0.0.1:%d", p))
		if err != nil {
			continue
		}
		l.Close()
		return p
	}
	l, err := net.Listen("tcp", "127.0.0.1:0")
	if err != nil {
		return 0
	}
	defer l.Close()
	return l.Addr().(*net.TCPAddr).Port
}

// devCold: what does building a server from this file content do when nothing is running?
// (the same function `glyph dev` calls at start-up; never started, so no port is needed)
func devCold(dir string, content *string) (string, string) {
	p := filepath.Join(dir, "cold", "main.glyph")
	os.MkdirAll(filepath.Dir(p), 0o755)
	os.Remove(p)
	if content != nil {
		os.WriteFile(p, []byte(*content), 0o644)
	}
	res, msg := "load", ""
	func() {
		defer func() {
			if e := recover(); e != nil {
				res, msg = "panic", fmt.Sprint(e)
			}
		}()
		m := &hotReloadManager{filePath: p, port: 1, liveReloadConns: make(map[*liveReloadConn]bool)}
		_, _, err := m.buildDevServer()
		if err != nil {
			res, msg = "fail", err.Error()
		}
	}()
	if len(msg) > 200 {
		msg = msg[:200]
	}
	return res, msg
}

func runDevJob(job *dJob, tmp string, rec *dLineRec) *dOut {
	out := &dOut{Ev: "result", ID: job.ID}
	t0 := time.Now()
	rec.mu.Lock()
	rec.t0 = t0
	rec.lines = nil
	rec.mu.Unlock()
	now := func() int64 { return time.Since(t0).Nanoseconds() }
	dir := filepath.Join(tmp, fmt.Sprintf("dev-%d-%d", os.Getpid(), job.ID))
	os.MkdirAll(dir, 0o755)
	defer os.RemoveAll(dir)
	file := filepath.Join(dir, "main.glyph")
	os.WriteFile(file, []byte(job.Initial), 0o644)
	port := devFreePort()
	m := &hotReloadManager{filePath: file, port: port, liveReloadConns: make(map[*liveReloadConn]bool)}
	if err := m.startServer(); err != nil {
		out.StartErr = err.Error()
		return out
	}
	defer func() {
		if m.watcher != nil {
			m.watcher.Close()
		}
		m.mu.Lock()
		if m.server != nil {
			m.server.Close()
		}
		m.mu.Unlock()
	}()
	url := fmt.Sprintf("http://127.0.0.1:%d/version", port)
	fresh := &http.Client{Transport: &http.Transport{DisableKeepAlives: true}, Timeout: 3 * time.Second}
	keep := &http.Client{Transport: &http.Transport{MaxIdleConnsPerHost: 2}, Timeout: 3 * time.Second}
	slowClient := &http.Client{Transport: &http.Transport{DisableKeepAlives: true}, Timeout: 20 * time.Second}
	probe := func(c *http.Client, k bool) dProbe {
		p := dProbe{T0: now(), Keep: k}
		resp, err := c.Get(url)
		for a := 0; a < 2 && err != nil && (os.IsTimeout(err) || strings.Contains(err.Error(), "Timeout") || strings.Contains(err.Error(), "deadline exceeded")); a++ {
			// no answer within 3 s says nothing on an oversubscribed machine: only a refused / reset connection, or
			// silence for 20 s twice over, counts as "down" (the probe's interval T0..T1 grows accordingly)
			resp, err = slowClient.Get(url)
		}
		if err != nil {
			p.T1 = now()
			p.Err = err.Error()
			if len(p.Err) > 120 {
				p.Err = p.Err[len(p.Err)-120:]
			}
			return p
		}
		b, _ := io.ReadAll(io.LimitReader(resp.Body, 4096))
		resp.Body.Close()
		p.T1 = now()
		p.S, p.B = resp.StatusCode, strings.TrimSpace(string(b))
		return p
	}
	out.First = probe(fresh, false)
	for a := 0; a < 300 && out.First.Err != ""; a++ { // listener started on a goroutine: bounded retry
		time.Sleep(10 * time.Millisecond)
		out.First = probe(fresh, false)
		if a%20 == 19 {
			for _, l := range rec.peek() {
				if strings.Contains(l.Line, "address already in use") {
					out.PortLost = true
					out.StartErr = "port taken by another process"
					return out
				}
			}
		}
	}

	// SSE client: a browser tab with the live-reload stream open (keeps a request active on
	// the old server across the restart).
	var sseMu sync.Mutex
	var sseOpen bool
	var sseEvents int
	sseStop := make(chan struct{})
	if job.SSE {
		go func() {
			for {
				select {
				case <-sseStop:
					return
				default:
				}
				req, _ := http.NewRequest("GET", fmt.Sprintf("http://127.0.0.1:%d/__livereload", port), nil)
				resp, err := (&http.Client{Transport: &http.Transport{DisableKeepAlives: true}}).Do(req)
				if err != nil {
					time.Sleep(20 * time.Millisecond)
					continue
				}
				sseMu.Lock()
				sseOpen = true
				sseMu.Unlock()
				br := bufio.NewReader(resp.Body)
				done := make(chan struct{})
				go func() {
					select {
					case <-sseStop:
						resp.Body.Close()
					case <-done:
					}
				}()
				for {
					line, err := br.ReadString('\n')
					if strings.Contains(line, "reload") {
						sseMu.Lock()
						sseEvents++
						sseMu.Unlock()
					}
					if err != nil {
						break
					}
				}
				close(done)
				resp.Body.Close()
			}
		}()
		time.Sleep(30 * time.Millisecond)
	}
	defer close(sseStop)

	// background prober
	var bgMu sync.Mutex
	bgStop := make(chan struct{})
	bgDone := make(chan struct{})
	go func() {
		defer close(bgDone)
		i := 0
		for {
			select {
			case <-bgStop:
				return
			default:
			}
			var p dProbe
			if i%2 == 0 {
				p = probe(fresh, false)
			} else {
				p = probe(keep, true)
			}
			i++
			bgMu.Lock()
			if len(out.Bg) < 4000 {
				out.Bg = append(out.Bg, p)
			}
			bgMu.Unlock()
			time.Sleep(3 * time.Millisecond)
		}
	}()

	if job.Mode != "reload" {
		go m.watchForChanges()
		// the watcher is ready once the directory watch is added
		for i := 0; i < 400; i++ {
			if m.watcher != nil && len(m.watcher.WatchList()) > 0 {
				break
			}
			time.Sleep(5 * time.Millisecond)
		}
	}

	apply := func(e *dEdit) {
		if fi, err := os.Stat(file); err == nil && fi.IsDir() {
			os.Remove(file) // a previous "unreadable" edit put a directory in the file's place
		}
		switch e.Style {
		case "mkdir":
			// unreadable: the path exists but cannot be read as a file
			os.Remove(file)
			os.Mkdir(file, 0o755)
		case "delete":
			os.Remove(file)
		case "atomic":
			tmpf := filepath.Join(dir, ".main.glyph.swp")
			os.WriteFile(tmpf, []byte(e.Content), 0o644)
			os.Rename(tmpf, file)
		case "recreate":
			os.Remove(file)
			time.Sleep(time.Duration(e.GapMs) * time.Millisecond)
			os.WriteFile(file, []byte(e.Content), 0o644)
		case "trunc-write":
			f, err := os.OpenFile(file, os.O_WRONLY|os.O_CREATE|os.O_TRUNC, 0o644)
			if err == nil {
				half := len(e.Content) / 2
				f.WriteString(e.Content[:half])
				time.Sleep(time.Duration(e.GapMs) * time.Millisecond)
				f.WriteString(e.Content[half:])
				f.Close()
			}
		default:
			os.WriteFile(file, []byte(e.Content), 0o644)
		}
	}
	bound := time.Duration(job.BoundMs) * time.Millisecond
	settle := time.Duration(job.Settle) * time.Millisecond

	for i := range job.Edits {
		e := &job.Edits[i]
		st := dStep{Edit: i}
		if e.Style == "delete" || e.Style == "mkdir" {
			st.Cold, st.ColdErr = devCold(dir, nil)
		} else {
			st.Cold, st.ColdErr = devCold(dir, &e.Content)
		}
		st.TWrite = now()
		apply(e)
		switch job.Mode {
		case "reload":
			st.TCall = now()
			m.reload()
			st.TRet = now()
			// after the reload returned the answer must be there. runDevServer starts the
			// listener on a goroutine and sleeps 100 ms, so right after a SUCCESSFUL reload
			// a refused connection is retried (bounded, logical attempts); the oracle
			// allows that only for edits that load.
			for a := 0; a < 300; a++ {
				p := probe(fresh, false)
				st.Attempts++
				if len(st.After) < 40 {
					st.After = append(st.After, p)
				} else {
					st.After[39] = p
				}
				if p.Err == "" && a >= 2 {
					break
				}
				if p.Err != "" && st.Cold != "load" {
					break
				}
				time.Sleep(10 * time.Millisecond)
			}
			st.Final = probe(keep, true)
		case "watch":
			// one edit at a time: wait until the port answers with this edit's marker or
			// the bound expires; the oracle decides which of the two was required
			want := devMarker(e.Content)
			deadline := time.Now().Add(bound)
			minWait := time.Now().Add(settle)
			for {
				p := probe(fresh, false)
				st.Attempts++
				if len(st.After) < 400 {
					st.After = append(st.After, p)
				}
				st.Final = p
				hit := want != "" && p.S == 200 && p.B == want
				if hit && st.Cold == "load" {
					break
				}
				if st.Cold != "load" && time.Now().After(minWait) {
					break
				}
				if time.Now().After(deadline) {
					break
				}
				time.Sleep(8 * time.Millisecond)
			}
			if st.Cold == "load" && !(st.Final.S == 200 && st.Final.B == want) && want != "" {
				// corroborate "never takes effect": look again much later
				time.Sleep(4 * bound)
				p := probe(fresh, false)
				st.Late = &p
			}
		case "burst":
			// edits written back to back; convergence is judged after the last one
			if e.GapMs > 0 && e.Style != "recreate" && e.Style != "trunc-write" {
				time.Sleep(time.Duration(e.GapMs) * time.Millisecond)
			}
			if i == len(job.Edits)-1 {
				want := devMarker(e.Content)
				deadline := time.Now().Add(bound)
				minWait := time.Now().Add(settle)
				for {
					p := probe(fresh, false)
					st.Attempts++
					if len(st.After) < 400 {
						st.After = append(st.After, p)
					}
					st.Final = p
					if st.Cold == "load" && want != "" && p.S == 200 && p.B == want && time.Now().After(minWait) {
						break
					}
					if st.Cold != "load" && time.Now().After(minWait) {
						break
					}
					if time.Now().After(deadline) {
						break
					}
					time.Sleep(8 * time.Millisecond)
				}
				if st.Cold == "load" && want != "" && !(st.Final.S == 200 && st.Final.B == want) {
					time.Sleep(4 * bound)
					p := probe(fresh, false)
					st.Late = &p
				}
			}
		}
		// the input contract of the version that is serving: POST /typed with its conforming body
		if st.Final.S == 200 && strings.HasPrefix(st.Final.B, `{"v":`) {
			k := strings.TrimSuffix(strings.TrimPrefix(st.Final.B, `{"v":`), "}")
			tp := dProbe{T0: now()}
			resp, err := fresh.Post(fmt.Sprintf("http://127.0.0.1:%d/typed", port), "application/json", strings.NewReader(`{"f`+k+`":"x"}`))
			if err != nil {
				tp.Err = err.Error()
			} else {
				b, _ := io.ReadAll(io.LimitReader(resp.Body, 4096))
				resp.Body.Close()
				tp.S, tp.B = resp.StatusCode, strings.TrimSpace(string(b))
			}
			tp.T1 = now()
			st.Typed = &tp
		}
		out.Steps = append(out.Steps, st)
	}
	close(bgStop)
	<-bgDone
	out.Logs = rec.take()
	if len(out.Logs) > 200 {
		out.Logs = out.Logs[:200]
	}
	out.Gor = runtime.NumGoroutine()
	sseMu.Lock()
	out.SSEOpen, out.SSEEvents = sseOpen, sseEvents
	sseMu.Unlock()
	return out
}

// devMarker extracts the body the /version route of this content would answer with:
// the generator writes it as a comment `# marker: {...}` on the first line.
func devMarker(content string) string {
	const tag = "# marker: "
	if strings.HasPrefix(content, tag) {
		if i := strings.IndexByte(content, '\n'); i > 0 {
			return strings.TrimSpace(content[len(tag):i])
		}
	}
	return ""
}
