#!/bin/bash
# selftest.sh <Cxx> <patch.diff> [tier]  — apply a seeded change to a scratch worktree of /repo,
# run the check against it (VERIF_REPO), print its exit status, remove the worktree.
# Never touches /repo's working tree or /verif/evidence.
set -u
ID=$1; PATCH=$(readlink -f "$2"); TIER=${3:-quick}
WT=$(mktemp -d /tmp/wt-XXXXXX); OUT=$(mktemp -d /tmp/out-XXXXXX)
git -C /repo worktree add --detach -f "$WT" HEAD >/dev/null 2>&1 || { echo "worktree failed"; exit 2; }
if ! git -C "$WT" apply "$PATCH"; then echo "patch does not apply"; git -C /repo worktree remove --force "$WT"; exit 2; fi
VERIF_REPO="$WT" VERIF_OUT="$OUT" /verif/check "$ID" "$TIER" > "$OUT/log" 2>&1; rc=$?
grep -E "^(INCONCLUSIVE|BUILD-FAILED|C[0-9]+ )|violation:" "$OUT/log" | cut -c1-300 | head -${SELFTEST_LINES:-12}
echo "known_findings_printed=$(grep -c '^KNOWN-FINDING' "$OUT/log") violation_lines=$(grep -c '^VIOLATION' "$OUT/log")"
echo "selftest $ID $(basename $(dirname "$PATCH"))/$(basename "$PATCH") exit=$rc"
B=/verif/.build-$(echo "$WT" | md5sum | cut -c1-8); rm -rf "$B"
git -C /repo worktree remove --force "$WT"; rm -rf "$OUT"
exit $rc
