#!/usr/bin/env python3
"""Regenerates the two generated parts of DESIGN.md: the summary table of section 2 (from MANIFEST.json and the
evidence files) and the sensitivity record of section 8 (from sensitivity.json, written by sweep.py). Everything
between the BEGIN/END markers is replaced; the rest of DESIGN.md is hand-written."""
import json, os, re, glob
ROOT = os.path.dirname(os.path.abspath(__file__))
m = json.load(open(os.path.join(ROOT, 'MANIFEST.json')))
ev = {}
for f in glob.glob(os.path.join(ROOT, 'evidence', '*.json')):
    d = json.load(open(f)); ev[d['property_id']] = d
rows = ['| id | deciding monitor (MANIFEST `technique`, abridged) | level | quick tier as measured (evaluations / distinct non-trivial / wall) | recorded findings reproduced |',
        '|----|------|------|------|------|']
for c in m['checks']:
    pid = c['property_id']; e = ev.get(pid)
    tech = c['technique']
    if len(tech) > 230:
        tech = tech[:227] + '...'
    if e:
        cov = e['coverage']
        meas = f"{cov['evaluations']} / {cov['distinct_nontrivial']} / {round(e['wall_s'])} s ({e['tier']}, seed {e['seed']})"
        kf = ', '.join(cov.get('known_findings_reproduced') or []) or '-'
    else:
        meas, kf = 'no evidence file', '-'
    rows.append(f"| {pid} | {tech} | {c['level_claimed']['category']} | {meas} | {kf} |")
table2 = '\n'.join(rows)

sens = ''
sp = os.path.join(ROOT, 'sensitivity.json')
if os.path.exists(sp):
    s = json.load(open(sp))
    lines = [f"Last sweep: `/repo` at `{s['repo_head']}`, quick tier, `VERIF_SEED=1`; every change applied to a scratch worktree (`selftest.sh`), "
             f"{sum(c['caught'] for c in s['changes'])} of {len(s['changes'])} changes caught.", '',
             '| property | kind | change | caught by the quick tier | first violation signature |', '|---|---|---|---|---|']
    for c in s['changes']:
        sig = (c['first_violations'] or [c.get('note', '')])[0]
        sig = sig.replace('|', '\\|')
        if len(sig) > 150:
            sig = sig[:147] + '...'
        lines.append(f"| {c['property']} | {c['kind']} | {c['name']} | {'yes' if c['caught'] else 'NO (exit %d)' % c['exit']} | {sig} |")
    if s.get('unchanged_tree'):
        lines += ['', 'Unchanged tree in the same sweep (exit status per check): ' + ', '.join(f"{c['property']}={c['exit']}" for c in s['unchanged_tree'])]
    sens = '\n'.join(lines)

p = os.path.join(ROOT, 'DESIGN.md')
d = open(p).read()
def repl(tag, body):
    global d
    a = f'<!-- BEGIN {tag} -->'; b = f'<!-- END {tag} -->'
    if a in d and b in d:
        d = d[:d.index(a) + len(a)] + '\n' + body + '\n' + d[d.index(b):]
    else:
        print('marker missing:', tag)
repl('TABLE2', table2)
if sens:
    repl('SENSITIVITY', sens)
open(p, 'w').write(d)
print('DESIGN.md tables regenerated')
