#!/usr/bin/env python3
"""Regenerates the two generated parts of DESIGN.md: the summary table of section 2 (from MANIFEST.json and the
evidence files) and the sensitivity record of section 8 (from sensitivity.json, written by sweep.py). Everything
between the BEGIN/END markers is replaced; the rest of DESIGN.md is hand-written."""
import json, os, re, glob
ROOT = os.path.dirname(os.path.abspath(__file__))
m = json.load(open(os.path.join(ROOT, 'MANIFEST.json')))
ev = {}
for f in glob.glob(os.path.join(ROOT, 'evidence', '*.json')):
    d = json.load(open(f)); ev[d['property_id']] = d
rows = ['| id | deciding monitor (MANIFEST `technique`, abridged) | level | quick tier as measured (evaluations / distinct non-trivial / wall) | recorded findings reproduced |',
        '|----|------|------|------|------|']
for c in m['checks']:
    pid = c['property_id']; e = ev.get(pid)
    tech = c['technique']
    if len(tech) > 230:
        tech = tech[:227] + '...'
    if e:
        cov = e['coverage']
        meas = f"{cov['evaluations']} / {cov['distinct_nontrivial']} / {round(e['wall_s'])} s ({e['tier']}, seed {e['seed']})"
        kf = ', '.join(cov.get('known_findings_reproduced') or []) or '-'
    else:
        meas, kf = 'no evidence file', '-'
    rows.append(f"| {pid} | {tech} | {c['level_claimed']['category']} | {meas} | {kf} |")
table2 = '\n'.join(rows)

sens = ''
sp = os.path.join(ROOT, 'sensitivity.json')
if os.path.exists(sp):
    s = json.load(open(sp))
    lines = [f"Last sweep: `/repo` at `{s['repo_head']}`, quick tier, `VERIF_SEED=1`; every change applied to a scratch worktree (`selftest.sh`), "
             f"{sum(c['caught'] for c in s['changes'])} of {len(s['changes'])} changes caught.", '',
             '| property | kind | change | caught by the quick tier | first violation signature |', '|---|---|---|---|---|']
    for c in s['changes']:
        sig = (c['first_violations'] or [c.get('note', '')])[0]
        sig = sig.replace('|', '\\|')
        if len(sig) > 150:
            sig = sig[:147] + '...'
        lines.append(f"| {c['property']} | {c['kind']} | {c['name']} | {'yes' if c['caught'] else 'NO (exit %d)' % c['exit']} | {sig} |")
    if s.get('unchanged_tree'):
        lines += ['', 'Unchanged tree in the same sweep (exit status per check): ' + ', '.join(f"{c['property']}={c['exit']}" for c in s['unchanged_tree'])]
    sens = '\n'.join(lines)

p = os.path.join(ROOT, 'DESIGN.md')
d = open(p).read()
def repl(tag, body):
    global d
    a = f'<!-- BEGIN {tag} -->'; b = f'<!-- END {tag} -->'
    if a in d and b in d:
        d = d[:d.index(a) + len(a)] + '\n' + body + '\n' + d[d.index(b):]
    else:
        print('marker missing:', tag)
import re as _re
kf = json.load(open(os.path.join(ROOT, 'known_findings.json')))
fx = {}
for f in kf['fixed']:
    mm = _re.match(r'fixed: property=(C\d\d) (\w+) (.*)', f)
    fx.setdefault(mm.group(1), []).append((mm.group(2), mm.group(3)))
fd = {}
for f in kf['findings']:
    fd.setdefault(f['property'], []).append((f['id'], f['what']))
why = {'C02': 'The VM and the interpreter are two separately written engines; each of these gaps needs a semantic decision (which engine is right) or a larger VM change (scoped locals, user functions, built-ins) that is not a small safe patch. The single most valuable repair would be at the fallback rule (an unresolved call -> non-semantic compile error -> interpreter).',
       'C03': 'The optimizer rewrites only pointer-form ASTs (the parser produces value form, so `glyph compile` output is unaffected today); making propagation flow-sensitive and the algebraic rewrites type-aware is a redesign of `pkg/compiler/optimizer.go`, not a patch.',
       'C07': 'Whether an absent/ill-formed body should be a 400 when the declared type has required fields, and whether compiled mode should apply defaults / check return types, are behaviour changes across both engines (same roots as two C02 findings).',
       'C11': 'The unit model of the CLI conversion (everything expressed per minute with burst = budget) needs a new configuration surface in the middleware (window + burst), not a one-line change.',
       'C18': 'The expanded syntax is a second, incomplete grammar: the expanded lexer lacks operators and keywords the compact syntax has, `expand` only looks at line starts and `compact` rewrites words inside blocks without a parse. Repairing it means finishing that grammar.'}
out = ['### 5.1 Repaired (`fix:` commits, oldest first per property; %d in total)\n' % len(kf['fixed'])]
for pid in sorted(fx):
    for c, w in fx[pid]:
        out.append(f'* **{pid}** `{c}` — {w}')
out.append('\n### 5.2 Recorded, not repaired (%d findings; each replayed by a directed probe or matched by signature on every run)\n' % len(kf['findings']))
for pid in sorted(fd):
    out.append(f'**{pid}** — {why.get(pid, "")}\n')
    for i, w in fd[pid]:
        out.append(f'* `{i}` — {w}')
    out.append('')
repl('FINDINGS', '\n'.join(out))
repl('TABLE2', table2)
if sens:
    repl('SENSITIVITY', sens)
open(p, 'w').write(d)
print('DESIGN.md tables regenerated')
