#!/usr/bin/env python3
"""Regenerates MANIFEST.json from the table below (keeps it valid while checks are added)."""
import json, os
ROOT = os.path.dirname(os.path.abspath(__file__))
props = [json.loads(l) for l in open(os.path.join(ROOT, 'properties.jsonl'))]

# id -> (category, technique, level text, level note, design ref)
CHECKS = {
 'C20': ('exploration',
         'lock-step reference-LRU monitor on a virtual clock + porcupine per-key linearizability of recorded concurrent histories + Go race detector + in-worker hang watchdog',
         'Held on N PRNG-generated sequential histories (every return value, eviction and Stats compared with a reference LRU; evictions validated as necessary and least-recently-used) and on concurrent rounds whose recorded histories are checked per key with porcupine, with limits sampled continuously and the race detector on. Exploration is the right level: the property quantifies over unbounded histories and schedules; runtime monitoring samples them with an input-independent oracle.',
         'Trusts the reference model (harness/cmd/vcheck/c20.go), the sed-generated virtual clock overlay, porcupine, and the race detector. Says nothing about histories not generated; liveness is bounded progress (10 s watchdog + two goroutine dumps).',
         'DESIGN.md §3 C20'),
 'C17': ('exploration',
         'confinement oracle with per-file canaries over generated symlink layouts and hostile paths (runtime monitor at ServeHTTP / ServeMux / SendFile boundary)',
         'Held on N generated directory trees x request paths: no response contained the canary of an outside file or an outside directory entry, and every 2xx body was (a byte range of) a regular file really inside the root. Exploration: the space of layouts x paths is unbounded; the oracle is input independent, so every generated request is a test.',
         'Trusts the canary construction (unique random tokens) and os/filepath semantics of the sandbox filesystem. Special files are not generated. The CLI mux is mimicked by an http.ServeMux mounted with the same pattern rule as registerStaticRoutes.',
         'DESIGN.md §3 C17'),
 'C13': ('exploration',
         'statement-skeleton monitor against a benign baseline + unsafe-token monitor + value-independence monitor on recorded (sql,args) of every entry point (recording database/sql driver for postgres/mysql, wrapping driver over real in-memory SQLite) + sentinel-table state oracle',
         'Held on N generated slot fillings over 32 entry points x 3 drivers: every statement that reached the database had the token skeleton of the benign statement, carried only safe quoted identifiers, allow-listed operators/join types, single-definition column types, did not change with values, and left the SQLite sentinel table, table set and column lists as modelled.',
         'Trusts the 120-line SQL lexer and the independent restatement of the safe grammar in c13.go. PostgreSQL/MySQL are checked on statement text only (no server in the sandbox); SQLite statements are executed for real.',
         'DESIGN.md §3 C13'),
 'C14': ('fault_enumeration',
         'all-or-nothing state oracle over enumerated fault positions x fault kinds in the transaction callback and in BulkInsert rows (runtime monitor on real in-memory SQLite, all three drivers\' Transaction code)',
         'Every enumerated (sequence, failure position, failure kind, driver) case, back-to-back pair, nested transaction and bad-row bulk insert left the tables equal to the before-snapshot (failure) or before+all statements (success), with the handle usable and no connection in use afterwards. The fault space per sequence is finite and is enumerated completely; sequences are bounded in length.',
         'Trusts SQLite as the storage engine under all three drivers (Postgres/MySQL server behaviour is out of reach), the snapshot comparison, and the 5 s usability deadline. Sequences longer than the bound are not explored.',
         'DESIGN.md §3 C14'),
 'C05': ('exploration',
         'reference-router monitor: marker-returning route bodies observed through the CLI wiring (setupRoutes/createHandler/ServeMux) in both modes and compared with a 30-line reference router',
         'Held on N generated route tables (plus the exhaustive space of <=2 declarations over a small alphabet) x every request path of depth<=3 over a 5-symbol alphabet x 5 methods x both execution modes, plus percent-encoded spellings (exact expectation) and unclean paths (safety half only): the declaration that ran, its parameter bindings and 404s matched the reference.',
         'Trusts the reference router (c05.go) and the overlay worker that wires the CLI functions the way startServer does (ServeMux + createHandler). Duplicate parameter names in one pattern are not generated.',
         'DESIGN.md §3 C05'),
 'C06': ('exploration',
         'tri-valued credential oracle (must-reject / must-accept / unspecified) + body-execution markers and a provider side-effect counter, observed through the CLI wiring in both execution modes under every credential configuration; lockout histories',
         'Held on the full matrix of 36 credential configurations x 6 declared auth types x ~36 header shapes x 3 mode variants (about 25k decided probes) plus lockout histories: no request lacking a configured credential got a 2xx/3xx, a body marker or a side effect; canonical credentials were accepted while not locked out; open routes were unaffected; one client could not lock out another through forged forwarding headers.',
         'Trusts the classification of header shapes in c06.go (a request "carries" a credential only if a header value contains it as a whitespace-delimited whole). Real JWT validation does not exist in the tree: the secret is compared as a bearer token.',
         'DESIGN.md §3 C06'),
 'C07': ('exploration',
         'reference conformance monitor: generated type definitions with conforming-by-construction documents and single-fault mutants, typed query strings and return literals, echoed by marker-carrying route bodies and observed at the HTTP boundary in both execution modes',
         'Held (apart from the listed known findings) on N generated types x ~25 documents/queries/return literals each x both modes: clear violations were answered 4xx (5xx for return values) without running the body, conforming requests ran with exactly the declared defaults applied to absent fields.',
         'Trusts the reference notion of "clear" conformance in c07.go (extra fields, int-for-float and null for optional fields are never asserted). Three recorded findings are quarantined by signature (body not an object; compiled mode applies no defaults; compiled mode checks no return type).',
         'DESIGN.md §3 C07'),
 'C01': ('exploration',
         'reference-evaluator monitor: generated abstract programs printed to source, run by the tree-walking interpreter and compared with an independent reference evaluator; determinism monitor (three runs per program); directed operator-pair / coercion / scoping / control-flow families',
         'Held on N generated programs + the directed families: the interpreter outcome (value, GlyphLang error, or status response) equalled the reference evaluator outcome, and repeated runs agreed. Exploration: programs are an unbounded space; the reference evaluator is the input-independent oracle.',
         'Trusts the reference evaluator (harness/ref/eval.go, rules listed in DESIGN appendix A, a few calibrated on the unchanged tree) and the printer. Constructs outside the generated fragment are not covered; cases the reference does not define (for over objects, == on compound values with floats) are discarded and counted.',
         'DESIGN.md §3 C01, appendix A'),
 'C02': ('translation_validation',
         'differential monitor at the HTTP boundary: the same generated module served by the CLI wiring in compiled (VM) and interpreted mode, (status, decoded body, connection fate) compared per request; request-binding parity workload; directed probes for quarantined constructs',
         'Held on N generated routes (core fragment) plus a request-binding workload: both execution modes gave the same status, decoded body and connection fate. Every disagreement is checked against the recorded findings by signature; the recorded ones are listed as KNOWN-FINDING, anything else is a violation.',
         'Trusts the overlay worker wiring and the JSON-level comparison. The core fragment excludes 11 constructs on which the engines are known to differ (recorded findings, each replayed by a directed probe); 5xx bodies are compared as generic.',
         'DESIGN.md §3 C02'),
 'C03': ('translation_validation',
         'differential VM-vs-VM monitor: bytecode compiled at OptBasic / OptAggressive / every JIT tier executed against the OptNone compilation of the same AST (parsed, value-built, pointer-built, mixed form) under several runtime bindings of free variables; directed pointer-form families per optimizer rewrite',
         'Held (apart from the recorded optimizer findings, which are matched by signature) on N generated programs x 4 AST forms x 3 variable assignments x 6 compilations: same value / error class / status as the unoptimised code, and no level accepted a program another rejected. A safe generator profile keeps the recorded defect shapes out, so that any disagreement there is new.',
         'Trusts the VM as the common executor and the AST builder (astbuild.go). Side effects other than the returned value/status are not generated (no WebSocket opcodes yet). Recorded: algebraic identities dropping errors, flow-insensitive propagation, status dropped from rewritten returns (pointer-form ASTs only).',
         'DESIGN.md §3 C03'),
 'C04': ('exploration',
         'containment monitor at the HTTP boundary (CLI wiring, both modes, one module per case) + library-level engine-panic monitor: enumerated operator x shape / builtin x arity x shape / statement-position / response-builder x status matrices, extremes, non-terminating programs under a watchdog with goroutine dumps, hostile requests, ill-typed random programs; canary route after every case',
         'Held on the completely enumerated matrices (about 12k cases) plus N random ill-typed programs, in both modes: no dropped connection, no hang, no process death, generic 5xx bodies, no Go error text / stack / path in any body, no 2xx for an evaluation that fails at library level, no Go panic escaping either engine, and the canary route answered after every case.',
         'Trusts the leak patterns and the generic-body predicate in c04.go. Bounded work is a 25 s watchdog (normal requests take milliseconds) corroborated by two goroutine dumps; finite-but-enormous loops are not generated. Since the dispatcher now recovers panics, engine panics are observed at library level.',
         'DESIGN.md §3 C04'),
 'C11': ('exploration',
         'admission-bound checker over recorded timed histories on a virtual clock (pairwise bound N*(1+T/window)+1, conforming-client, isolation-replay and identity oracles) at the CLI (`+ ratelimit`) and library middleware; concurrent floods; race detector',
         'Held (apart from the recorded window-conversion finding for sec/hour at the CLI) on N histories: no client was admitted more than the bound in any interval, clients built to stay within the rate were never rejected, each client was admitted exactly as when alone, forged forwarding headers did not open new buckets while proxies are untrusted, 429s never ran the body, and 640-way concurrent floods admitted at most N.',
         'Trusts the sed-generated clock overlay and the pairwise bound (with a slack of one token for integer refill rounding). Ticker-driven eviction (real clock, 60 s) is not reached.',
         'DESIGN.md §3 C11'),
 'C10': ('exploration',
         'robustness monitor in RLIMIT_AS children (panic / process death / allocation bound / watchdog) over mutated and structured hostile source and bytecode, plus an agreement monitor using the VM step hook (build tag verif): executed offsets and opcodes vs the instruction boundaries of the decompiler, constants vs the loaded pool, reference container walker',
         'Held on N mutated / generated / stressor inputs through lexer, expanded lexer, parser, VM (step limit) and decompiler: every call ended in a result or a diagnostic within the allocation bound; and on N compiled programs (O0/O1/O3, incl. match and async): the VM executed them without format errors, the decompiler disassembled them completely, constants agreed, and every executed instruction started at a disassembled instruction of the same opcode.',
         'Trusts the reference walker of the container layout (c10.go) and the hook (pkg/vm/verifhook_on.go). The allocation bound (256 MiB + 8 KiB per input byte) and the 20 s watchdog are deliberately loose. Async bodies run on a separate VM and are not covered by the offset comparison.',
         'DESIGN.md §3 C10'),
 'C18': ('exploration',
         'law monitors (idempotence, token-sequence preservation, expand/compact round trip on position-free syntax trees, expanded-lexer agreement, no panic) over repository examples with layout noise, generated programs with keyword-named identifiers, and mutated / random byte strings',
         'Held on N inputs: fmt is idempotent on every byte string and preserves the token sequence of every parseable input (apart from the recorded lone-CR finding); the round-trip and expanded-text laws hold on the core generator profile, and their failures elsewhere are matched against the recorded findings by diagnostic signature.',
         'Trusts the position-free tree rendering (c18Norm) and the token comparison (NEWLINE tokens compared as adjacency only; leading blank lines and the final newline are layout). The expand/compact laws are fully sensitive only on the core profile; outside it three recorded findings cover whole diagnostic classes.',
         'DESIGN.md §3 C18'),
 'C12': ('exploration',
         'probe-provider invocation monitor + crash monitor: every method name x spelling x call form x argument vector, through interpreter.CallMethod and from GlyphLang source with the provider injected; real in-memory providers driven the same way',
         'Held on the enumerated matrix (about 1900 name/spelling/form jobs x up to 160 argument vectors): no method outside the allow-list was ever invoked, whatever the spelling or call form, allow-listed ones were, and no argument vector made a provider call panic or kill the process.',
         'The allow-list is read from the running code (IsProviderMethodAllowed fallback list). llm.Handler is not driven; the HTTP handler gets a reduced argument set (no network in the sandbox).',
         'DESIGN.md §3 C12'),
}
NA = {}
for p in props:
    if p['id'] not in CHECKS:
        NA[p['id']] = 'check not built yet in this round (planned: see DESIGN.md section 3); no claim is made'

m = {
 'version': 1,
 'setup_cmd': './setup.sh',
 'hooks': {
   'guard': 'verif',
   'enable': 'go build -tags verif (checks add -overlay for in-package test drivers and the virtual clock; see mkoverlay.sh)',
   'baseline_off_cmd': "cd /repo && GOFLAGS=-mod=mod go test -json -vet=off -count=1 -timeout 25m ./...",
   'source_commits': ['36f6d04'],
   'add_only': True,
 },
 'engines': [
   {'name': 'vcheck', 'path': 'harness/cmd/vcheck', 'serves_properties': sorted(CHECKS), 'kind_free_text': 'Go runtime-monitoring driver: PRNG workload generators, child-process workers, reference-model / differential / history oracles, race-detector log parser'},
 ],
 'checks': [],
 'notes': 'Runtime monitoring only. ./check <id> quick|thorough rebuilds the harness against /repo working tree on every call. See DESIGN.md.',
 'not_applicable': [{'property_id': k, 'reason': v} for k, v in sorted(NA.items())],
}
for pid in sorted(CHECKS):
    cat, tech, text, note, ref = CHECKS[pid]
    m['checks'].append({
      'property_id': pid,
      'quick_cmd': f'./check {pid} quick',
      'thorough_cmd': f'./check {pid} thorough',
      'evidence_file': f'/verif/evidence/{pid}.json',
      'replay_cmd_template': f'./check {pid} --replay {{path}}',
      'engine': 'vcheck',
      'level_claimed': {'category': cat, 'text': text, 'design_ref': ref},
      'level_note': note,
      'technique': tech,
    })
json.dump(m, open(os.path.join(ROOT, 'MANIFEST.json'), 'w'), indent=1)
print('MANIFEST.json written:', len(m['checks']), 'checks,', len(m['not_applicable']), 'not_applicable')
