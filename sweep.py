#!/usr/bin/env python3
"""Sensitivity sweep: run every mutant (mutants/<Cxx>/*.diff) and every independently seeded change
(seeded/<Cxx>-<V>/patch.diff) through the quick tier of its property's check, each in a scratch worktree of /repo
(selftest.sh), and write sensitivity.json + sensitivity.md. Also runs every check once on the unchanged tree.

usage: sweep.py [-j N] [--only C08,C19] [--no-clean] [--resume LOG [--rerun C02,C16]]
--resume takes the results already printed in the log of an interrupted sweep (same /repo HEAD) and runs only what is
missing there; --rerun drops the cached results of the named properties (their checks changed since).
"""
import glob, json, os, re, subprocess, sys, time
from concurrent.futures import ThreadPoolExecutor

ROOT = os.path.dirname(os.path.abspath(__file__))
args = sys.argv[1:]
J = 3
only = None
clean = True
resume = None
rerun = set()
i = 0
while i < len(args):
    if args[i] == '-j':
        J = int(args[i + 1]); i += 2
    elif args[i] == '--only':
        only = set(args[i + 1].split(',')); i += 2
    elif args[i] == '--no-clean':
        clean = False; i += 1
    elif args[i] == '--resume':
        resume = args[i + 1]; i += 2
    elif args[i] == '--rerun':
        rerun = set(args[i + 1].split(',')); i += 2
    else:
        i += 1

HEAD = subprocess.run(['git', '-C', '/repo', 'rev-parse', '--short', 'HEAD'], capture_output=True, text=True).stdout.strip()
jobs = []
for p in sorted(glob.glob(os.path.join(ROOT, 'mutants', '*', '*.diff'))):
    pid = os.path.basename(os.path.dirname(p))
    if pid == 'equivalent':
        continue
    jobs.append((pid, 'mutant', os.path.basename(p)[:-5], p))
for d in sorted(glob.glob(os.path.join(ROOT, 'seeded', '*'))):
    pid = os.path.basename(d).split('-')[0]
    jobs.append((pid, 'seeded', os.path.basename(d), os.path.join(d, 'patch.diff')))
if only:
    jobs = [j for j in jobs if j[0] in only]


cached = {}
if resume:
    import ast
    for line in open(resume, errors='replace'):
        m = re.match(r'(C\d\d) (mutant|seeded) (\S+): exit=(-?\d+) (\[.*\]) \((\d+) s\)', line)
        if m and m.group(1) not in rerun:
            try:
                sigs = ast.literal_eval(m.group(5))
            except Exception:
                sigs = []
            cached[(m.group(1), m.group(2), m.group(3))] = {'property': m.group(1), 'kind': m.group(2), 'name': m.group(3), 'exit': int(m.group(4)),
                                                             'caught': int(m.group(4)) == 1, 'first_violations': sigs, 'wall_s': int(m.group(6))}
    print('resuming:', len(cached), 'results taken from', resume, flush=True)


def run(job):
    pid, kind, name, patch = job
    if (pid, kind, name) in cached:
        return cached[(pid, kind, name)]
    t0 = time.time()
    env = dict(os.environ, SELFTEST_LINES='6')
    r = subprocess.run([os.path.join(ROOT, 'selftest.sh'), pid, patch], capture_output=True, text=True, errors='replace', env=env, cwd=ROOT)
    out = r.stdout + r.stderr
    m = re.search(r'exit=(\d+)', out)
    code = int(m.group(1)) if m else -1
    sigs = re.findall(r'violation: (.*?) — ', out)
    res = {'property': pid, 'kind': kind, 'name': name, 'exit': code,
           'caught': code == 1, 'first_violations': sigs[:3], 'wall_s': round(time.time() - t0)}
    if 'patch does not apply' in out:
        res['note'] = 'patch does not apply on the current HEAD'
    print(f"{pid} {kind} {name}: exit={code} {sigs[:1]} ({res['wall_s']} s)", flush=True)
    if kind == 'seeded':
        # keep the stored meta current: what the check said when the seed was first confirmed stays in
        # check_result, the latest sweep result goes to check_result_latest
        mp = os.path.join(os.path.dirname(patch), 'meta.json')
        try:
            m = json.load(open(mp))
            m['check_result_latest'] = {'exit': f'exit={code}', 'first_violations': sigs[:3], 'repo_head': HEAD}
            json.dump(m, open(mp, 'w'), indent=1)
        except Exception as e:
            print('meta update failed', e)
    return res


results = []
with ThreadPoolExecutor(J) as ex:
    for res in ex.map(run, jobs):
        results.append(res)

cleanres = []
if clean and not only:
    props = sorted({json.loads(l)['id'] for l in open(os.path.join(ROOT, 'properties.jsonl'))})
    for pid in props:
        t0 = time.time()
        out_dir = f'/tmp/sweep-clean-{pid}'
        env = dict(os.environ, VERIF_OUT=out_dir)
        r = subprocess.run([os.path.join(ROOT, 'check'), pid, 'quick'], capture_output=True, text=True, errors='replace', env=env, cwd=ROOT)
        cleanres.append({'property': pid, 'exit': r.returncode, 'wall_s': round(time.time() - t0),
                         'known_findings': len(re.findall(r'^KNOWN-FINDING', r.stdout, re.M))})
        print(f"clean {pid}: exit={r.returncode} ({cleanres[-1]['wall_s']} s)", flush=True)
        subprocess.run(['rm', '-rf', out_dir])

head = subprocess.run(['git', '-C', '/repo', 'rev-parse', '--short', 'HEAD'], capture_output=True, text=True).stdout.strip()
if not cleanres:
    # --no-clean / --only: keep the unchanged-tree results of the previous sweep at the same /repo HEAD
    try:
        prev = json.load(open(os.path.join(ROOT, 'sensitivity.json')))
        if prev.get('repo_head') == head:
            cleanres = prev.get('unchanged_tree', [])
    except Exception:
        pass
json.dump({'repo_head': head, 'changes': results, 'unchanged_tree': cleanres}, open(os.path.join(ROOT, 'sensitivity.json'), 'w'), indent=1)
with open(os.path.join(ROOT, 'sensitivity.md'), 'w') as f:
    f.write(f'Sensitivity sweep at /repo {head} (quick tier, VERIF_SEED=1)\n\n')
    f.write('| property | kind | change | caught | first violation signature |\n|---|---|---|---|---|\n')
    for r in results:
        f.write(f"| {r['property']} | {r['kind']} | {r['name']} | {'yes' if r['caught'] else 'NO (exit %d)' % r['exit']} | {'; '.join(r['first_violations'][:1]) or r.get('note','')} |\n")
    if cleanres:
        f.write('\nUnchanged tree: ' + ', '.join(f"{c['property']}={c['exit']}" for c in cleanres) + '\n')
print('caught', sum(r['caught'] for r in results), 'of', len(results))
