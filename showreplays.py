#!/usr/bin/env python3
import json,sys,glob,collections
prop=sys.argv[1]; n=int(sys.argv[2]) if len(sys.argv)>2 else 1; filt=sys.argv[3] if len(sys.argv)>3 else ''
seen=collections.Counter()
for f in sorted(glob.glob(f'/verif/replays/{prop}/*.json')):
    d=json.load(open(f)); sig=d['signature']
    if filt and filt not in sig: continue
    seen[sig]+=1
    if seen[sig]>n: continue
    w=d['witness'] or {}
    print('=====',sig); print(d['what'][:400])
    if isinstance(w,dict):
        for k in ('source','request_path','reference','observed'):
            if k in w: print(f'--{k}:', (w[k] if isinstance(w[k],str) else json.dumps(w[k]))[:1200])
