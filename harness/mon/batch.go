package mon

import (
	"encoding/json"
	"fmt"
	"math/rand"
	"os"
	"path/filepath"
	"runtime"
	"sort"
	"sync"
	"time"
)

// ---- protocol between a check (parent) and its batch workers (children) ----

type Job struct {
	Prop   string          `json:"prop"`
	Seed   int64           `json:"seed"`
	Tier   string          `json:"tier"`
	From   int             `json:"from"`
	To     int             `json:"to"`
	Params json.RawMessage `json:"params"`
}

type Rec struct {
	Ev         string          `json:"ev"`
	I          int             `json:"i,omitempty"`
	Key        string          `json:"key,omitempty"`
	Nontrivial bool            `json:"nt,omitempty"`
	Sig        string          `json:"sig,omitempty"`
	What       string          `json:"what,omitempty"`
	Witness    json.RawMessage `json:"witness,omitempty"`
	V          json.RawMessage `json:"v,omitempty"`
	Name       string          `json:"name,omitempty"`
	N          int             `json:"n,omitempty"`
	Evals      int             `json:"evals,omitempty"`
	Hashes     []string        `json:"hashes,omitempty"`
	Desc       string          `json:"desc,omitempty"`
	Stacks     []string        `json:"stacks,omitempty"`
	Counters   map[string]int  `json:"counters,omitempty"`
	Sets       map[string][]string `json:"sets,omitempty"`
}

// W is the worker-side handle.
type W struct {
	Job
	out     *JSONLWriter
	mu      sync.Mutex
	evals   int
	hashes  map[string]struct{}
	counts  map[string]int
	sets    map[string]map[string]struct{}
	samples int
	cur     int
}

func OpenWorker(in, out string) *W {
	b, err := os.ReadFile(in)
	if err != nil {
		fmt.Fprintln(os.Stderr, err)
		os.Exit(2)
	}
	w := &W{hashes: map[string]struct{}{}, counts: map[string]int{}, sets: map[string]map[string]struct{}{}}
	if err := json.Unmarshal(b, &w.Job); err != nil {
		fmt.Fprintln(os.Stderr, err)
		os.Exit(2)
	}
	w.out, err = NewJSONLWriter(out)
	if err != nil {
		fmt.Fprintln(os.Stderr, err)
		os.Exit(2)
	}
	return w
}

func (w *W) Thorough() bool { return w.Tier == "thorough" }

// Rand gives the PRNG of case i: a function of (property, seed, stream, i) only.
func (w *W) Rand(stream string, i int) *rand.Rand {
	return rand.New(rand.NewSource(caseSeed(w.Prop, w.Seed, stream, i)))
}

func caseSeed(prop string, seed int64, stream string, i int) int64 {
	h := Hash([]interface{}{prop, seed, stream, i})
	var s int64
	for k := 0; k < len(h) && k < 15; k++ {
		c := h[k]
		var d int64
		if c >= 'a' {
			d = int64(c-'a') + 10
		} else {
			d = int64(c - '0')
		}
		s = s<<4 | d
	}
	return s
}

// Begin pre-logs the case about to run (flushed), so that a process death is
// attributed to it.
func (w *W) Begin(i int) {
	w.mu.Lock()
	w.cur = i
	w.mu.Unlock()
	w.out.Write(Rec{Ev: "begin", I: i})
}

func (w *W) Case(key string, nontrivial bool) {
	w.mu.Lock()
	defer w.mu.Unlock()
	w.evals++
	if nontrivial {
		w.hashes[key] = struct{}{}
	}
}

func (w *W) Count(name string, n int) {
	w.mu.Lock()
	defer w.mu.Unlock()
	w.counts[name] += n
}

// Mark adds an element to a named set (coverage cells, opcodes seen, ...).
func (w *W) Mark(set, elem string) {
	w.mu.Lock()
	defer w.mu.Unlock()
	m := w.sets[set]
	if m == nil {
		m = map[string]struct{}{}
		w.sets[set] = m
	}
	m[elem] = struct{}{}
}

func (w *W) Sample(v interface{}) {
	w.mu.Lock()
	if w.samples >= 3 {
		w.mu.Unlock()
		return
	}
	w.samples++
	w.mu.Unlock()
	b, _ := json.Marshal(v)
	w.out.Write(Rec{Ev: "sample", V: b})
}

func (w *W) Violate(sig, what string, witness interface{}) {
	b, _ := json.Marshal(witness)
	w.mu.Lock()
	i := w.cur
	w.mu.Unlock()
	w.out.Write(Rec{Ev: "violation", I: i, Sig: sig, What: what, Witness: b})
}

func (w *W) Inconclusive(reason string) {
	w.out.Write(Rec{Ev: "inconclusive", What: reason})
}

func (w *W) Done() {
	w.mu.Lock()
	hs := make([]string, 0, len(w.hashes))
	for h := range w.hashes {
		hs = append(hs, h)
	}
	sets := map[string][]string{}
	for k, m := range w.sets {
		for e := range m {
			sets[k] = append(sets[k], e)
		}
	}
	rec := Rec{Ev: "summary", Evals: w.evals, Hashes: hs, Counters: w.counts, Sets: sets}
	w.mu.Unlock()
	w.out.Write(rec)
	w.out.Close()
}

// Watch runs f; if it has not returned after d, two all-goroutine dumps taken
// 3 s apart are written as a "hang" record and the process exits with status 99.
// The parent decides what the hang means (DESIGN 1.6).
func (w *W) Watch(desc string, d time.Duration, f func()) {
	done := make(chan struct{})
	go func() {
		defer close(done)
		f()
	}()
	t := time.NewTimer(d)
	defer t.Stop()
	select {
	case <-done:
		return
	case <-t.C:
	}
	s1 := allStacks()
	select {
	case <-done:
		// finished late: slow, not hung
		w.out.Write(Rec{Ev: "slow", Desc: desc})
		return
	case <-time.After(3 * time.Second):
	}
	s2 := allStacks()
	w.mu.Lock()
	i := w.cur
	w.mu.Unlock()
	w.out.Write(Rec{Ev: "hang", I: i, Desc: desc, Stacks: []string{s1, s2}})
	os.Exit(99)
}

func allStacks() string {
	buf := make([]byte, 1<<20)
	n := runtime.Stack(buf, true)
	return string(buf[:n])
}

// ---- parent side -----------------------------------------------------------

type Batch struct {
	Worker   string
	Bin      string // default: this executable
	N        int    // number of cases
	Chunk    int
	Parallel int
	Params   interface{}
	Timeout  time.Duration
	MemKB    int64
	Env      []string
	Tag      string
	// OnDeath is called when a child ended without a summary. i is the last
	// pre-logged case (-1 if none), rec the hang record if the worker's own
	// watchdog fired. It returns true when the batch should resume after i.
	OnDeath func(i int, out ChildOut, hang *Rec) bool
	// OnRec sees every record (optional).
	OnRec func(rec *Rec)
}

// RunBatch splits [0,N) into chunks, runs a child per chunk and folds the
// children's records into the run.
func (r *Run) RunBatch(b Batch) {
	if b.Bin == "" {
		b.Bin, _ = os.Executable()
	}
	if b.Chunk <= 0 {
		b.Chunk = b.N
	}
	if b.Parallel <= 0 {
		b.Parallel = 1
	}
	if b.Tag == "" {
		b.Tag = b.Worker
	}
	pj, _ := json.Marshal(b.Params)
	type span struct{ from, to int }
	var spans []span
	for f := 0; f < b.N; f += b.Chunk {
		t := f + b.Chunk
		if t > b.N {
			t = b.N
		}
		spans = append(spans, span{f, t})
	}
	dir := filepath.Join(BuildDir(), "run", r.Prop)
	os.MkdirAll(dir, 0o755)
	sem := make(chan struct{}, b.Parallel)
	var wg sync.WaitGroup
	var deaths int
	var dmu sync.Mutex
	for si, sp := range spans {
		wg.Add(1)
		sem <- struct{}{}
		go func(si int, sp span) {
			defer wg.Done()
			defer func() { <-sem }()
			from := sp.from
			for attempt := 0; from < sp.to; attempt++ {
				job := Job{Prop: r.Prop, Seed: r.Seed, Tier: r.Tier, From: from, To: sp.to, Params: pj}
				base := filepath.Join(dir, fmt.Sprintf("%s-%d-%d", b.Tag, si, attempt))
				jb, _ := json.Marshal(job)
				os.WriteFile(base+".job", jb, 0o644)
				os.Remove(base + ".out")
				co := Child{Bin: b.Bin, Args: []string{"worker", b.Worker, base + ".job", base + ".out"}, Env: b.Env,
					Timeout: b.Timeout, MemKB: b.MemKB, Log: base + ".log"}.Run()
				last := -1
				gotSummary := false
				var hang *Rec
				ReadJSONL(base+".out", func(raw []byte) {
					var rec Rec
					if json.Unmarshal(raw, &rec) != nil {
						return
					}
					if b.OnRec != nil {
						b.OnRec(&rec)
					}
					switch rec.Ev {
					case "begin":
						last = rec.I
					case "violation":
						var w interface{}
						json.Unmarshal(rec.Witness, &w)
						r.Violate(rec.Sig, rec.What, w)
					case "sample":
						var v interface{}
						json.Unmarshal(rec.V, &v)
						r.Sample(v)
					case "inconclusive":
						r.Inconclusive(rec.What)
					case "hang":
						h := rec
						hang = &h
					case "slow":
						r.Count("slow_but_finished", 1)
					case "summary":
						gotSummary = true
						r.mu.Lock()
						r.evals += rec.Evals
						for _, h := range rec.Hashes {
							r.distinct[h] = struct{}{}
						}
						for k, v := range rec.Counters {
							r.counters[k] += v
						}
						for k, es := range rec.Sets {
							m, _ := r.extra["set:"+k].(map[string]struct{})
							if m == nil {
								m = map[string]struct{}{}
								r.extra["set:"+k] = m
							}
							for _, e := range es {
								m[e] = struct{}{}
							}
						}
						r.mu.Unlock()
					}
				})
				if gotSummary && (co.Exit == 0 || co.Exit == 66) { // 66: the race detector's exit status; its reports are read from the log files
					os.Remove(base + ".job")
					os.Remove(base + ".out")
					os.Remove(base + ".log")
					return
				}
				dmu.Lock()
				deaths++
				tooMany := deaths > 12
				dmu.Unlock()
				resume := false
				if b.OnDeath != nil {
					resume = b.OnDeath(last, co, hang)
				} else {
					r.Inconclusive(fmt.Sprintf("worker %s died (%s) at case %d: %s", b.Worker, co.Death, last, PanicExcerpt(co.Tail, 6)))
				}
				if !resume || tooMany || last < from {
					if last < from && resume {
						r.Inconclusive(fmt.Sprintf("worker %s died before starting a case (%s)", b.Worker, co.Death))
					}
					return
				}
				from = last + 1
			}
		}(si, sp)
	}
	wg.Wait()
}

// FoldSets converts the "set:" extras into sorted lists + sizes for evidence.
func (r *Run) FoldSets() {
	r.mu.Lock()
	defer r.mu.Unlock()
	for k, v := range r.extra {
		if m, ok := v.(map[string]struct{}); ok {
			l := make([]string, 0, len(m))
			for e := range m {
				l = append(l, e)
			}
			sortStrings(l)
			delete(r.extra, k)
			name := k[len("set:"):]
			r.extra[name+"_count"] = len(l)
			if len(l) > 80 {
				l = l[:80]
			}
			r.extra[name] = l
		}
	}
}

func sortStrings(l []string) { sort.Strings(l) }

// SetSize returns the current size of a folded-in worker set.
func (r *Run) SetSize(name string) int {
	r.mu.Lock()
	defer r.mu.Unlock()
	if m, ok := r.extra["set:"+name].(map[string]struct{}); ok {
		return len(m)
	}
	return 0
}
