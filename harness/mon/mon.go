// Package mon holds the shared monitor plumbing: run bookkeeping, verdicts,
// known-finding matching, evidence and replay files.
package mon

import (
	"crypto/sha1"
	"encoding/hex"
	"encoding/json"
	"fmt"
	"math/rand"
	"os"
	"path/filepath"
	"sort"
	"strings"
	"strconv"
	"sync"
	"time"
)

// Root is the /verif directory (overridable for snapshots run by `vp run`).
func Root() string {
	if r := os.Getenv("VERIF_ROOT"); r != "" {
		return r
	}
	return "/verif"
}

// Repo is the repository under test.
func Repo() string {
	if r := os.Getenv("VERIF_REPO"); r != "" {
		return r
	}
	return "/repo"
}

type Finding struct {
	ID         string   `json:"id"`
	Property   string   `json:"property"`
	Signature  string   `json:"signature,omitempty"`
	Signatures []string `json:"signatures,omitempty"` // '*' matches any run of characters
	What       string   `json:"what"`
	Witness    string   `json:"witness,omitempty"`
}

func (f Finding) matches(sig string) bool {
	if f.Signature != "" && wildMatch(f.Signature, sig) {
		return true
	}
	for _, p := range f.Signatures {
		if wildMatch(p, sig) {
			return true
		}
	}
	return false
}

// wildMatch: '*' in pattern matches any (possibly empty) run of characters.
func wildMatch(pattern, s string) bool {
	parts := strings.Split(pattern, "*")
	if len(parts) == 1 {
		return pattern == s
	}
	if !strings.HasPrefix(s, parts[0]) {
		return false
	}
	s = s[len(parts[0]):]
	for i := 1; i < len(parts)-1; i++ {
		k := strings.Index(s, parts[i])
		if k < 0 {
			return false
		}
		s = s[k+len(parts[i]):]
	}
	return strings.HasSuffix(s, parts[len(parts)-1])
}

type findingsFile struct {
	Findings []Finding `json:"findings"`
	Fixed    []string  `json:"fixed"`
}

type Violation struct {
	Sig     string      `json:"signature"`
	What    string      `json:"what"`
	Witness interface{} `json:"witness"`
	Replay  string      `json:"replay,omitempty"`
}

// Run is one execution of one property check.
type Run struct {
	Prop  string
	Tier  string
	Seed  int64
	Level string
	Rule  string

	mu           sync.Mutex
	start        time.Time
	evals        int
	distinct     map[string]struct{}
	samples      []interface{}
	maxSamples   int
	extra        map[string]interface{}
	counters     map[string]int
	violations   []Violation
	seenSig      map[string]int
	known        []Finding
	knownFired   map[string]string
	inconclusive []string
	assumptions  []string
	floor        int
}

func New(prop, tier, level string) *Run {
	seed := int64(1)
	if s := os.Getenv("VERIF_SEED"); s != "" {
		if v, err := strconv.ParseInt(s, 10, 64); err == nil {
			seed = v
		}
	}
	if tier != "thorough" {
		tier = "quick"
	}
	r := &Run{Prop: prop, Tier: tier, Seed: seed, Level: level, start: time.Now(),
		distinct: map[string]struct{}{}, extra: map[string]interface{}{}, counters: map[string]int{},
		seenSig: map[string]int{}, knownFired: map[string]string{}, maxSamples: 8, floor: 2}
	var ff findingsFile
	if b, err := os.ReadFile(filepath.Join(SrcDir(), "known_findings.json")); err == nil {
		if err := json.Unmarshal(b, &ff); err != nil {
			fmt.Fprintf(os.Stderr, "known_findings.json unreadable: %v\n", err)
			os.Exit(2)
		}
	}
	for _, f := range ff.Findings {
		if f.Property == prop {
			r.known = append(r.known, f)
		}
	}
	return r
}

func (r *Run) Thorough() bool { return r.Tier == "thorough" }

// Pick returns q for the quick tier and t for the thorough tier.
func (r *Run) Pick(q, t int) int {
	if r.Thorough() {
		return t
	}
	return q
}

// Rand returns a PRNG derived from the run seed and a stream label.
func (r *Run) Rand(stream string) *rand.Rand {
	h := sha1.Sum([]byte(fmt.Sprintf("%s/%s/%d", r.Prop, stream, r.Seed)))
	var s int64
	for i := 0; i < 8; i++ {
		s = s<<8 | int64(h[i])
	}
	return rand.New(rand.NewSource(s))
}

func Hash(v interface{}) string {
	b, _ := json.Marshal(v)
	h := sha1.Sum(b)
	return hex.EncodeToString(h[:8])
}

// Case counts one executed case; key identifies it for distinctness, and
// nontrivial says whether it meets the property's non-triviality rule.
func (r *Run) Case(key string, nontrivial bool) {
	r.mu.Lock()
	defer r.mu.Unlock()
	r.evals++
	if nontrivial {
		r.distinct[key] = struct{}{}
	}
}

func (r *Run) Sample(v interface{}) {
	r.mu.Lock()
	defer r.mu.Unlock()
	if len(r.samples) < r.maxSamples {
		r.samples = append(r.samples, v)
	}
}

func (r *Run) Count(name string, n int) {
	r.mu.Lock()
	defer r.mu.Unlock()
	r.counters[name] += n
}

func (r *Run) Counter(name string) int {
	r.mu.Lock()
	defer r.mu.Unlock()
	return r.counters[name]
}

func (r *Run) Set(name string, v interface{}) {
	r.mu.Lock()
	defer r.mu.Unlock()
	r.extra[name] = v
}

func (r *Run) Assume(s string) { r.assumptions = append(r.assumptions, s) }

// Floor sets the minimum number of distinct non-trivial cases below which the
// run is inconclusive.
func (r *Run) Floor(n int) { r.floor = n }

func (r *Run) Inconclusive(reason string) {
	r.mu.Lock()
	defer r.mu.Unlock()
	r.inconclusive = append(r.inconclusive, reason)
}

// Violate records a refutation. sig is the property-specific normal form of
// the witness; a sig listed in known_findings.json becomes a KNOWN-FINDING.
func (r *Run) Violate(sig, what string, witness interface{}) {
	r.mu.Lock()
	defer r.mu.Unlock()
	for _, k := range r.known {
		if k.matches(sig) {
			if _, ok := r.knownFired[k.ID]; !ok {
				r.knownFired[k.ID] = k.What
			}
			r.counters["known_finding_hits"]++
			return
		}
	}
	r.seenSig[sig]++
	if r.seenSig[sig] > 3 || len(r.violations) >= 40 {
		r.counters["violations_suppressed_duplicates"]++
		return
	}
	r.violations = append(r.violations, Violation{Sig: sig, What: what, Witness: witness})
}

func (r *Run) Violations() int {
	r.mu.Lock()
	defer r.mu.Unlock()
	return len(r.violations)
}

// KnownSig reports whether sig is a recorded finding for this property.
func (r *Run) KnownSig(sig string) bool {
	for _, k := range r.known {
		if k.matches(sig) {
			return true
		}
	}
	return false
}

// Finish writes evidence and replay files, prints the verdict lines and exits.
func (r *Run) Finish() {
	r.FoldSets()
	r.mu.Lock()
	defer r.mu.Unlock()
	if len(r.distinct) < r.floor && len(r.violations) == 0 {
		r.inconclusive = append(r.inconclusive, fmt.Sprintf("coverage floor not met: %d distinct non-trivial cases < %d", len(r.distinct), r.floor))
	}
	// replay files
	for i := range r.violations {
		v := &r.violations[i]
		dir := filepath.Join(Root(), "replays", r.Prop)
		os.MkdirAll(dir, 0o755)
		name := fmt.Sprintf("%s-%s.json", r.Tier, Hash([]interface{}{v.Sig, v.Witness}))
		p := filepath.Join(dir, name)
		b, _ := json.MarshalIndent(map[string]interface{}{
			"property": r.Prop, "tier": r.Tier, "seed": r.Seed, "signature": v.Sig, "what": v.What,
			"witness": v.Witness, "how": fmt.Sprintf("./check %s --replay %s", r.Prop, p),
		}, "", " ")
		os.WriteFile(p, b, 0o644)
		v.Replay = p
	}
	cov := map[string]interface{}{}
	for k, v := range r.extra {
		cov[k] = v
	}
	if len(r.counters) > 0 {
		cov["counters"] = r.counters
	}
	cov["evaluations"] = r.evals
	cov["distinct_nontrivial"] = len(r.distinct)
	cov["rule"] = r.Rule
	if len(r.samples) == 0 {
		r.samples = []interface{}{"(no case was executed)"}
	}
	cov["samples"] = r.samples
	kf := []string{}
	for id := range r.knownFired {
		kf = append(kf, id)
	}
	sort.Strings(kf)
	cov["known_findings_reproduced"] = kf
	cov["inconclusive"] = r.inconclusive
	if r.Level == "translation_validation" {
		cov["programs"] = r.evals
		if _, ok := cov["disagreements_checked"]; !ok {
			cov["disagreements_checked"] = len(r.violations) + r.counters["known_finding_hits"]
		}
	}
	ev := map[string]interface{}{
		"property_id": r.Prop, "tier": r.Tier, "seed": r.Seed, "level": r.Level,
		"coverage": cov, "assumptions": r.assumptions,
		"wall_s":     time.Since(r.start).Seconds(),
		"violations": len(r.violations),
	}
	if r.assumptions == nil {
		ev["assumptions"] = []string{}
	}
	os.MkdirAll(filepath.Join(Root(), "evidence"), 0o755)
	b, _ := json.MarshalIndent(ev, "", " ")
	if err := os.WriteFile(filepath.Join(Root(), "evidence", r.Prop+".json"), b, 0o644); err != nil {
		fmt.Fprintf(os.Stderr, "cannot write evidence: %v\n", err)
	}
	for _, id := range kf {
		fmt.Printf("KNOWN-FINDING: property=%s %s: %s\n", r.Prop, id, r.knownFired[id])
	}
	fmt.Printf("%s %s seed=%d evaluations=%d distinct_nontrivial=%d violations=%d known=%d wall=%.1fs\n",
		r.Prop, r.Tier, r.Seed, r.evals, len(r.distinct), len(r.violations), len(kf), time.Since(r.start).Seconds())
	if len(r.violations) > 0 {
		for _, v := range r.violations {
			fmt.Printf("  violation: %s — %s\n", v.Sig, v.What)
			fmt.Printf("VIOLATION property=%s replay=%s\n", r.Prop, v.Replay)
		}
		os.Exit(1)
	}
	if len(r.inconclusive) > 0 {
		for _, s := range r.inconclusive {
			fmt.Printf("INCONCLUSIVE property=%s reason=%s\n", r.Prop, s)
		}
		os.Exit(3)
	}
	os.Exit(0)
}
