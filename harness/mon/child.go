package mon

import (
	"bufio"
	"bytes"
	"context"
	"encoding/json"
	"fmt"
	"os"
	"os/exec"
	"path/filepath"
	"regexp"
	"sort"
	"strings"
	"syscall"
	"time"
)

func BuildDir() string {
	if b := os.Getenv("VERIF_BUILD"); b != "" {
		return b
	}
	return filepath.Join(Root(), ".build")
}

func SrcDir() string {
	if b := os.Getenv("VERIF_SRC"); b != "" {
		return b
	}
	return "/verif"
}

// Child describes one worker process.
type Child struct {
	Bin     string
	Args    []string
	Env     []string
	Dir     string
	Timeout time.Duration
	MemKB   int64 // RLIMIT_AS in KiB via ulimit -v; 0 = unlimited
	Log     string
}

type ChildOut struct {
	Exit     int
	TimedOut bool
	Death    string // classification of an abnormal end, "" if clean
	Tail     string // last part of the combined output
	Wall     time.Duration
}

var deathPatterns = []struct{ name, pat string }{
	{"concurrent-map", `fatal error: concurrent map`},
	{"stack-overflow", `stack overflow|goroutine stack exceeds`},
	{"out-of-memory", `out of memory|cannot allocate memory`},
	{"checkptr", `fatal error: checkptr`},
	{"deadlock", `all goroutines are asleep`},
	{"fatal", `^fatal error:`},
	{"panic", `^panic:`},
}

// Run executes the child, with combined output going to c.Log. On timeout the
// child gets SIGQUIT first so its goroutine dump lands in the log.
func (c Child) Run() ChildOut {
	start := time.Now()
	if c.Log == "" {
		c.Log = filepath.Join(BuildDir(), "child.log")
	}
	os.MkdirAll(filepath.Dir(c.Log), 0o755)
	lf, err := os.Create(c.Log)
	if err != nil {
		return ChildOut{Exit: -1, Death: "cannot create log: " + err.Error()}
	}
	defer lf.Close()
	var cmd *exec.Cmd
	if c.MemKB > 0 {
		sh := fmt.Sprintf("ulimit -v %d; exec \"$0\" \"$@\"", c.MemKB)
		cmd = exec.Command("/bin/bash", append([]string{"-c", sh, c.Bin}, c.Args...)...)
	} else {
		cmd = exec.Command(c.Bin, c.Args...)
	}
	cmd.Stdout = lf
	cmd.Stderr = lf
	cmd.Dir = c.Dir
	cmd.Env = append(os.Environ(), c.Env...)
	cmd.SysProcAttr = &syscall.SysProcAttr{Setpgid: true}
	if err := cmd.Start(); err != nil {
		return ChildOut{Exit: -1, Death: "cannot start: " + err.Error()}
	}
	done := make(chan error, 1)
	go func() { done <- cmd.Wait() }()
	out := ChildOut{}
	to := c.Timeout
	if to == 0 {
		to = 10 * time.Minute
	}
	select {
	case err = <-done:
	case <-time.After(to):
		out.TimedOut = true
		syscall.Kill(-cmd.Process.Pid, syscall.SIGQUIT)
		select {
		case err = <-done:
		case <-time.After(10 * time.Second):
			syscall.Kill(-cmd.Process.Pid, syscall.SIGKILL)
			err = <-done
		}
	}
	out.Wall = time.Since(start)
	if cmd.ProcessState != nil {
		out.Exit = cmd.ProcessState.ExitCode()
	}
	_ = err
	lf.Sync()
	b, _ := os.ReadFile(c.Log)
	if len(b) > 1<<20 {
		out.Tail = string(b[len(b)-(1<<20):])
	} else {
		out.Tail = string(b)
	}
	if out.Exit != 0 || out.TimedOut {
		out.Death = classifyDeath(string(b))
		if out.Death == "" {
			if out.TimedOut {
				out.Death = "timeout"
			} else {
				out.Death = fmt.Sprintf("exit-%d", out.Exit)
			}
		}
	}
	return out
}

func classifyDeath(log string) string {
	for _, d := range deathPatterns {
		if regexp.MustCompile(`(?m)` + d.pat).MatchString(log) {
			return d.name
		}
	}
	return ""
}

// PanicExcerpt returns the first lines of a fatal error / panic in a log.
func PanicExcerpt(log string, n int) string {
	lines := strings.Split(log, "\n")
	for i, l := range lines {
		if strings.HasPrefix(l, "panic:") || strings.HasPrefix(l, "fatal error:") || strings.HasPrefix(l, "SIGQUIT") {
			end := i + n
			if end > len(lines) {
				end = len(lines)
			}
			return strings.Join(lines[i:end], "\n")
		}
	}
	if len(lines) > n {
		lines = lines[len(lines)-n:]
	}
	return strings.Join(lines, "\n")
}

// goEnv is the environment for go invocations.
func goEnv() []string {
	env := []string{}
	for _, e := range os.Environ() {
		if strings.HasPrefix(e, "GOTOOLCHAIN=") || strings.HasPrefix(e, "GOSUMDB=") || strings.HasPrefix(e, "GOFLAGS=") || strings.HasPrefix(e, "GOPROXY=") {
			continue
		}
		env = append(env, e)
	}
	return append(env, "GOFLAGS=-mod=mod", "GOPROXY=off")
}

// BuildSelf builds another flavour of vcheck (e.g. with -race) from the same sources.
func BuildSelf(name string, flags ...string) (string, error) {
	out := filepath.Join(BuildDir(), name)
	args := append([]string{"build", "-tags", "verif"}, flags...)
	args = append(args, "-modfile="+filepath.Join(BuildDir(), "harness.mod"), "-overlay="+filepath.Join(BuildDir(), "overlay.json"), "-o", out, "./cmd/vcheck")
	cmd := exec.Command("go", args...)
	cmd.Dir = filepath.Join(SrcDir(), "harness")
	cmd.Env = goEnv()
	b, err := cmd.CombinedOutput()
	if err != nil {
		return "", fmt.Errorf("go %s: %v\n%s", strings.Join(args, " "), err, b)
	}
	return out, nil
}

// BuildOverlayTest compiles the test binary of a repo package with extra
// in-package test files injected through -overlay (the repository is not written).
// files maps a file name to place in the package directory to its source path
// under /verif/overlays.
func BuildOverlayTest(pkgRel, outName string, files map[string]string, flags ...string) (string, error) {
	repo := Repo()
	base := map[string]interface{}{}
	b, err := os.ReadFile(filepath.Join(BuildDir(), "overlay.json"))
	if err == nil {
		json.Unmarshal(b, &base)
	}
	rep, _ := base["Replace"].(map[string]interface{})
	if rep == nil {
		rep = map[string]interface{}{}
	}
	for name, src := range files {
		rep[filepath.Join(repo, pkgRel, name)] = src
	}
	ov := filepath.Join(BuildDir(), outName+".overlay.json")
	ob, _ := json.Marshal(map[string]interface{}{"Replace": rep})
	if err := os.WriteFile(ov, ob, 0o644); err != nil {
		return "", err
	}
	out := filepath.Join(BuildDir(), outName)
	args := append([]string{"test", "-c", "-vet=off", "-tags", "verif"}, flags...)
	args = append(args, "-overlay="+ov, "-o", out, "./"+pkgRel)
	cmd := exec.Command("go", args...)
	cmd.Dir = repo
	cmd.Env = goEnv()
	cb, err := cmd.CombinedOutput()
	if err != nil {
		return "", fmt.Errorf("go %s: %v\n%s", strings.Join(args, " "), err, cb)
	}
	return out, nil
}

// ---- JSONL helpers -------------------------------------------------------

type JSONLWriter struct {
	f *os.File
	w *bufio.Writer
}

func NewJSONLWriter(path string) (*JSONLWriter, error) {
	f, err := os.Create(path)
	if err != nil {
		return nil, err
	}
	return &JSONLWriter{f: f, w: bufio.NewWriter(f)}, nil
}

// Write appends one record and flushes it to the file, so that a record
// written before a fatal error survives the death of the process.
func (j *JSONLWriter) Write(v interface{}) {
	b, _ := json.Marshal(v)
	j.w.Write(b)
	j.w.WriteByte('\n')
	j.w.Flush()
}

func (j *JSONLWriter) Close() { j.w.Flush(); j.f.Close() }

func ReadJSONL(path string, each func(raw []byte)) error {
	f, err := os.Open(path)
	if err != nil {
		return err
	}
	defer f.Close()
	sc := bufio.NewScanner(f)
	sc.Buffer(make([]byte, 1<<20), 256<<20)
	for sc.Scan() {
		b := bytes.TrimSpace(sc.Bytes())
		if len(b) == 0 {
			continue
		}
		cp := make([]byte, len(b))
		copy(cp, b)
		each(cp)
	}
	return sc.Err()
}

// ---- race log parsing (M-race) --------------------------------------------

type RaceBlock struct {
	Text  string
	Entry [2]string // outermost repo frames of the two stacks
	Key   string    // line-number-stripped signature of the repo frames
}

var frameRe = regexp.MustCompile(`^\s+(\S+)\(.*\)$|^\s+(\S+)\(\)$`)

// ParseRaceLogs reads every file matching prefix* and returns de-duplicated
// blocks in which both stacks contain a frame in the repository's module.
func ParseRaceLogs(prefix string) (blocks []RaceBlock, total int) {
	files, _ := filepath.Glob(prefix + "*")
	seen := map[string]bool{}
	for _, f := range files {
		b, err := os.ReadFile(f)
		if err != nil {
			continue
		}
		parts := strings.Split(string(b), "==================")
		for _, p := range parts {
			if !strings.Contains(p, "WARNING: DATA RACE") {
				continue
			}
			total++
			rb := analyseRace(p)
			if rb == nil || seen[rb.Key] {
				continue
			}
			seen[rb.Key] = true
			blocks = append(blocks, *rb)
		}
	}
	sort.Slice(blocks, func(i, j int) bool { return blocks[i].Key < blocks[j].Key })
	return
}

const repoMod = "github.com/glyphlang/glyph/"

// harnessFrame: functions injected into repository packages by the overlays are named
// verifX / TestVerifX / runVerifX / SetVerifX (repository functions such as verifyToken are
// not matched: the character after "erif" must be upper case).
var harnessFrameRe = regexp.MustCompile(`(^|[./(*])(Test|run|Set)?[Vv]erif([A-Z]|$|[.)])`)

func harnessFrame(fn string) bool { return harnessFrameRe.MatchString(fn) }

func analyseRace(p string) *RaceBlock {
	// Split into stack sections: the two access stacks come first.
	lines := strings.Split(p, "\n")
	var stacks [][]string
	var cur []string
	inAccess := false
	for _, l := range lines {
		t := strings.TrimSpace(l)
		if strings.HasPrefix(t, "Read at") || strings.HasPrefix(t, "Write at") || strings.HasPrefix(t, "Previous read at") || strings.HasPrefix(t, "Previous write at") ||
			strings.HasPrefix(t, "Atomic") || strings.HasPrefix(t, "Previous atomic") {
			if cur != nil {
				stacks = append(stacks, cur)
			}
			cur = []string{}
			inAccess = true
			continue
		}
		if strings.HasPrefix(t, "Goroutine ") {
			if cur != nil {
				stacks = append(stacks, cur)
			}
			cur = nil
			inAccess = false
			continue
		}
		if inAccess && t != "" && !strings.HasPrefix(t, "/") && strings.Contains(t, "(") {
			fn := t[:strings.LastIndex(t, "(")] // the argument list is the last parenthesis: pkg.(*T).method(0x...)
			// strip receivers' generic noise but keep package path
			cur = append(cur, fn)
		}
	}
	if cur != nil {
		stacks = append(stacks, cur)
	}
	if len(stacks) < 2 {
		return nil
	}
	var entry [2]string
	var keyParts []string
	for i := 0; i < 2; i++ {
		var repoFrames []string
		for _, fn := range stacks[i] {
			if strings.HasPrefix(fn, repoMod) && !harnessFrame(fn) {
				repoFrames = append(repoFrames, strings.TrimPrefix(fn, repoMod))
			}
		}
		if len(repoFrames) == 0 {
			return nil
		}
		entry[i] = repoFrames[len(repoFrames)-1]
		n := len(repoFrames)
		if n > 3 {
			n = 3
		}
		keyParts = append(keyParts, strings.Join(repoFrames[:n], "<"))
	}
	sort.Strings(keyParts)
	return &RaceBlock{Text: p, Entry: entry, Key: strings.Join(keyParts, " || ")}
}

// WithTimeout runs f and reports whether it returned within d.
func WithTimeout(d time.Duration, f func()) bool {
	ctx, cancel := context.WithTimeout(context.Background(), d)
	defer cancel()
	done := make(chan struct{})
	go func() { f(); close(done) }()
	select {
	case <-done:
		return true
	case <-ctx.Done():
		return false
	}
}
