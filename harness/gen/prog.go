// Package gen holds the abstract program generator (G-prog): typed-ish abstract trees
// over a fragment of GlyphLang, a printer to source text (so lexer and parser are inside
// the system under test), and feature flags used to quarantine recorded findings.
package gen

import (
	"fmt"
	"math/rand"
	"sort"
	"strconv"
	"strings"
)

type Ty int

const (
	TInt Ty = iota
	TFloat
	TStr
	TBool
	TNull
	TArrInt
	TArrStr
	TObj // object with fields a:int, s:str (fixed shape, so field reads are defined)
	TAny
)

func (t Ty) String() string {
	return [...]string{"int", "float", "str", "bool", "null", "[int]", "[str]", "obj", "any"}[t]
}

type Expr struct {
	K     string     `json:"k"` // int float str bool null var bin un arr obj field index call match
	I     int64      `json:"i,omitempty"`
	F     float64    `json:"f,omitempty"`
	S     string     `json:"s,omitempty"` // string literal / variable / field / function name
	B     bool       `json:"b,omitempty"`
	Op    string     `json:"op,omitempty"`
	A     []*Expr    `json:"a,omitempty"`
	Keys  []string   `json:"keys,omitempty"`
	Arms  []MatchArm `json:"arms,omitempty"`
	Paren int        `json:"-"` // redundant parentheses to print
}

type MatchArm struct {
	Pat   string `json:"pat"` // lit | bind | wild
	Lit   *Expr  `json:"lit,omitempty"`
	Bind  string `json:"bind,omitempty"`
	Guard *Expr  `json:"guard,omitempty"`
	Body  *Expr  `json:"body"`
}

type Stmt struct {
	K      string  `json:"k"` // decl assign if while for fori switch ret retst guard break continue
	Name   string  `json:"name,omitempty"`
	Name2  string  `json:"name2,omitempty"`
	E      *Expr   `json:"e,omitempty"`
	Body   []*Stmt `json:"body,omitempty"`
	Else   []*Stmt `json:"else,omitempty"`
	ElseIf *Stmt   `json:"elseif,omitempty"`
	Cases  []Case  `json:"cases,omitempty"`
	Status int     `json:"status,omitempty"`
	Msg    string  `json:"msg,omitempty"`
}

type Case struct {
	Val  *Expr   `json:"val,omitempty"` // nil = default
	Body []*Stmt `json:"body"`
}

type Param struct {
	Name string `json:"name"`
	T    Ty     `json:"t"`
}

type Func struct {
	Name   string  `json:"name"`
	Params []Param `json:"params"`
	Ret    Ty      `json:"ret"`
	Body   []*Stmt `json:"body"`
}

type Prog struct {
	Free   []string          `json:"free,omitempty"` // names of free variables used as path parameters
	Funcs  []*Func           `json:"funcs,omitempty"`
	Inputs map[string]string `json:"inputs,omitempty"` // path parameter name -> value (strings)
	Body   []*Stmt           `json:"body"`
}

// Features switches constructs on and off. The zero value is the conservative core that
// both engines implement; flags add constructs.
type Features struct {
	Floats          bool
	Strings         bool
	Arrays          bool
	Objects         bool
	While           bool
	For             bool
	Switch          bool
	Match           bool
	BreakContinue   bool
	StatusReturn    bool
	Guards          bool
	UserFuncs       bool
	BuiltinsCore    bool // builtins both engines register
	BuiltinsInterp  bool // builtins only the interpreter has
	LogicRhsMayFail bool // && / || whose right operand can fail (needs short circuit)
	EqIntFloat      bool
	StrOrder        bool
	IllTyped        int // percent of expressions generated ill-typed on purpose
	DivZero         bool
	IndexOOR        bool
	LoopVarShadow   bool
	// NoMatchBindShadow keeps the variable of a binding match arm fresh (C02: the VM's flat
	// locals let it overwrite an outer variable of the same name — recorded finding)
	NoMatchBindShadow bool
	FieldAbsent       bool
	Mod               bool
	NestedReturn      bool
	DeclInBranch      bool
	NoAssign          bool // no reassignment statements (besides while counters)
	NoLitIdentity     bool // no 0/1/2/true/false literal as a direct operand of a binary operator
	NoSelfOp          bool // no binary operator with two identical operands
	BuiltinsDocStr    bool // split / join / replace / parseInt / parseFloat (documented in docs/API_REFERENCE.md; interpreter only)
	ArrFork           bool // an array declaration is now and then followed by two different one-element extensions of it
	SwapTwin          bool // now and then a declaration is followed by its operand-swapped twin
	FreeVars          bool // free variables fi ff fs fb fa fo (bound by the caller at run time)
}

// argument pools for parseInt / parseFloat: documented spellings (decimal digits, an optional minus sign, a decimal
// point), clear garbage, and spellings the documentation does not pin (the reference discards those)
var parseIntPool = []string{"42", "-10", "0", "007", "12x", "", "4.5", " 7", "+5", "9223372036854775807", "9223372036854775808", "-9223372036854775808", "x", "1 2", "-", "--3", "1_000", "0x1F"}
var parseFloatPool = []string{"3.5", "-2.25", "7", "0.125", "abc", "", "1e3", ".5", "5.", "NaN", "inf", "-0.5", "3.5.1", "1,5", "1000000.25", " 2.5"}

func FullInterp() Features {
	return Features{Floats: true, Strings: true, Arrays: true, Objects: true, While: true, For: true, Switch: true, Match: true, BreakContinue: true,
		StatusReturn: true, Guards: true, UserFuncs: true, BuiltinsCore: true, BuiltinsInterp: true, LogicRhsMayFail: true, EqIntFloat: true, IllTyped: 4,
		DivZero: true, IndexOOR: true, Mod: true, NestedReturn: true, DeclInBranch: true, ArrFork: true, BuiltinsDocStr: true}
}

type G struct {
	mustShow []string // variables every later result object exposes
	R        *rand.Rand
	F        Features
	scope    []map[string]Ty
	nvar     int
	funcs    []*Func
	inLoop   int
	inFunc   *Func
	budget   int
	noIll    int
	typedTop bool
	arrLen   map[string]int // statically known length of array variables (-1 unknown)
}

func New(r *rand.Rand, f Features) *G { return &G{R: r, F: f, arrLen: map[string]int{}} }

func (g *G) push() { g.scope = append(g.scope, map[string]Ty{}) }
func (g *G) pop()  { g.scope = g.scope[:len(g.scope)-1] }
func (g *G) fresh(prefix string) string {
	g.nvar++
	return fmt.Sprintf("%s%d", prefix, g.nvar)
}
func (g *G) declare(n string, t Ty) { g.scope[len(g.scope)-1][n] = t }
func (g *G) varsOf(t Ty) []string {
	var out []string
	for _, s := range g.scope {
		for n, ty := range s {
			if ty == t {
				out = append(out, n)
			}
		}
	}
	sort.Strings(out)
	return out
}

func (g *G) types() []Ty {
	ts := []Ty{TInt, TInt, TBool}
	if g.F.Floats {
		ts = append(ts, TFloat)
	}
	if g.F.Strings {
		ts = append(ts, TStr)
	}
	if g.F.Arrays {
		ts = append(ts, TArrInt)
		if g.F.Strings {
			ts = append(ts, TArrStr)
		}
	}
	if g.F.Objects {
		ts = append(ts, TObj)
	}
	return ts
}

func (g *G) pickTy() Ty { ts := g.types(); return ts[g.R.Intn(len(ts))] }

func lit(k string) *Expr { return &Expr{K: k} }

func (g *G) intLit() *Expr {
	v := int64(g.R.Intn(21) - 5)
	switch g.R.Intn(12) {
	case 0:
		v = int64(g.R.Intn(2000) - 1000)
	case 1:
		v = 0
	case 2:
		v = 1
	}
	if v < 0 {
		return &Expr{K: "un", Op: "-", A: []*Expr{{K: "int", I: -v}}}
	}
	return &Expr{K: "int", I: v}
}

func (g *G) floatLit() *Expr {
	f := float64(g.R.Intn(81)-20) / 4
	if f < 0 {
		return &Expr{K: "un", Op: "-", A: []*Expr{{K: "float", F: -f}}}
	}
	return &Expr{K: "float", F: f}
}

var strPool = []string{"", "a", "b", "ab", "Hello", "hello world", "  pad  ", "x,y,z", "ÄÖ", "naïve", "日本", "A", "zz", "0", "12", "a b", "héllo wörld", "éabcdef", "日本語 text"}

func (g *G) strLit() *Expr { return &Expr{K: "str", S: strPool[g.R.Intn(len(strPool))]} }

// Expr generates an expression of (intended) static type t.
func (g *G) Expr(t Ty, depth int) *Expr {
	e := g.expr(t, depth)
	if e.K == "bin" && (g.F.NoLitIdentity || g.F.NoSelfOp) {
		g.deTrigger(e)
	}
	if g.R.Intn(12) == 0 {
		e.Paren++
	}
	return e
}

// deTrigger rewrites the operands of a binary node so that it does not have the shape of
// an algebraic identity (x*0, x+0, x*1, x/1, x*2, true||x, x-x, ...).
func (g *G) deTrigger(e *Expr) {
	fix := func(o *Expr) {
		switch o.K {
		case "int":
			if o.I >= 0 && o.I <= 2 {
				o.I += 3
			}
		case "float":
			if o.F == 0 || o.F == 1 || o.F == 2 {
				o.F += 3.25
			}
		case "bool":
			if vs := g.varsOf(TBool); len(vs) > 0 {
				*o = Expr{K: "var", S: vs[g.R.Intn(len(vs))]}
			} else {
				*o = Expr{K: "bin", Op: "<", A: []*Expr{{K: "int", I: 4}, {K: "var", S: "fi"}}}
			}
		case "un":
			if len(o.A) == 1 && (o.A[0].K == "int" || o.A[0].K == "float" || o.A[0].K == "bool") {
				if o.A[0].K == "bool" {
					*o = Expr{K: "un", Op: "!", A: []*Expr{{K: "bin", Op: "<", A: []*Expr{{K: "int", I: 4}, {K: "var", S: "fi"}}}}}
					return
				}
				if o.A[0].K == "int" && o.A[0].I <= 2 {
					o.A[0].I += 3
				}
				if o.A[0].K == "float" && (o.A[0].F == 0 || o.A[0].F == 1 || o.A[0].F == 2) {
					o.A[0].F += 3.25
				}
			}
		}
	}
	if g.F.NoLitIdentity {
		fix(e.A[0])
		fix(e.A[1])
		// a node over constants only would be folded into a literal, which may then sit
		// next to a variable as 0/1/2/true/false: make one operand a free variable
		if isConstExpr(e.A[0]) && isConstExpr(e.A[1]) {
			fv := "fi"
			switch constKind(e.A[0]) {
			case "float":
				fv = "ff"
			case "str":
				fv = "fs"
			case "bool":
				fv = "fb"
			}
			e.A[0].Paren = 0
			*e.A[0] = Expr{K: "var", S: fv}
		}
	}
	if g.F.NoSelfOp && PrintExpr(e.A[0]) == PrintExpr(e.A[1]) {
		switch e.A[1].K {
		case "var":
			*e.A[1] = Expr{K: "bin", Op: "+", A: []*Expr{{K: "var", S: e.A[1].S}, {K: "int", I: 5}}}
			if e.Op == "&&" || e.Op == "||" {
				*e.A[1] = Expr{K: "un", Op: "!", A: []*Expr{{K: "var", S: e.A[0].S}}}
			}
		default:
			e.A[1].Paren = 0
			*e.A[1] = Expr{K: "bin", Op: "+", A: []*Expr{{K: "int", I: 7}, {K: "int", I: 9}}}
		}
	}
}

// constTree builds an expression over literals only (what constant folding consumes).
func (g *G) constTree(t Ty, depth int) *Expr {
	leaf := depth <= 0 || g.R.Intn(3) == 0
	switch t {
	case TInt:
		if leaf {
			return &Expr{K: "int", I: int64(g.R.Intn(12))}
		}
		return &Expr{K: "bin", Op: []string{"+", "-", "*", "/", "%"}[g.R.Intn(5)], A: []*Expr{g.constTree(TInt, depth-1), g.constTree(TInt, depth-1)}}
	case TFloat:
		if leaf {
			return &Expr{K: "float", F: float64(g.R.Intn(40)) / 4}
		}
		return &Expr{K: "bin", Op: []string{"+", "-", "*", "/", "%"}[g.R.Intn(5)], A: []*Expr{g.constTree(TFloat, depth-1), g.constTree(TFloat, depth-1)}}
	case TStr:
		if leaf {
			return g.strLit()
		}
		return &Expr{K: "bin", Op: "+", A: []*Expr{g.constTree(TStr, depth-1), g.constTree(TStr, depth-1)}}
	default:
		if leaf {
			return &Expr{K: "bool", B: g.R.Intn(2) == 0}
		}
		switch g.R.Intn(4) {
		case 0:
			return &Expr{K: "bin", Op: []string{"&&", "||"}[g.R.Intn(2)], A: []*Expr{g.constTree(TBool, depth-1), g.constTree(TBool, depth-1)}}
		case 1:
			return &Expr{K: "un", Op: "!", A: []*Expr{g.constTree(TBool, depth-1)}}
		case 2:
			return &Expr{K: "bin", Op: []string{"<", "<=", ">", ">=", "==", "!="}[g.R.Intn(6)], A: []*Expr{g.constTree(TFloat, depth-1), g.constTree(TFloat, depth-1)}}
		}
		return &Expr{K: "bin", Op: []string{"<", "<=", ">", ">=", "==", "!="}[g.R.Intn(6)], A: []*Expr{g.constTree(TInt, depth-1), g.constTree(TInt, depth-1)}}
	}
}

func isConstExpr(e *Expr) bool {
	switch e.K {
	case "int", "float", "str", "bool", "null":
		return true
	case "un", "bin":
		for _, a := range e.A {
			if !isConstExpr(a) {
				return false
			}
		}
		return true
	}
	return false
}

func constKind(e *Expr) string {
	switch e.K {
	case "int", "float", "str", "bool":
		return e.K
	case "un":
		return constKind(e.A[0])
	case "bin":
		if prec[e.Op] <= 5 {
			return "bool"
		}
		return constKind(e.A[0])
	}
	return "int"
}

func (g *G) expr(t Ty, depth int) *Expr {
	g.budget--
	if g.typedTop {
		// the caller needs this node itself to have type t (its value flows on unchecked,
		// e.g. out of a match arm); deeper nodes may still be ill-typed and fail
		g.typedTop = false
		return g.expr2(t, depth)
	}
	if g.F.IllTyped > 0 && g.noIll == 0 && g.R.Intn(100) < g.F.IllTyped {
		// deliberately produce another type here
		t2 := g.pickTy()
		// int <-> float is the one substitution that does not fail but silently changes the
		// numeric kind of everything computed from it (a variable declared int then holds a
		// float). While int == float is quarantined (C02), that would smuggle the quarantined
		// comparison back in through `==` on such variables and through switch / match arms.
		numericSwap := (t == TInt && t2 == TFloat) || (t == TFloat && t2 == TInt)
		if t2 != t && !(numericSwap && !g.F.EqIntFloat) {
			return g.expr2(t2, depth-1)
		}
	}
	return g.expr2(t, depth)
}

func (g *G) expr2(t Ty, depth int) *Expr {
	leaf := depth <= 0 || g.budget <= 0 || g.R.Intn(4) == 0
	if vs := g.varsOf(t); len(vs) > 0 && g.R.Intn(3) != 0 && (leaf || g.R.Intn(3) == 0) {
		return &Expr{K: "var", S: vs[g.R.Intn(len(vs))]}
	}
	switch t {
	case TInt:
		if leaf {
			return g.intLit()
		}
		switch c := g.R.Intn(14); {
		case c < 6:
			ops := []string{"+", "-", "*"}
			if g.F.DivZero {
				ops = append(ops, "/")
				if g.F.Mod {
					ops = append(ops, "%")
				}
			}
			op := ops[g.R.Intn(len(ops))]
			l, r := g.Expr(TInt, depth-1), g.Expr(TInt, depth-1)
			if (op == "/" || op == "%") && g.R.Intn(4) != 0 {
				// mostly a non-zero literal divisor
				r = &Expr{K: "int", I: int64(1 + g.R.Intn(7))}
			}
			return &Expr{K: "bin", Op: op, A: []*Expr{l, r}}
		case c == 6:
			return &Expr{K: "un", Op: "-", A: []*Expr{g.Expr(TInt, depth-1)}}
		case c == 7 && g.F.Arrays:
			if e := g.indexExpr(TArrInt, TInt, depth-1); e != nil {
				return e
			}
		case c == 8 && g.F.Objects:
			if e := g.fieldExpr("a"); e != nil {
				return e
			}
		case c == 9 && g.F.BuiltinsCore && g.F.Strings:
			return &Expr{K: "call", S: "length", A: []*Expr{g.arg(TStr, depth-1)}}
		case c == 10 && g.F.BuiltinsCore && g.F.Arrays:
			return &Expr{K: "call", S: "length", A: []*Expr{g.arg(TArrInt, depth-1)}}
		case c == 11 && g.F.BuiltinsDocStr && g.F.Strings && g.R.Intn(3) == 0:
			if g.R.Intn(2) == 0 {
				return &Expr{K: "call", S: "parseInt", A: []*Expr{{K: "call", S: "toString", A: []*Expr{g.arg(TInt, depth-1)}}}}
			}
			return &Expr{K: "call", S: "parseInt", A: []*Expr{{K: "str", S: parseIntPool[g.R.Intn(len(parseIntPool))]}}}
		case c == 11 && g.F.BuiltinsInterp:
			switch g.R.Intn(4) {
			case 0:
				return &Expr{K: "call", S: "abs", A: []*Expr{g.arg(TInt, depth-1)}}
			case 1:
				return &Expr{K: "call", S: "min", A: []*Expr{g.arg(TInt, depth-1), g.arg(TInt, depth-1)}}
			case 2:
				return &Expr{K: "call", S: "max", A: []*Expr{g.arg(TInt, depth-1), g.arg(TInt, depth-1)}}
			default:
				if g.F.Strings {
					return &Expr{K: "call", S: "indexOf", A: []*Expr{g.arg(TStr, depth-1), g.arg(TStr, depth-1)}}
				}
			}
		case c == 12 && g.F.Match:
			return g.matchExpr(TInt, depth-1)
		case c == 13 && g.F.UserFuncs:
			if e := g.callUser(TInt, depth-1); e != nil {
				return e
			}
		}
		return g.intLit()
	case TFloat:
		if leaf {
			return g.floatLit()
		}
		if g.F.BuiltinsDocStr && g.F.Strings && g.R.Intn(12) == 0 {
			return &Expr{K: "call", S: "parseFloat", A: []*Expr{{K: "str", S: parseFloatPool[g.R.Intn(len(parseFloatPool))]}}}
		}
		switch g.R.Intn(6) {
		case 0, 1, 2:
			op := []string{"+", "-", "*"}[g.R.Intn(3)]
			l, r := g.Expr(TFloat, depth-1), g.Expr(TFloat, depth-1)
			if g.R.Intn(3) == 0 {
				r = g.Expr(TInt, depth-1) // int/float coercion
			} else if g.R.Intn(5) == 0 {
				l = g.Expr(TInt, depth-1) // never both: int op int would be an int passing for a float
			}
			return &Expr{K: "bin", Op: op, A: []*Expr{l, r}}
		case 3:
			if g.F.DivZero {
				d := &Expr{K: "float", F: []float64{0.5, 2, 4, 8, 0.25}[g.R.Intn(5)]}
				if g.R.Intn(6) == 0 {
					d = g.Expr(TFloat, depth-1)
				}
				op := "/"
				if g.F.Mod && g.R.Intn(3) == 0 {
					op = "%"
				}
				return &Expr{K: "bin", Op: op, A: []*Expr{g.Expr(TFloat, depth-1), d}}
			}
		case 4:
			return &Expr{K: "un", Op: "-", A: []*Expr{g.Expr(TFloat, depth-1)}}
		}
		return g.floatLit()
	case TStr:
		if leaf {
			return g.strLit()
		}
		switch c := g.R.Intn(10); {
		case c < 4:
			return &Expr{K: "bin", Op: "+", A: []*Expr{g.Expr(TStr, depth-1), g.Expr(TStr, depth-1)}}
		case c == 4 && g.F.BuiltinsCore:
			return &Expr{K: "call", S: []string{"upper", "lower", "trim"}[g.R.Intn(3)], A: []*Expr{g.arg(TStr, depth-1)}}
		case c == 5 && g.F.Objects && g.F.Strings:
			if e := g.fieldExpr("s"); e != nil {
				return e
			}
		case c == 6 && g.F.Arrays:
			if e := g.indexExpr(TArrStr, TStr, depth-1); e != nil {
				return e
			}
		case c == 7 && g.F.BuiltinsInterp:
			switch g.R.Intn(3) {
			case 0:
				return &Expr{K: "call", S: "toString", A: []*Expr{g.arg(TInt, depth-1)}}
			case 1:
				return &Expr{K: "call", S: "charAt", A: []*Expr{g.arg(TStr, depth-1), {K: "int", I: int64(g.R.Intn(7))}}}
			default:
				st := g.R.Intn(6)
				return &Expr{K: "call", S: "substring", A: []*Expr{g.arg(TStr, depth-1), {K: "int", I: int64(st)}, {K: "int", I: int64(st + g.R.Intn(5))}}}
			}
		case c == 8 && g.F.BuiltinsDocStr && g.R.Intn(2) == 0:
			if g.R.Intn(2) == 0 {
				// replace: every occurrence, left to right, non-overlapping; the searched text is never empty
				old := []string{"a", "ab", "l", " ", "ä", "日", "--", "x", "aa"}[g.R.Intn(9)]
				return &Expr{K: "call", S: "replace", A: []*Expr{g.arg(TStr, depth-1), {K: "str", S: old}, g.strLit()}}
			}
			at := TArrStr
			if g.R.Intn(3) == 0 {
				at = TArrInt
			}
			return &Expr{K: "call", S: "join", A: []*Expr{g.arg(at, depth-1), {K: "str", S: []string{",", " ", "-", "", ", ", "日"}[g.R.Intn(6)]}}}
		case c == 8 && g.F.Match:
			return g.matchExpr(TStr, depth-1)
		case c == 9 && g.F.UserFuncs:
			if e := g.callUser(TStr, depth-1); e != nil {
				return e
			}
		}
		return g.strLit()
	case TBool:
		if leaf {
			return &Expr{K: "bool", B: g.R.Intn(2) == 0}
		}
		switch c := g.R.Intn(12); {
		case c < 4:
			op := []string{"<", "<=", ">", ">=", "==", "!="}[g.R.Intn(6)]
			tt := TInt
			if g.F.Floats && g.R.Intn(3) == 0 {
				tt = TFloat
			}
			eq := op == "==" || op == "!="
			if eq && !g.F.EqIntFloat {
				g.noIll++ // both sides really have the same numeric type (int == float is quarantined)
			}
			l := g.Expr(tt, depth-1)
			if !eq && !g.F.StrOrder {
				g.noIll++ // at most one side is ill-typed on purpose: two sides swapped to strings would be a string ordering (quarantined)
			}
			r := g.Expr(tt, depth-1)
			if !eq && !g.F.StrOrder {
				g.noIll--
			}
			if eq && !g.F.EqIntFloat {
				g.noIll--
			}
			if g.F.Floats && (!eq || g.F.EqIntFloat) && g.R.Intn(5) == 0 {
				r = g.Expr(TFloat, depth-1)
				l = g.Expr(TInt, depth-1)
				if eq && g.R.Intn(3) == 0 {
					// numerically equal literals of the two kinds (k and k.0), directly or through a constant
					// variable: the one pair on which "promote, then compare" and "compare as typed" differ
					k := int64(3 + g.R.Intn(6))
					l, r = &Expr{K: "int", I: k}, &Expr{K: "float", F: float64(k)}
					if g.R.Intn(2) == 0 {
						l = &Expr{K: "bin", Op: "/", A: []*Expr{{K: "int", I: 2 * k}, {K: "int", I: 2}}, Paren: 1}
					}
					if g.R.Intn(2) == 0 {
						l, r = r, l
					}
				}
			}
			return &Expr{K: "bin", Op: op, A: []*Expr{l, r}}
		case c == 4 && g.F.Strings:
			op := []string{"==", "!="}[g.R.Intn(2)]
			if g.F.StrOrder && g.R.Intn(2) == 0 {
				op = []string{"<", ">", "<=", ">="}[g.R.Intn(4)]
			}
			return &Expr{K: "bin", Op: op, A: []*Expr{g.Expr(TStr, depth-1), g.Expr(TStr, depth-1)}}
		case c == 5:
			return &Expr{K: "bin", Op: []string{"==", "!="}[g.R.Intn(2)], A: []*Expr{g.Expr(TBool, depth-1), g.Expr(TBool, depth-1)}}
		case c == 6 || c == 7:
			op := []string{"&&", "||"}[g.R.Intn(2)]
			l := g.Expr(TBool, depth-1)
			var r *Expr
			if g.F.LogicRhsMayFail {
				r = g.Expr(TBool, depth-1)
			} else {
				r = g.totalBool(depth - 1)
			}
			return &Expr{K: "bin", Op: op, A: []*Expr{l, r}}
		case c == 8:
			return &Expr{K: "un", Op: "!", A: []*Expr{g.Expr(TBool, depth-1)}}
		case c == 9 && g.F.BuiltinsCore && g.F.Strings:
			return &Expr{K: "call", S: "contains", A: []*Expr{g.arg(TStr, depth-1), g.arg(TStr, depth-1)}}
		case c == 10 && g.F.BuiltinsInterp && g.F.Strings:
			return &Expr{K: "call", S: []string{"startsWith", "endsWith"}[g.R.Intn(2)], A: []*Expr{g.arg(TStr, depth-1), g.arg(TStr, depth-1)}}
		}
		return &Expr{K: "bool", B: g.R.Intn(2) == 0}
	case TArrInt, TArrStr:
		et := TInt
		if t == TArrStr {
			et = TStr
		}
		if !leaf && t == TArrStr && g.F.BuiltinsDocStr && g.R.Intn(5) == 0 {
			return &Expr{K: "call", S: "split", A: []*Expr{g.arg(TStr, depth-1), {K: "str", S: []string{",", " ", "-", "a", "日", ", ", "ab"}[g.R.Intn(7)]}}}
		}
		if !leaf && g.R.Intn(4) == 0 {
			return &Expr{K: "bin", Op: "+", A: []*Expr{g.Expr(t, depth-1), g.Expr(t, depth-1)}}
		}
		n := g.R.Intn(4)
		e := &Expr{K: "arr"}
		for i := 0; i < n; i++ {
			e.A = append(e.A, g.arg(et, depth-1)) // elements keep the element type (see arg)
		}
		return e
	case TObj:
		e := &Expr{K: "obj", Keys: []string{"a", "s"}}
		g.noIll++
		e.A = []*Expr{g.Expr(TInt, depth-1), g.strOrInt(depth - 1)}
		g.noIll--
		return e
	case TNull:
		return lit("null")
	}
	return g.intLit()
}

// arg generates a builtin argument: never ill-typed on purpose (what builtins do with
// wrongly typed arguments differs between the engines and is C04's subject).
func (g *G) arg(t Ty, depth int) *Expr {
	g.noIll++
	defer func() { g.noIll-- }()
	return g.Expr(t, depth)
}

func (g *G) strOrInt(depth int) *Expr {
	if g.F.Strings {
		return g.Expr(TStr, depth)
	}
	return g.Expr(TInt, depth)
}

// totalBool: a bool expression that cannot fail and has no effect (literals, variables,
// comparisons of literals/variables).
func (g *G) totalBool(depth int) *Expr {
	if vs := g.varsOf(TBool); len(vs) > 0 && g.R.Intn(2) == 0 {
		return &Expr{K: "var", S: vs[g.R.Intn(len(vs))]}
	}
	if depth > 0 && g.R.Intn(2) == 0 {
		a, b := g.intLit(), g.intLit()
		if vs := g.varsOf(TInt); len(vs) > 0 {
			a = &Expr{K: "var", S: vs[g.R.Intn(len(vs))]}
		}
		return &Expr{K: "bin", Op: []string{"<", "<=", ">", ">=", "==", "!="}[g.R.Intn(6)], A: []*Expr{a, b}}
	}
	return &Expr{K: "bool", B: g.R.Intn(2) == 0}
}

// indexExpr builds v[idx] for an array variable v (the documented grammar indexes
// identifiers only). The index is in range when the length is statically known, unless
// IndexOOR asks for occasional out-of-range accesses. Returns nil when no variable fits.
func (g *G) indexExpr(at, et Ty, depth int) *Expr {
	vs := g.varsOf(at)
	if len(vs) == 0 {
		return nil
	}
	v := vs[g.R.Intn(len(vs))]
	n, known := g.arrLen[v]
	if known && n > 0 && !(g.F.IndexOOR && g.R.Intn(8) == 0) {
		return &Expr{K: "index", A: []*Expr{{K: "var", S: v}, {K: "int", I: int64(g.R.Intn(n))}}}
	}
	if g.F.IndexOOR {
		return &Expr{K: "index", A: []*Expr{{K: "var", S: v}, {K: "int", I: int64(g.R.Intn(5))}}}
	}
	return nil
}

func (g *G) fieldExpr(name string) *Expr {
	vs := g.varsOf(TObj)
	if len(vs) == 0 {
		return nil
	}
	return &Expr{K: "field", S: name, A: []*Expr{{K: "var", S: vs[g.R.Intn(len(vs))]}}}
}

func (g *G) matchExpr(t Ty, depth int) *Expr {
	scrT := TInt
	if g.F.Strings && g.R.Intn(3) == 0 {
		scrT = TStr
	}
	// with int/float equality in scope, a whole-valued float scrutinee meets int literals and an int scrutinee meets
	// float literals: a literal pattern compares like == does
	mixScr, mixLit := false, false
	if scrT == TInt && g.F.EqIntFloat && g.F.Floats {
		switch g.R.Intn(6) {
		case 0:
			mixScr = true
		case 1:
			mixLit = true
		}
	}
	m := &Expr{K: "match", A: []*Expr{g.Expr(scrT, depth)}}
	if mixScr {
		m.A[0] = &Expr{K: "bin", Op: "*", A: []*Expr{g.Expr(TInt, depth), {K: "float", F: []float64{4, 0.5, 8}[g.R.Intn(3)]}}, Paren: 1}
	}
	n := 1 + g.R.Intn(3)
	for i := 0; i < n; i++ {
		var l *Expr
		if scrT == TInt && mixLit {
			l = &Expr{K: "float", F: float64(g.R.Intn(6))}
		} else if scrT == TInt {
			l = &Expr{K: "int", I: int64(g.R.Intn(6))}
		} else {
			l = g.strLit()
		}
		g.typedTop = true
		m.Arms = append(m.Arms, MatchArm{Pat: "lit", Lit: l, Body: g.Expr(t, depth-1)})
	}
	if scrT == TInt && g.R.Intn(2) == 0 {
		b := g.fresh("m")
		if vs := g.varsOf(TInt); len(vs) > 0 && g.R.Intn(2) == 0 && !g.F.NoMatchBindShadow {
			b = vs[g.R.Intn(len(vs))] // the pattern variable shadows an outer variable inside its own arm only
		}
		g.push()
		g.declare(b, TInt)
		guard := &Expr{K: "bin", Op: []string{">", "<", ">="}[g.R.Intn(3)], A: []*Expr{{K: "var", S: b}, {K: "int", I: int64(g.R.Intn(8))}}}
		g.typedTop = true
		body := g.Expr(t, depth-1)
		g.pop()
		m.Arms = append(m.Arms, MatchArm{Pat: "bind", Bind: b, Guard: guard, Body: body})
	}
	g.typedTop = true
	m.Arms = append(m.Arms, MatchArm{Pat: "wild", Body: g.Expr(t, depth-1)})
	return m
}

func (g *G) callUser(t Ty, depth int) *Expr {
	var cands []*Func
	for _, f := range g.funcs {
		if f.Ret == t && f != g.inFunc {
			cands = append(cands, f)
		}
	}
	if len(cands) == 0 {
		return nil
	}
	f := cands[g.R.Intn(len(cands))]
	e := &Expr{K: "call", S: f.Name}
	for _, p := range f.Params {
		e.A = append(e.A, g.Expr(p.T, depth))
	}
	return e
}

// ---------------------------------------------------------------- statements

func (g *G) block(depth, n int, retT Ty) []*Stmt {
	g.push()
	defer g.pop()
	var out []*Stmt
	for i := 0; i < n; i++ {
		st := g.stmt(depth, retT)
		out = append(out, st)
		if g.F.SwapTwin && st.K == "decl" && st.E.K == "bin" && len(st.E.A) == 2 && g.R.Intn(4) == 0 {
			// the same operator over the same operands the other way round, bound to a second variable: equal for the
			// commutative cases, different for - / % < and for + on strings and arrays
			if t, ok := g.scope[len(g.scope)-1][st.Name]; ok {
				tw := *st.E
				tw.A = []*Expr{st.E.A[1], st.E.A[0]}
				n2 := g.fresh("v")
				g.declare(n2, t)
				out = append(out, &Stmt{K: "decl", Name: n2, E: &tw})
			}
		}
		if g.F.ArrFork && st.K == "decl" && g.R.Intn(3) == 0 {
			// two different extensions of one array that is itself the result of a concatenation: each must keep its
			// own last element (an engine that appends in place lets the second extension overwrite the first)
			if t, ok := g.scope[len(g.scope)-1][st.Name]; ok && (t == TArrInt || t == TArrStr) {
				el := func() *Expr {
					if t == TArrStr {
						return g.strLit()
					}
					return &Expr{K: "int", I: int64(100 + g.R.Intn(900))}
				}
				ext := func(base string, k int) string {
					n := g.fresh("v")
					e := &Expr{K: "bin", Op: "+", A: []*Expr{{K: "var", S: base}, {K: "arr"}}}
					for j := 0; j < k; j++ {
						e.A[1].A = append(e.A[1].A, el())
					}
					g.declare(n, t)
					if l, known := g.arrLen[base]; known {
						g.arrLen[n] = l + k
					}
					out = append(out, &Stmt{K: "decl", Name: n, E: e})
					return n
				}
				common := ext(st.Name, 1+g.R.Intn(2))
				g.mustShow = append(g.mustShow, ext(common, 1), ext(common, 1))
			}
		}
	}
	return out
}

func (g *G) stmt(depth int, retT Ty) *Stmt {
	c := g.R.Intn(20)
	switch {
	case c < 6 || depth <= 0:
		return g.declStmt(g.pickTy())
	case c < 9 && g.F.NoAssign:
		return g.declStmt(g.pickTy())
	case c < 9:
		// assignment to a visible variable (array variables keep their statically known
		// length unless out-of-range indexing is part of the profile)
		t := g.pickTy()
		if (t == TArrInt || t == TArrStr) && !g.F.IndexOOR {
			t = TInt
		}
		if g.inLoop > 0 && (t == TStr || t == TArrInt || t == TArrStr || t == TObj) {
			// no growing values inside loops: s = s + s in nested loops doubles without bound
			t = TInt
		}
		if vs := g.varsOf(t); len(vs) > 0 {
			v := vs[g.R.Intn(len(vs))]
			delete(g.arrLen, v)
			return &Stmt{K: "assign", Name: v, E: g.expr2(t, 3)}
		}
		return g.declStmt(TInt)
	case c < 12:
		cond := g.Expr(TBool, 3)
		if g.F.NoLitIdentity && g.R.Intn(5) == 0 {
			cond = g.constTree(TBool, 2)
		}
		s := &Stmt{K: "if", E: cond, Body: g.block(depth-1, 1+g.R.Intn(2), retT)}
		switch g.R.Intn(3) {
		case 0:
			s.Else = g.block(depth-1, 1+g.R.Intn(2), retT)
		case 1:
			s.ElseIf = &Stmt{K: "if", E: g.Expr(TBool, 2), Body: g.block(depth-1, 1, retT), Else: g.block(depth-1, 1, retT)}
		}
		return s
	case c < 14 && g.F.While:
		cn := g.fresh("w")
		lim := int64(1 + g.R.Intn(5))
		g.declare(cn, TAny) // the counter is not offered to expressions as an int (never reassigned by the body)
		g.inLoop++
		body := g.block(depth-1, 1+g.R.Intn(2), retT)
		g.inLoop--
		inc := &Stmt{K: "assign", Name: cn, E: &Expr{K: "bin", Op: "+", A: []*Expr{{K: "var", S: cn}, {K: "int", I: 1}}}}
		return &Stmt{K: "while", Name: cn, E: &Expr{K: "bin", Op: "<", A: []*Expr{{K: "var", S: cn}, {K: "int", I: lim}}}, Body: append([]*Stmt{inc}, body...)}
	case c < 16 && g.F.For && g.F.Arrays:
		at := TArrInt
		et := TInt
		if g.F.Strings && g.R.Intn(3) == 0 {
			at, et = TArrStr, TStr
		}
		arr := g.arg(at, 2) // the iterable is an array of the element type the loop variable is given
		s := &Stmt{K: "for", E: arr}
		g.push()
		s.Name = g.fresh("it")
		if g.F.LoopVarShadow && g.R.Intn(3) == 0 {
			if vs := g.varsOf(et); len(vs) > 0 {
				s.Name = vs[g.R.Intn(len(vs))]
			}
		}
		if g.R.Intn(3) == 0 {
			s.K = "fori"
			s.Name2 = s.Name
			s.Name = g.fresh("ix")
			g.declare(s.Name, TInt)
			g.declare(s.Name2, et)
		} else {
			g.declare(s.Name, et)
		}
		g.inLoop++
		s.Body = g.block(depth-1, 1+g.R.Intn(2), retT)
		g.inLoop--
		g.pop()
		return s
	case c == 16 && g.F.Switch:
		st := TInt
		if g.F.Strings && g.R.Intn(3) == 0 {
			st = TStr
		}
		s := &Stmt{K: "switch", E: g.Expr(st, 2)}
		mixLit := false
		if st == TInt && g.F.EqIntFloat && g.F.Floats {
			switch g.R.Intn(6) {
			case 0:
				s.E = &Expr{K: "bin", Op: "*", A: []*Expr{g.Expr(TInt, 2), {K: "float", F: []float64{4, 0.5, 8}[g.R.Intn(3)]}}, Paren: 1}
			case 1:
				mixLit = true
			}
		}
		n := 1 + g.R.Intn(3)
		for i := 0; i < n; i++ {
			var v *Expr
			if st == TInt && mixLit {
				v = &Expr{K: "float", F: float64(g.R.Intn(5))}
			} else if st == TInt {
				v = &Expr{K: "int", I: int64(g.R.Intn(5))}
			} else {
				v = g.strLit()
			}
			s.Cases = append(s.Cases, Case{Val: v, Body: g.block(depth-1, 1, retT)})
		}
		if g.R.Intn(3) != 0 {
			s.Cases = append(s.Cases, Case{Body: g.block(depth-1, 1, retT)})
		}
		return s
	case c == 17 && g.inLoop > 0 && g.F.BreakContinue:
		k := []string{"break", "continue"}[g.R.Intn(2)]
		return &Stmt{K: "if", E: g.Expr(TBool, 2), Body: []*Stmt{{K: k}}}
	case c == 18 && g.F.NestedReturn && retT != TAny:
		return &Stmt{K: "if", E: g.Expr(TBool, 2), Body: []*Stmt{g.retStmt(retT)}}
	case c == 19 && g.F.Guards && g.inFunc == nil && g.inLoop == 0:
		return &Stmt{K: "guard", E: g.Expr(TBool, 2), Status: []int{400, 404, 409, 422}[g.R.Intn(4)], Msg: "guard failed"}
	}
	return g.declStmt(g.pickTy())
}

func (g *G) declStmt(t Ty) *Stmt {
	n := g.fresh("v")
	// the top-level node has the declared type (so the recorded type of the variable is
	// right); sub-expressions may still be ill-typed and make the statement fail
	e := g.expr2(t, 3)
	if g.F.NoLitIdentity && g.R.Intn(4) == 0 && (t == TInt || t == TFloat || t == TStr || t == TBool) {
		e = g.constTree(t, 3) // a whole constant tree: folded by the optimizer, never next to a variable
	}
	if (t == TArrInt || t == TArrStr) && g.R.Intn(3) != 0 {
		// mostly literal arrays of known, non-zero length so that indexing has something to hit
		et := TInt
		if t == TArrStr {
			et = TStr
		}
		e = &Expr{K: "arr"}
		for i := 1 + g.R.Intn(3); i > 0; i-- {
			e.A = append(e.A, g.arg(et, 2))
		}
	}
	g.declare(n, t)
	if e.K == "arr" && e.Paren == 0 {
		g.arrLen[n] = len(e.A)
	}
	return &Stmt{K: "decl", Name: n, E: e}
}

func (g *G) retStmt(t Ty) *Stmt {
	if g.inFunc == nil && g.F.StatusReturn && g.R.Intn(6) == 0 {
		return &Stmt{K: "retst", E: g.resultExpr(), Status: []int{200, 201, 202, 400, 404, 418}[g.R.Intn(6)]}
	}
	if g.inFunc != nil {
		return &Stmt{K: "ret", E: g.Expr(t, 3)}
	}
	return &Stmt{K: "ret", E: g.resultExpr()}
}

// resultExpr builds the route's result: an object exposing several visible variables so
// that a wrong intermediate value shows in the response.
func (g *G) resultExpr() *Expr {
	e := &Expr{K: "obj"}
	seen := map[string]bool{}
	for _, t := range []Ty{TInt, TFloat, TStr, TBool, TArrInt, TArrStr, TObj} {
		vs := g.varsOf(t)
		g.R.Shuffle(len(vs), func(i, j int) { vs[i], vs[j] = vs[j], vs[i] })
		for i, v := range vs {
			if i >= 2 || seen[v] {
				break
			}
			seen[v] = true
			e.Keys = append(e.Keys, "r_"+v)
			e.A = append(e.A, &Expr{K: "var", S: v})
		}
	}
	for _, v := range g.mustShow {
		visible := false
		for _, sc := range g.scope {
			if _, ok := sc[v]; ok {
				visible = true
			}
		}
		if visible && !seen[v] {
			seen[v] = true
			e.Keys = append(e.Keys, "r_"+v)
			e.A = append(e.A, &Expr{K: "var", S: v})
		}
	}
	e.Keys = append(e.Keys, "x")
	e.A = append(e.A, g.Expr(g.pickTy(), 3))
	return e
}

// Program generates a route body (and user functions when enabled).
func (g *G) Program(size int) *Prog {
	p := &Prog{Inputs: map[string]string{}}
	g.scope = nil
	g.arrLen = map[string]int{}
	g.nvar = 0
	g.funcs = nil
	g.budget = size * 6
	if g.F.UserFuncs {
		nf := g.R.Intn(3)
		for i := 0; i < nf; i++ {
			f := &Func{Name: fmt.Sprintf("fn%d", i), Ret: []Ty{TInt, TStr, TBool}[g.R.Intn(3)]}
			if !g.F.Strings && f.Ret == TStr {
				f.Ret = TInt
			}
			g.push()
			np := g.R.Intn(3)
			for k := 0; k < np; k++ {
				pt := []Ty{TInt, TStr, TBool}[g.R.Intn(3)]
				if !g.F.Strings && pt == TStr {
					pt = TInt
				}
				pn := fmt.Sprintf("p%d_%d", i, k)
				f.Params = append(f.Params, Param{pn, pt})
				g.declare(pn, pt)
			}
			g.inFunc = f
			saveLoop := g.inLoop
			g.inLoop = 0
			n := g.R.Intn(3)
			for k := 0; k < n; k++ {
				f.Body = append(f.Body, g.stmt(2, f.Ret))
			}
			f.Body = append(f.Body, &Stmt{K: "ret", E: g.Expr(f.Ret, 3)})
			g.inLoop = saveLoop
			g.inFunc = nil
			g.pop()
			g.funcs = append(g.funcs, f)
			p.Funcs = append(p.Funcs, f)
		}
	}
	g.push()
	if g.F.FreeVars {
		for _, fv := range []struct {
			n string
			t Ty
		}{{"fi", TInt}, {"ff", TFloat}, {"fs", TStr}, {"fb", TBool}, {"fa", TArrInt}, {"fo", TObj}, {"fj", TInt}} {
			if (fv.t == TFloat && !g.F.Floats) || (fv.t == TStr && !g.F.Strings) || (fv.t == TArrInt && !g.F.Arrays) || (fv.t == TObj && !g.F.Objects) {
				continue
			}
			p.Free = append(p.Free, fv.n)
			g.declare(fv.n, fv.t)
		}
	}
	// path parameters are strings; bind one as an input
	if !g.F.FreeVars && g.F.Strings && g.R.Intn(2) == 0 {
		p.Inputs["pin"] = strPool[1+g.R.Intn(4)]
		g.declare("pin", TStr)
	}
	for i := 0; i < size; i++ {
		p.Body = append(p.Body, g.stmt(3, TObj))
	}
	p.Body = append(p.Body, g.retStmt(TObj))
	g.pop()
	if len(p.Funcs) > 0 {
		g.collideParamNames(p)
	}
	return p
}

// collideParamNames renames some function parameters to names the route body uses for its
// own variables. Callee and caller scopes are separate, so a correct implementation is
// unaffected; an implementation that evaluates an argument in the wrong scope (or leaks a
// parameter into the caller) is not.
func (g *G) collideParamNames(p *Prog) {
	var routeVars []string
	seen := map[string]bool{}
	var collect func(ss []*Stmt, into *[]string, set map[string]bool)
	var collectE func(e *Expr, set map[string]bool)
	collectE = func(e *Expr, set map[string]bool) {
		if e == nil {
			return
		}
		if e.K == "var" {
			set[e.S] = true
		}
		for _, a := range e.A {
			collectE(a, set)
		}
		for _, arm := range e.Arms {
			if arm.Bind != "" {
				set[arm.Bind] = true
			}
			collectE(arm.Lit, set)
			collectE(arm.Guard, set)
			collectE(arm.Body, set)
		}
	}
	collect = func(ss []*Stmt, into *[]string, set map[string]bool) {
		for _, s := range ss {
			if s.K == "decl" && into != nil && !set[s.Name] {
				*into = append(*into, s.Name)
			}
			if s.Name != "" {
				set[s.Name] = true
			}
			if s.Name2 != "" {
				set[s.Name2] = true
			}
			collectE(s.E, set)
			collect(s.Body, into, set)
			collect(s.Else, into, set)
			if s.ElseIf != nil {
				collect([]*Stmt{s.ElseIf}, into, set)
			}
			for _, c := range s.Cases {
				collectE(c.Val, set)
				collect(c.Body, into, set)
			}
		}
	}
	collect(p.Body, &routeVars, seen)
	if len(routeVars) == 0 {
		return
	}
	for _, f := range p.Funcs {
		used := map[string]bool{}
		for _, pr := range f.Params {
			used[pr.Name] = true
		}
		collect(f.Body, nil, used)
		for k := range f.Params {
			if g.R.Intn(2) != 0 {
				continue
			}
			nn := routeVars[g.R.Intn(len(routeVars))]
			if used[nn] {
				continue
			}
			old := f.Params[k].Name
			used[nn] = true
			f.Params[k].Name = nn
			var re func(e *Expr)
			re = func(e *Expr) {
				if e == nil {
					return
				}
				if e.K == "var" && e.S == old {
					e.S = nn
				}
				for _, a := range e.A {
					re(a)
				}
				for i := range e.Arms {
					re(e.Arms[i].Lit)
					re(e.Arms[i].Guard)
					re(e.Arms[i].Body)
				}
			}
			var rs func(ss []*Stmt)
			rs = func(ss []*Stmt) {
				for _, s := range ss {
					if s.Name == old {
						s.Name = nn
					}
					if s.Name2 == old {
						s.Name2 = nn
					}
					re(s.E)
					rs(s.Body)
					rs(s.Else)
					if s.ElseIf != nil {
						rs([]*Stmt{s.ElseIf})
					}
					for i := range s.Cases {
						re(s.Cases[i].Val)
						rs(s.Cases[i].Body)
					}
				}
			}
			rs(f.Body)
		}
	}
}

// ---------------------------------------------------------------- printer

var prec = map[string]int{"*": 20, "/": 20, "%": 20, "+": 10, "-": 10, "==": 5, "!=": 5, "<": 5, "<=": 5, ">": 5, ">=": 5, "&&": 3, "||": 2}

func isCmp(op string) bool { return prec[op] == 5 }

// PrintExpr renders e with the minimum parentheses required by the documented precedence
// table (all binary operators left-associative), plus e.Paren redundant pairs. Mixed
// equality/relational chains are always parenthesised (the two precedence descriptions in
// the documentation disagree about them).
func PrintExpr(e *Expr) string {
	s := printExpr(e)
	for i := 0; i < e.Paren; i++ {
		s = "(" + s + ")"
	}
	return s
}

func printExpr(e *Expr) string {
	switch e.K {
	case "int":
		return strconv.FormatInt(e.I, 10)
	case "float":
		s := strconv.FormatFloat(e.F, 'f', -1, 64)
		if !strings.Contains(s, ".") {
			s += ".0"
		}
		return s
	case "str":
		return quoteStr(e.S)
	case "bool":
		if e.B {
			return "true"
		}
		return "false"
	case "null":
		return "null"
	case "var":
		return e.S
	case "un":
		in := PrintExpr(e.A[0])
		if k := e.A[0].K; (k == "bin" || (k == "un" && e.Op == "-" && e.A[0].Op == "-")) && e.A[0].Paren == 0 {
			in = "(" + in + ")"
		}
		return e.Op + in
	case "bin":
		p := prec[e.Op]
		l, r := PrintExpr(e.A[0]), PrintExpr(e.A[1])
		if e.A[0].K == "bin" && e.A[0].Paren == 0 {
			lp := prec[e.A[0].Op]
			if lp < p || (isCmp(e.Op) && isCmp(e.A[0].Op)) {
				l = "(" + l + ")"
			}
		}
		if e.A[0].K == "match" && e.A[0].Paren == 0 {
			l = "(" + l + ")"
		}
		if e.A[1].K == "bin" && e.A[1].Paren == 0 {
			rp := prec[e.A[1].Op]
			if rp <= p {
				r = "(" + r + ")"
			}
		}
		if e.A[1].K == "match" && e.A[1].Paren == 0 {
			r = "(" + r + ")"
		}
		return l + " " + e.Op + " " + r
	case "arr":
		var ps []string
		for _, a := range e.A {
			ps = append(ps, PrintExpr(a))
		}
		return "[" + strings.Join(ps, ", ") + "]"
	case "obj":
		var ps []string
		for i, a := range e.A {
			ps = append(ps, e.Keys[i]+": "+PrintExpr(a))
		}
		return "{" + strings.Join(ps, ", ") + "}"
	case "field":
		in := PrintExpr(e.A[0])
		if k := e.A[0].K; (k == "bin" || k == "un" || k == "match" || k == "obj") && e.A[0].Paren == 0 {
			in = "(" + in + ")"
		}
		return in + "." + e.S
	case "index":
		in := PrintExpr(e.A[0])
		if k := e.A[0].K; (k == "bin" || k == "un" || k == "match") && e.A[0].Paren == 0 {
			in = "(" + in + ")"
		}
		return in + "[" + PrintExpr(e.A[1]) + "]"
	case "call":
		var ps []string
		for _, a := range e.A {
			ps = append(ps, PrintExpr(a))
		}
		return e.S + "(" + strings.Join(ps, ", ") + ")"
	case "match":
		var b strings.Builder
		b.WriteString("match " + PrintExpr(e.A[0]) + " {\n")
		for _, a := range e.Arms {
			switch a.Pat {
			case "lit":
				b.WriteString("      " + PrintExpr(a.Lit))
			case "bind":
				b.WriteString("      " + a.Bind)
			default:
				b.WriteString("      _")
			}
			if a.Guard != nil {
				b.WriteString(" when " + PrintExpr(a.Guard))
			}
			b.WriteString(" => " + PrintExpr(a.Body) + "\n")
		}
		b.WriteString("    }")
		return b.String()
	}
	return "null"
}

func quoteStr(s string) string {
	var b strings.Builder
	b.WriteByte('"')
	for _, r := range s {
		switch r {
		case '"':
			b.WriteString(`\"`)
		case '\\':
			b.WriteString(`\\`)
		case '\n':
			b.WriteString(`\n`)
		case '\t':
			b.WriteString(`\t`)
		default:
			b.WriteRune(r)
		}
	}
	b.WriteByte('"')
	return b.String()
}

func PrintStmts(ss []*Stmt, ind string, b *strings.Builder) {
	for _, s := range ss {
		printStmt(s, ind, b)
	}
}

func printStmt(s *Stmt, ind string, b *strings.Builder) {
	switch s.K {
	case "decl":
		fmt.Fprintf(b, "%s$ %s = %s\n", ind, s.Name, PrintExpr(s.E))
	case "assign":
		fmt.Fprintf(b, "%s%s = %s\n", ind, s.Name, PrintExpr(s.E))
	case "if":
		fmt.Fprintf(b, "%sif %s {\n", ind, PrintExpr(s.E))
		PrintStmts(s.Body, ind+"  ", b)
		cur := s
		for cur.ElseIf != nil {
			fmt.Fprintf(b, "%s} else if %s {\n", ind, PrintExpr(cur.ElseIf.E))
			PrintStmts(cur.ElseIf.Body, ind+"  ", b)
			cur = cur.ElseIf
		}
		if cur.Else != nil {
			fmt.Fprintf(b, "%s} else {\n", ind)
			PrintStmts(cur.Else, ind+"  ", b)
		}
		fmt.Fprintf(b, "%s}\n", ind)
	case "while":
		fmt.Fprintf(b, "%s$ %s = 0\n%swhile %s {\n", ind, s.Name, ind, PrintExpr(s.E))
		PrintStmts(s.Body, ind+"  ", b)
		fmt.Fprintf(b, "%s}\n", ind)
	case "for":
		fmt.Fprintf(b, "%sfor %s in %s {\n", ind, s.Name, PrintExpr(s.E))
		PrintStmts(s.Body, ind+"  ", b)
		fmt.Fprintf(b, "%s}\n", ind)
	case "fori":
		fmt.Fprintf(b, "%sfor %s, %s in %s {\n", ind, s.Name, s.Name2, PrintExpr(s.E))
		PrintStmts(s.Body, ind+"  ", b)
		fmt.Fprintf(b, "%s}\n", ind)
	case "switch":
		fmt.Fprintf(b, "%sswitch %s {\n", ind, PrintExpr(s.E))
		for _, c := range s.Cases {
			if c.Val != nil {
				fmt.Fprintf(b, "%s  case %s {\n", ind, PrintExpr(c.Val))
			} else {
				fmt.Fprintf(b, "%s  default {\n", ind)
			}
			PrintStmts(c.Body, ind+"    ", b)
			fmt.Fprintf(b, "%s  }\n", ind)
		}
		fmt.Fprintf(b, "%s}\n", ind)
	case "ret":
		fmt.Fprintf(b, "%s> %s\n", ind, PrintExpr(s.E))
	case "retst":
		fmt.Fprintf(b, "%s> %s :: %d\n", ind, PrintExpr(s.E), s.Status)
	case "guard":
		fmt.Fprintf(b, "%s? (%s) :: %d %s\n", ind, PrintExpr(s.E), s.Status, quoteStr(s.Msg))
	case "break":
		fmt.Fprintf(b, "%sbreak\n", ind)
	case "continue":
		fmt.Fprintf(b, "%scontinue\n", ind)
	}
}

func tyName(t Ty) string {
	switch t {
	case TInt:
		return "int"
	case TStr:
		return "str"
	case TBool:
		return "bool"
	case TFloat:
		return "float"
	}
	return "any"
}

// Source renders the program as a module with one GET route at path (which may contain
// :pin when the program has the path input).
func (p *Prog) Source(routePath string) string {
	var b strings.Builder
	for _, f := range p.Funcs {
		var ps []string
		for _, pa := range f.Params {
			ps = append(ps, pa.Name+": "+tyName(pa.T)+"!")
		}
		fmt.Fprintf(&b, "! %s(%s): %s {\n", f.Name, strings.Join(ps, ", "), tyName(f.Ret))
		PrintStmts(f.Body, "  ", &b)
		b.WriteString("}\n\n")
	}
	fmt.Fprintf(&b, "@ GET %s {\n", routePath)
	PrintStmts(p.Body, "  ", &b)
	b.WriteString("}\n")
	return b.String()
}

// RoutePath returns the declared pattern and the concrete request path for the program.
func (p *Prog) RoutePath(prefix string) (pattern, request string) {
	if len(p.Free) > 0 {
		pattern = prefix
		for _, f := range p.Free {
			pattern += "/:" + f
		}
		return pattern, pattern
	}
	if v, ok := p.Inputs["pin"]; ok {
		return prefix + "/:pin", prefix + "/" + v
	}
	return prefix, prefix
}

// Size counts AST nodes; Kinds lists the statement kinds used (for non-triviality rules).
// Calls returns the names called anywhere in the program (builtins and user functions).
func (p *Prog) Calls() map[string]bool {
	out := map[string]bool{}
	var we func(e *Expr)
	we = func(e *Expr) {
		if e == nil {
			return
		}
		if e.K == "call" {
			out[e.S] = true
		}
		for _, a := range e.A {
			we(a)
		}
		for _, a := range e.Arms {
			we(a.Lit)
			we(a.Guard)
			we(a.Body)
		}
	}
	var ws func(ss []*Stmt)
	ws = func(ss []*Stmt) {
		for _, s := range ss {
			we(s.E)
			ws(s.Body)
			ws(s.Else)
			if s.ElseIf != nil {
				ws([]*Stmt{s.ElseIf})
			}
			for _, c := range s.Cases {
				we(c.Val)
				ws(c.Body)
			}
		}
	}
	for _, f := range p.Funcs {
		ws(f.Body)
	}
	ws(p.Body)
	return out
}

func (p *Prog) Size() (nodes int, kinds map[string]bool) {
	kinds = map[string]bool{}
	var we func(e *Expr)
	we = func(e *Expr) {
		if e == nil {
			return
		}
		nodes++
		kinds["e:"+e.K] = true
		for _, a := range e.A {
			we(a)
		}
		for _, a := range e.Arms {
			we(a.Lit)
			we(a.Guard)
			we(a.Body)
		}
	}
	var ws func(ss []*Stmt)
	ws = func(ss []*Stmt) {
		for _, s := range ss {
			nodes++
			kinds[s.K] = true
			we(s.E)
			ws(s.Body)
			ws(s.Else)
			if s.ElseIf != nil {
				ws([]*Stmt{s.ElseIf})
			}
			for _, c := range s.Cases {
				we(c.Val)
				ws(c.Body)
			}
		}
	}
	for _, f := range p.Funcs {
		ws(f.Body)
	}
	ws(p.Body)
	return
}
