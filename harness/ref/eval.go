// Package ref holds the small reference models. eval.go is R-eval: a reference evaluator
// for the abstract programs of package gen, written from the language documentation and
// the property statements (DESIGN.md appendix A). It shares no code with pkg/interpreter
// or pkg/vm.
package ref

import (
	"fmt"
	"math"
	"reflect"
	"sort"
	"strconv"
	"strings"

	"verifharness/gen"
)

type Outcome struct {
	Kind   string      `json:"kind"` // value | error | status
	Val    interface{} `json:"val,omitempty"`
	Status int         `json:"status,omitempty"`
	Why    string      `json:"why,omitempty"`
}

type evalErr struct {
	why     string
	outside bool // the construct is outside what the reference defines: the case is discarded
}

func (e evalErr) Error() string { return e.why }

type ctl struct {
	kind   string // ret break continue
	val    interface{}
	status int
}

type env struct {
	vars   map[string]interface{}
	parent *env
}

func (e *env) get(n string) (interface{}, bool) {
	for c := e; c != nil; c = c.parent {
		if v, ok := c.vars[n]; ok {
			return v, true
		}
	}
	return nil, false
}
func (e *env) set(n string, v interface{}) bool {
	for c := e; c != nil; c = c.parent {
		if _, ok := c.vars[n]; ok {
			c.vars[n] = v
			return true
		}
	}
	return false
}
func child(p *env) *env { return &env{vars: map[string]interface{}{}, parent: p} }

type machine struct {
	funcs map[string]*gen.Func
	steps int
	depth int
}

func fail(f string, a ...interface{}) { panic(evalErr{why: fmt.Sprintf(f, a...)}) }
func outside(f string, a ...interface{}) {
	panic(evalErr{why: fmt.Sprintf(f, a...), outside: true})
}

// Run evaluates the route body of p.
func Run(p *gen.Prog) (out Outcome) {
	m := &machine{funcs: map[string]*gen.Func{}}
	for _, f := range p.Funcs {
		m.funcs[f.Name] = f
	}
	defer func() {
		if r := recover(); r != nil {
			if ee, ok := r.(evalErr); ok {
				out = Outcome{Kind: "error", Why: ee.why}
				if ee.outside {
					out.Kind = "outside"
				}
				return
			}
			panic(r)
		}
	}()
	e := child(nil)
	for k, v := range p.Inputs {
		e.vars[k] = v
	}
	c := m.block(p.Body, e, false)
	if c != nil && c.kind == "ret" {
		if c.status != 0 {
			return Outcome{Kind: "status", Val: c.val, Status: c.status}
		}
		return Outcome{Kind: "value", Val: c.val}
	}
	return Outcome{Kind: "value", Val: nil}
}

func (m *machine) block(ss []*gen.Stmt, e *env, newScope bool) *ctl {
	if newScope {
		e = child(e)
	}
	for _, s := range ss {
		if c := m.stmt(s, e); c != nil {
			return c
		}
	}
	return nil
}

func (m *machine) tick() {
	m.steps++
	if m.steps > 2000000 {
		fail("reference step budget exceeded")
	}
}

func (m *machine) stmt(s *gen.Stmt, e *env) *ctl {
	m.tick()
	switch s.K {
	case "decl":
		v := m.eval(s.E, e)
		if _, exists := e.vars[s.Name]; exists {
			fail("redeclaration of %s in the same scope", s.Name)
		}
		e.vars[s.Name] = v
	case "assign":
		v := m.eval(s.E, e)
		if !e.set(s.Name, v) {
			fail("assignment to undeclared %s", s.Name)
		}
	case "if":
		cur := s
		for {
			c := m.eval(cur.E, e)
			b, ok := c.(bool)
			if !ok {
				fail("if condition is not a bool")
			}
			if b {
				return m.block(cur.Body, e, true)
			}
			if cur.ElseIf != nil {
				cur = cur.ElseIf
				continue
			}
			if cur.Else != nil {
				return m.block(cur.Else, e, true)
			}
			return nil
		}
	case "while":
		if _, exists := e.vars[s.Name]; exists {
			fail("redeclaration of %s", s.Name)
		}
		e.vars[s.Name] = int64(0)
		for {
			m.tick()
			c := m.eval(s.E, e)
			b, ok := c.(bool)
			if !ok {
				fail("while condition is not a bool")
			}
			if !b {
				return nil
			}
			if r := m.block(s.Body, e, true); r != nil {
				if r.kind == "break" {
					return nil
				}
				if r.kind == "ret" {
					return r
				}
			}
		}
	case "for", "fori":
		av := m.eval(s.E, e)
		arr, ok := av.([]interface{})
		var objKeys []string
		if !ok {
			obj, isObj := av.(map[string]interface{})
			if !isObj {
				fail("for over a non-array")
			}
			// objects: every key once, in sorted key order (the outcome must be a function
			// of the program text, so the order has to be a fixed one)
			for k := range obj {
				objKeys = append(objKeys, k)
			}
			sort.Strings(objKeys)
			for _, k := range objKeys {
				arr = append(arr, obj[k])
			}
		}
		for i, el := range arr {
			m.tick()
			it := child(e)
			if s.K == "fori" {
				if objKeys != nil {
					it.vars[s.Name] = objKeys[i]
				} else {
					it.vars[s.Name] = int64(i)
				}
				it.vars[s.Name2] = el
			} else {
				it.vars[s.Name] = el
			}
			if r := m.block(s.Body, it, true); r != nil {
				if r.kind == "break" {
					return nil
				}
				if r.kind == "ret" {
					return r
				}
			}
		}
	case "switch":
		v := m.eval(s.E, e)
		for _, c := range s.Cases {
			if c.Val == nil {
				continue
			}
			cv := m.eval(c.Val, e)
			if looseEq(v, cv) {
				return m.block(c.Body, e, true)
			}
		}
		for _, c := range s.Cases {
			if c.Val == nil {
				return m.block(c.Body, e, true)
			}
		}
	case "ret":
		return &ctl{kind: "ret", val: m.eval(s.E, e)}
	case "retst":
		return &ctl{kind: "ret", val: m.eval(s.E, e), status: s.Status}
	case "guard":
		c := m.eval(s.E, e)
		b, ok := c.(bool)
		if !ok {
			fail("guard condition is not a bool")
		}
		if !b {
			return &ctl{kind: "ret", val: map[string]interface{}{"error": s.Msg}, status: s.Status}
		}
	case "break":
		return &ctl{kind: "break"}
	case "continue":
		return &ctl{kind: "continue"}
	}
	return nil
}

func num(v interface{}) (float64, bool, bool) { // value, isNumber, isInt
	switch x := v.(type) {
	case int64:
		return float64(x), true, true
	case float64:
		return x, true, false
	}
	return 0, false, false
}

// looseEq is ==: numbers compare numerically across int/float, same-type scalars by value,
// null == null, different types are unequal. Arrays/objects are outside the fragment.
func looseEq(a, b interface{}) bool {
	af, an, ai := num(a)
	bf, bn, bi := num(b)
	if an && bn {
		if ai && bi {
			return a.(int64) == b.(int64)
		}
		return af == bf
	}
	switch x := a.(type) {
	case string:
		y, ok := b.(string)
		return ok && x == y
	case bool:
		y, ok := b.(bool)
		return ok && x == y
	case nil:
		return b == nil
	}
	switch a.(type) {
	case []interface{}, map[string]interface{}:
		// structural equality (int 1 and float 1.0 inside compound values: not pinned)
		if hasFloat(a) || hasFloat(b) {
			outside("== on compound values containing floats")
		}
		return reflect.DeepEqual(a, b)
	}
	return false
}

func hasFloat(v interface{}) bool {
	switch x := v.(type) {
	case float64:
		return true
	case []interface{}:
		for _, e := range x {
			if hasFloat(e) {
				return true
			}
		}
	case map[string]interface{}:
		for _, e := range x {
			if hasFloat(e) {
				return true
			}
		}
	}
	return false
}

func (m *machine) eval(x *gen.Expr, e *env) interface{} {
	m.tick()
	switch x.K {
	case "int":
		return x.I
	case "float":
		return x.F
	case "str":
		return x.S
	case "bool":
		return x.B
	case "null":
		return nil
	case "var":
		v, ok := e.get(x.S)
		if !ok {
			fail("undefined variable %s", x.S)
		}
		return v
	case "un":
		v := m.eval(x.A[0], e)
		if x.Op == "!" {
			b, ok := v.(bool)
			if !ok {
				fail("! on non-bool")
			}
			return !b
		}
		switch n := v.(type) {
		case int64:
			return -n
		case float64:
			return -n
		}
		fail("unary - on non-number")
	case "bin":
		return m.bin(x, e)
	case "arr":
		out := make([]interface{}, 0, len(x.A))
		for _, a := range x.A {
			out = append(out, m.eval(a, e))
		}
		return out
	case "obj":
		out := map[string]interface{}{}
		for i, a := range x.A {
			out[x.Keys[i]] = m.eval(a, e)
		}
		return out
	case "field":
		v := m.eval(x.A[0], e)
		o, ok := v.(map[string]interface{})
		if !ok {
			fail("field access on a non-object")
		}
		fv, present := o[x.S]
		if !present {
			return nil
		}
		return fv
	case "index":
		v := m.eval(x.A[0], e)
		iv := m.eval(x.A[1], e)
		switch c := v.(type) {
		case []interface{}:
			i, ok := iv.(int64)
			if !ok {
				fail("array index is not an int")
			}
			if i < 0 || int(i) >= len(c) {
				fail("array index out of range")
			}
			return c[i]
		case map[string]interface{}:
			k, ok := iv.(string)
			if !ok {
				fail("object index is not a string")
			}
			return c[k]
		}
		fail("index on a non-collection")
	case "call":
		return m.call(x, e)
	case "match":
		v := m.eval(x.A[0], e)
		for _, arm := range x.Arms {
			ae := child(e)
			switch arm.Pat {
			case "lit":
				lv := m.eval(arm.Lit, e)
				if !looseEq(v, lv) {
					continue
				}
			case "bind":
				ae.vars[arm.Bind] = v
			}
			if arm.Guard != nil {
				g := m.eval(arm.Guard, ae)
				b, ok := g.(bool)
				if !ok {
					fail("match guard is not a bool")
				}
				if !b {
					continue
				}
			}
			return m.eval(arm.Body, ae)
		}
		return nil
	}
	fail("unknown expression kind %s", x.K)
	return nil
}

func (m *machine) bin(x *gen.Expr, e *env) interface{} {
	if x.Op == "&&" || x.Op == "||" {
		l := m.eval(x.A[0], e)
		lb, ok := l.(bool)
		if !ok {
			fail("%s on non-bool", x.Op)
		}
		if x.Op == "&&" && !lb {
			return false
		}
		if x.Op == "||" && lb {
			return true
		}
		r := m.eval(x.A[1], e)
		rb, ok := r.(bool)
		if !ok {
			fail("%s on non-bool", x.Op)
		}
		return rb
	}
	l := m.eval(x.A[0], e)
	r := m.eval(x.A[1], e)
	lf, ln, li := num(l)
	rf, rn, ri := num(r)
	switch x.Op {
	case "+":
		if ls, ok := l.(string); ok {
			rs, ok := r.(string)
			if !ok {
				fail("string + non-string")
			}
			return ls + rs
		}
		if la, ok := l.([]interface{}); ok {
			ra, ok := r.([]interface{})
			if !ok {
				fail("array + non-array")
			}
			out := append([]interface{}{}, la...)
			return append(out, ra...)
		}
		if ln && rn {
			if li && ri {
				return l.(int64) + r.(int64)
			}
			return lf + rf
		}
		fail("+ on incompatible operands")
	case "-", "*":
		if ln && rn {
			if li && ri {
				if x.Op == "-" {
					return l.(int64) - r.(int64)
				}
				return l.(int64) * r.(int64)
			}
			if x.Op == "-" {
				return lf - rf
			}
			return lf * rf
		}
		fail("%s on non-numbers", x.Op)
	case "/", "%":
		if ln && rn {
			if li && ri {
				a, b := l.(int64), r.(int64)
				if b == 0 {
					fail("division by zero")
				}
				if x.Op == "/" {
					if a == math.MinInt64 && b == -1 {
						return a
					}
					return a / b
				}
				if b == -1 {
					return int64(0)
				}
				return a % b
			}
			if rf == 0 {
				fail("division by zero")
			}
			if x.Op == "/" {
				return lf / rf
			}
			return math.Mod(lf, rf)
		}
		fail("%s on non-numbers", x.Op)
	case "==":
		return looseEq(l, r)
	case "!=":
		return !looseEq(l, r)
	case "<", "<=", ">", ">=":
		if ln && rn {
			var res bool
			if li && ri {
				a, b := l.(int64), r.(int64)
				switch x.Op {
				case "<":
					res = a < b
				case "<=":
					res = a <= b
				case ">":
					res = a > b
				default:
					res = a >= b
				}
				return res
			}
			switch x.Op {
			case "<":
				res = lf < rf
			case "<=":
				res = lf <= rf
			case ">":
				res = lf > rf
			default:
				res = lf >= rf
			}
			return res
		}
		fail("ordering on non-numbers")
	}
	fail("unknown operator %s", x.Op)
	return nil
}

func tyOK(v interface{}, t gen.Ty) bool {
	switch t {
	case gen.TInt:
		if f, isF := v.(float64); isF {
			// calibrated: a float without a fractional part is accepted where int is declared
			// (the type check is shared with JSON input, where every number is a float)
			return f == math.Trunc(f) && !math.IsInf(f, 0)
		}
		_, ok := v.(int64)
		return ok
	case gen.TFloat:
		_, ok := v.(float64)
		if !ok {
			_, ok = v.(int64)
		}
		return ok
	case gen.TStr:
		_, ok := v.(string)
		return ok
	case gen.TBool:
		_, ok := v.(bool)
		return ok
	}
	return true
}

func (m *machine) call(x *gen.Expr, e *env) interface{} {
	if f, ok := m.funcs[x.S]; ok {
		if len(x.A) != len(f.Params) {
			fail("arity mismatch calling %s", x.S)
		}
		fe := child(nil)
		for i, p := range f.Params {
			v := m.eval(x.A[i], e)
			if v == nil || !tyOK(v, p.T) {
				fail("argument %d of %s has the wrong type", i, x.S)
			}
			// calibrated (interpreter, evaluateFunctionCall): a float without a fractional part
			// bound to an int parameter becomes an int (JSON numbers arrive as floats); later
			// arithmetic on the parameter is integer arithmetic
			if f, isF := v.(float64); isF && p.T == gen.TInt && f == float64(int64(f)) {
				v = int64(f)
			}
			fe.vars[p.Name] = v
		}
		m.depth++
		if m.depth > 200 {
			fail("recursion too deep")
		}
		c := m.block(f.Body, fe, false)
		m.depth--
		var rv interface{}
		if c != nil && c.kind == "ret" {
			rv = c.val
		}
		if rv != nil && !tyOK(rv, f.Ret) {
			fail("return value of %s has the wrong type", x.S)
		}
		return rv
	}
	args := make([]interface{}, len(x.A))
	for i, a := range x.A {
		args[i] = m.eval(a, e)
	}
	str := func(i int) string {
		s, ok := args[i].(string)
		if !ok {
			fail("%s: argument %d is not a string", x.S, i)
		}
		return s
	}
	integer := func(i int) int64 {
		n, ok := args[i].(int64)
		if !ok {
			fail("%s: argument %d is not an int", x.S, i)
		}
		return n
	}
	need := func(n int) {
		if len(args) != n {
			fail("%s: wrong number of arguments", x.S)
		}
	}
	switch x.S {
	case "length":
		need(1)
		switch v := args[0].(type) {
		case string:
			return int64(len([]rune(v)))
		case []interface{}:
			return int64(len(v))
		case map[string]interface{}:
			return int64(len(v))
		}
		fail("length of a scalar")
	case "upper":
		need(1)
		return strings.ToUpper(str(0))
	case "lower":
		need(1)
		return strings.ToLower(str(0))
	case "trim":
		need(1)
		return strings.TrimSpace(str(0))
	case "contains":
		need(2)
		return strings.Contains(str(0), str(1))
	case "startsWith":
		need(2)
		return strings.HasPrefix(str(0), str(1))
	case "endsWith":
		need(2)
		return strings.HasSuffix(str(0), str(1))
	case "indexOf":
		need(2)
		s, sub := str(0), str(1)
		bi := strings.Index(s, sub)
		if bi < 0 {
			return int64(-1)
		}
		return int64(len([]rune(s[:bi])))
	case "charAt":
		need(2)
		r := []rune(str(0))
		i := integer(1)
		if i < 0 || int(i) >= len(r) {
			fail("charAt out of range")
		}
		return string(r[i])
	case "substring":
		need(3)
		r := []rune(str(0))
		a, b := integer(1), integer(2)
		if a < 0 || b < 0 || a > b || int(a) > len(r) || int(b) > len(r) {
			fail("substring out of range")
		}
		return string(r[a:b])
	case "replace":
		need(3)
		s, old, nw := str(0), str(1), str(2)
		if old == "" {
			outside("replace of the empty string is not pinned by the reference")
		}
		// every occurrence, scanning left to right, non-overlapping
		var sb strings.Builder
		for {
			i := strings.Index(s, old)
			if i < 0 {
				sb.WriteString(s)
				break
			}
			sb.WriteString(s[:i])
			sb.WriteString(nw)
			s = s[i+len(old):]
		}
		return sb.String()
	case "split":
		need(2)
		s, d := str(0), str(1)
		if d == "" || s == "" {
			outside("split of / by the empty string is not pinned by the reference")
		}
		out := []interface{}{}
		for {
			i := strings.Index(s, d)
			if i < 0 {
				out = append(out, s)
				break
			}
			out = append(out, s[:i])
			s = s[i+len(d):]
		}
		return out
	case "join":
		need(2)
		arr, ok := args[0].([]interface{})
		if !ok {
			fail("join of a non-array")
		}
		d := str(1)
		var sb strings.Builder
		for i, el := range arr {
			if i > 0 {
				sb.WriteString(d)
			}
			switch v := el.(type) {
			case string:
				sb.WriteString(v)
			case int64:
				sb.WriteString(strconv.FormatInt(v, 10))
			default:
				outside("join of elements other than strings and ints is not pinned by the reference")
			}
		}
		return sb.String()
	case "parseInt":
		need(1)
		s := str(0)
		neg, digits := false, s
		if strings.HasPrefix(s, "-") {
			neg, digits = true, s[1:]
		}
		if s != strings.TrimSpace(s) || strings.HasPrefix(s, "+") {
			outside("parseInt of padded or plus-signed text is not pinned by the reference")
		}
		if digits == "" {
			fail("parseInt: no digits")
		}
		var mag uint64
		for _, c := range digits {
			if c < '0' || c > '9' {
				fail("parseInt: not a decimal integer")
			}
			dg := uint64(c - '0')
			if mag > (math.MaxUint64-dg)/10 {
				fail("parseInt: out of range")
			}
			mag = mag*10 + dg
		}
		if neg {
			if mag > 1<<63 {
				fail("parseInt: out of range")
			}
			return -int64(mag-1) - 1
		}
		if mag > math.MaxInt64 {
			fail("parseInt: out of range")
		}
		return int64(mag)
	case "parseFloat":
		need(1)
		s := str(0)
		// pinned: optional minus, digits, optionally a point followed by digits; clear garbage is an error; everything
		// else (exponents, bare points, NaN/inf, padding) is left to the implementation
		body := strings.TrimPrefix(s, "-")
		intPart, frac, hasPoint := body, "", false
		if i := strings.Index(body, "."); i >= 0 {
			intPart, frac, hasPoint = body[:i], body[i+1:], true
		}
		allDigits := func(t string) bool {
			for _, c := range t {
				if c < '0' || c > '9' {
					return false
				}
			}
			return t != ""
		}
		if allDigits(intPart) && (!hasPoint || allDigits(frac)) {
			f, err := strconv.ParseFloat(s, 64)
			if err != nil {
				outside("parseFloat: value out of the reference's range")
			}
			return f
		}
		letters := false
		for _, c := range s {
			if (c >= 'a' && c <= 'z' || c >= 'A' && c <= 'Z') && c != 'e' && c != 'E' {
				letters = true
			}
		}
		lower := strings.ToLower(s)
		if s == "" || (letters && !strings.Contains(lower, "nan") && !strings.Contains(lower, "inf")) || strings.Count(s, ".") > 1 || strings.Contains(s, ",") {
			fail("parseFloat: not a number")
		}
		outside("parseFloat of this spelling is not pinned by the reference")
	case "toString":
		need(1)
		switch v := args[0].(type) {
		case int64:
			return strconv.FormatInt(v, 10)
		case string:
			return v
		case bool:
			return strconv.FormatBool(v)
		}
		outside("toString of this value is not pinned by the reference")
	case "abs":
		need(1)
		switch v := args[0].(type) {
		case int64:
			if v == math.MinInt64 {
				fail("abs overflow")
			}
			if v < 0 {
				return -v
			}
			return v
		case float64:
			return math.Abs(v)
		}
		fail("abs of non-number")
	case "min", "max":
		need(2)
		switch a := args[0].(type) {
		case int64:
			b, ok := args[1].(int64)
			if !ok {
				fail("min/max of mixed types")
			}
			if (x.S == "min") == (a < b) {
				return a
			}
			return b
		case float64:
			b, ok := args[1].(float64)
			if !ok {
				fail("min/max of mixed types")
			}
			if (x.S == "min") == (a < b) {
				return a
			}
			return b
		}
		fail("min/max of non-numbers")
	}
	fail("unknown function %s", x.S)
	return nil
}
