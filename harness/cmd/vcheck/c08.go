package main

// C08 — Concurrent requests do not interfere.
//
// One long-lived server per job (the CLI's own wiring: setupRoutes → createHandler →
// ServeMux, i.e. ONE interpreter / one set of mock providers for all requests), hit by N
// goroutines at once. Four monitors:
//
//   (1) independent-expectation monitor on a directed provider-free module: recursion
//       (depth 40-110 per request, so that a depth budget shared between requests is
//       exceeded although each request alone is far below it), generic functions called
//       with different type arguments per request, long loops over locals, body / path /
//       query echo with unique tokens. The expected response is computed in Go.
//   (2) sequential-equivalence monitor on generated modules (G-prog routes, interpreter
//       and compiled mode): the response under N-way concurrency must equal the response
//       the same request gets alone on a fresh server.
//   (3) provider atomicity: unique values per request, per-key histories (call/return
//       time at the client boundary) checked with porcupine against a register model for
//       the mock database, Redis mock and MongoDB mock; torn-record check on reads.
//   (4) process-death monitor (Go's concurrent-map fatal in plain builds) + Go race
//       detector over the same workloads.

import (
	_ "embed"
	"encoding/json"
	"fmt"
	"math/rand"
	"os"
	"path/filepath"
	"reflect"
	"sort"
	"strconv"
	"strings"
	"time"

	"github.com/anishathalye/porcupine"

	"verifharness/gen"
	"verifharness/mon"
)

//go:embed data/c08_directed.glyph
var c08Directed string

// the compiled-mode variant: no user functions, no providers, no interpreter-only built-ins
//
//go:embed data/c08_compiled.glyph
var c08Compiled string

func init() { checks["C08"] = checkC08 }

// ---- directed provider-free requests with independently computed expectations ----

type c08Req struct {
	Req    HReq
	Expect map[string]interface{} // nil: no fixed expectation (provider op)
	Op     *c08Op
}

type c08Op struct {
	Space string `json:"space"` // db | redis | counter | mongo
	Key   string `json:"key"`
	Kind  string `json:"kind"` // write | update | tag | read | delete | incr
	Val   string `json:"val,omitempty"`
}

func c08JSON(m, p string, body interface{}) HReq {
	rq := HReq{M: m, P: p}
	if body != nil {
		b, _ := json.Marshal(body)
		rq.B = sp(string(b))
		rq.H = map[string][]string{"Content-Type": {"application/json"}}
	}
	return rq
}

func c08Pure(rng *rand.Rand, i int, compiled bool) c08Req {
	k := rng.Intn(12)
	if compiled {
		k = 4 + rng.Intn(3) // the compiled module has no user functions and no parseInt
	}
	loopAcc := func(n int) int {
		acc := 0
		for j := 0; j < n; j++ {
			acc += (j * 3) % 7
		}
		return acc
	}
	switch k {
	case 0:
		n := 40 + rng.Intn(71)
		return c08Req{Req: HReq{M: "GET", P: fmt.Sprintf("/rec/%d", n)}, Expect: map[string]interface{}{"kind": "rec", "n": float64(n), "r": float64(n)}}
	case 1:
		n := rng.Intn(100000)
		return c08Req{Req: HReq{M: "GET", P: fmt.Sprintf("/genint/%d", n)}, Expect: map[string]interface{}{"kind": "genint", "a": float64(n), "b": float64(n + 1)}}
	case 2:
		s := fmt.Sprintf("s%dx%d", i, rng.Intn(1000))
		return c08Req{Req: HReq{M: "GET", P: "/genstr/" + s}, Expect: map[string]interface{}{"kind": "genstr", "a": s, "b": s}}
	case 3:
		n := 200 + rng.Intn(2500)
		return c08Req{Req: HReq{M: "GET", P: fmt.Sprintf("/loop/%d", n)}, Expect: map[string]interface{}{"kind": "loop", "n": float64(n), "acc": float64(loopAcc(n))}}
	case 4:
		n := 200 + rng.Intn(2500)
		tok := fmt.Sprintf("b%d", i)
		return c08Req{Req: c08JSON("POST", "/loopb/"+tok, map[string]interface{}{"n": n}), Expect: map[string]interface{}{"kind": "loopb", "tok": tok, "n": float64(n), "acc": float64(loopAcc(n))}}
	case 10, 11:
		// an input type whose defaulted fields are an object and a list, mutated in place by
		// the route: every request must get defaults of its own
		name := fmt.Sprintf("user-%d-%d", i, rng.Intn(1e6))
		return c08Req{Req: c08JSON("POST", "/signup", map[string]interface{}{"name": name}),
			Expect: map[string]interface{}{"kind": "signup", "name": name, "prefs": map[string]interface{}{"digest": "weekly", "owner": name}, "tags": []interface{}{name}}}
	case 7:
		n := rng.Intn(100000)
		return c08Req{Req: HReq{M: "GET", P: fmt.Sprintf("/hof/%d", n)}, Expect: map[string]interface{}{"kind": "hof",
			"m": []interface{}{float64(2 * n), float64(2*n + 2), float64(2*n + 4)}, "s": float64(6*n + 6)}}
	case 8:
		n := rng.Intn(100000)
		return c08Req{Req: HReq{M: "GET", P: fmt.Sprintf("/async/%d", n)}, Expect: map[string]interface{}{"kind": "async", "a": float64(300 * n), "b": float64(n%50 + 7)}}
	case 9:
		n := rng.Intn(100000)
		m := []string{"zero", "one", "two", "three"}[n%4]
		return c08Req{Req: HReq{M: "GET", P: fmt.Sprintf("/matchsw/%d", n)}, Expect: map[string]interface{}{"kind": "matchsw", "k": float64(n), "out": []string{"a", "b", "c"}[n%3] + m}}
	case 5:
		n := 200 + rng.Intn(2500)
		tok := fmt.Sprintf("q%d", i)
		return c08Req{Req: HReq{M: "GET", P: fmt.Sprintf("/loopq/%s?n=%d", tok, n)}, Expect: map[string]interface{}{"kind": "loopq", "tok": tok, "n": float64(n), "acc": float64(loopAcc(n))}}
	}
	tok := fmt.Sprintf("t%d", i)
	name := fmt.Sprintf("name-%d-%d", i, rng.Intn(1e6))
	q := fmt.Sprintf("q%d", rng.Intn(1e6))
	n := 1 + rng.Intn(6)
	items := make([]int, n)
	exp := make([]interface{}, n)
	for j := range items {
		items[j] = rng.Intn(1000)
		exp[j] = float64(items[j] + 1)
	}
	return c08Req{Req: c08JSON("POST", "/echo/"+tok+"?q="+q, map[string]interface{}{"name": name, "items": items}),
		Expect: map[string]interface{}{"kind": "echo", "tok": tok, "name": name, "items": exp, "q": q}}
}

func c08CompiledModule() string { return c08Compiled }

// ---- provider operations -----------------------------------------------------------

func c08ProviderReq(rng *rand.Rand, i int, created map[string]bool) c08Req {
	val := fmt.Sprintf("v%d", i)
	switch rng.Intn(10) {
	case 0, 1, 2: // mock database
		key := fmt.Sprintf("k%d", rng.Intn(6))
		if !created["db:"+key] {
			created["db:"+key] = true
			return c08Req{Req: c08JSON("POST", "/db/create", map[string]interface{}{"id": key, "val": val}), Op: &c08Op{"db", key, "write", val}}
		}
		switch rng.Intn(10) {
		case 0:
			return c08Req{Req: HReq{M: "DELETE", P: "/db/delete/" + key}, Op: &c08Op{"db", key, "delete", ""}}
		case 1, 2, 3:
			return c08Req{Req: c08JSON("POST", "/db/update/"+key, map[string]interface{}{"val": val}), Op: &c08Op{"db", key, "update", val}}
		case 4, 5:
			return c08Req{Req: c08JSON("POST", "/db/tag/"+key, map[string]interface{}{"tag": "t" + val}), Op: &c08Op{"db", key, "tag", "t" + val}}
		}
		return c08Req{Req: HReq{M: "GET", P: "/db/get/" + key}, Op: &c08Op{"db", key, "read", ""}}
	case 3, 4: // redis register
		key := fmt.Sprintf("a%d", rng.Intn(4))
		switch rng.Intn(8) {
		case 0:
			return c08Req{Req: HReq{M: "DELETE", P: "/redis/del/" + key}, Op: &c08Op{"redis", key, "delete", ""}}
		case 1, 2, 3:
			return c08Req{Req: c08JSON("POST", "/redis/set/"+key, map[string]interface{}{"val": val}), Op: &c08Op{"redis", key, "write", val}}
		}
		return c08Req{Req: HReq{M: "GET", P: "/redis/get/" + key}, Op: &c08Op{"redis", key, "read", ""}}
	case 5, 6: // redis counter
		key := fmt.Sprintf("c%d", rng.Intn(2))
		if rng.Intn(3) == 0 {
			return c08Req{Req: HReq{M: "GET", P: "/redis/get/" + key}, Op: &c08Op{"counter", key, "read", ""}}
		}
		return c08Req{Req: HReq{M: "POST", P: "/redis/incr/" + key}, Op: &c08Op{"counter", key, "incr", ""}}
	}
	if rng.Intn(4) == 0 {
		// short-lived documents: inserts and deletes that move the others around while they are being scanned
		if j := i - 1 - rng.Intn(40); j >= 0 && created[fmt.Sprintf("mongo:x%d", j)] && rng.Intn(2) == 0 {
			xk := fmt.Sprintf("x%d", j)
			delete(created, "mongo:"+xk)
			return c08Req{Req: HReq{M: "DELETE", P: "/mongo/delete/" + xk}, Op: &c08Op{"mongo", xk, "delete", ""}}
		}
		xk := fmt.Sprintf("x%d", i)
		created["mongo:"+xk] = true
		return c08Req{Req: c08JSON("POST", "/mongo/insert", map[string]interface{}{"k": xk, "val": val}), Op: &c08Op{"mongo", xk, "write", val}}
	}
	key := fmt.Sprintf("m%d", rng.Intn(4))
	if !created["mongo:"+key] {
		created["mongo:"+key] = true
		return c08Req{Req: c08JSON("POST", "/mongo/insert", map[string]interface{}{"k": key, "val": val}), Op: &c08Op{"mongo", key, "write", val}}
	}
	switch rng.Intn(10) {
	case 0:
		return c08Req{Req: HReq{M: "DELETE", P: "/mongo/delete/" + key}, Op: &c08Op{"mongo", key, "delete", ""}}
	case 1, 2, 3:
		return c08Req{Req: c08JSON("POST", "/mongo/update/"+key, map[string]interface{}{"val": val}), Op: &c08Op{"mongo", key, "update", val}}
	case 4, 5:
		return c08Req{Req: c08JSON("POST", "/mongo/tag/"+key, map[string]interface{}{"tag": "t" + val}), Op: &c08Op{"mongo", key, "tag", "t" + val}}
	}
	if rng.Intn(2) == 0 {
		return c08Req{Req: HReq{M: "GET", P: "/mongo/scan/" + key}, Op: &c08Op{"mongo", key, "read", ""}}
	}
	return c08Req{Req: HReq{M: "GET", P: "/mongo/find/" + key}, Op: &c08Op{"mongo", key, "read", ""}}
}

type c08State struct {
	Present bool
	Val     string
	Tag     string // a second field, written by its own operation: an update of one field must not undo the other
}

type c08Out struct {
	OK    bool   // update / delete succeeded
	Found bool   // read
	Val   string // read value / incr result
	Tag   string
}

var c08Model = porcupine.Model{
	Init: func() interface{} { return c08State{} },
	Step: func(state, input, output interface{}) (bool, interface{}) {
		st := state.(c08State)
		op := input.(c08Op)
		out := output.(c08Out)
		switch op.Kind {
		case "write":
			return true, c08State{Present: true, Val: op.Val}
		case "update":
			if out.OK != st.Present {
				return false, st
			}
			if st.Present {
				return true, c08State{true, op.Val, st.Tag}
			}
			return true, st
		case "tag":
			if out.OK != st.Present {
				return false, st
			}
			if st.Present {
				return true, c08State{true, st.Val, op.Val}
			}
			return true, st
		case "delete":
			if out.OK != st.Present {
				return false, st
			}
			return true, c08State{}
		case "read":
			if out.Found != st.Present {
				return false, st
			}
			return !st.Present || (out.Val == st.Val && out.Tag == st.Tag), st
		case "incr":
			n := 0
			if st.Present {
				n, _ = strconv.Atoi(st.Val)
			}
			n++
			return out.Val == strconv.Itoa(n), c08State{Present: true, Val: strconv.Itoa(n)}
		}
		return false, st
	},
	Equal: func(a, b interface{}) bool { return a.(c08State) == b.(c08State) },
	DescribeOperation: func(in, out interface{}) string {
		return fmt.Sprintf("%+v -> %+v", in, out)
	},
}

// c08ParseOut turns a provider response into the model's output; torn != "" when a read
// returned a record whose mirrored fields disagree.
func c08ParseOut(op *c08Op, body string) (out c08Out, torn string, err error) {
	var m map[string]interface{}
	if e := json.Unmarshal([]byte(body), &m); e != nil {
		return out, "", fmt.Errorf("undecodable body %q", clipN(body, 80))
	}
	str := func(v interface{}) string {
		switch x := v.(type) {
		case string:
			return x
		case float64:
			return strconv.Itoa(int(x))
		case nil:
			return ""
		}
		return fmt.Sprint(v)
	}
	switch op.Kind {
	case "write":
		out.OK = true
	case "update", "tag":
		switch op.Space {
		case "db":
			out.OK = m["rec"] != nil // Update returns the record, or nothing when the id is unknown
		case "mongo":
			out.OK = str(m["n"]) == "1"
		}
	case "delete":
		switch op.Space {
		case "db":
			out.OK, _ = m["ok"].(bool)
		case "redis":
			out.OK = str(m["n"]) == "1"
		case "mongo":
			out.OK = str(m["n"]) == "1"
		}
	case "incr":
		out.Val = str(m["v"])
	case "read":
		switch op.Space {
		case "db", "mongo":
			recKey := "rec"
			mirrors := []string{"f1", "f2", "f3"}
			if op.Space == "mongo" {
				recKey, mirrors = "doc", []string{"g1", "g2"}
			}
			out.Found = m[recKey] != nil
			var scanned map[string]interface{}
			if docs, isScan := m["docs"].([]interface{}); isScan || m["op"] == "scan" {
				// a filtered scan: keys are unique, so it yields the document once or not at all, and the count agrees
				out.Found = len(docs) > 0
				if len(docs) > 1 {
					torn = fmt.Sprintf("a scan for the unique key %v returned %d documents", op.Key, len(docs))
				}
				if cnt := str(m["n"]); cnt != "0" && cnt != "1" {
					torn = fmt.Sprintf("CountDocuments for the unique key %v is %s", op.Key, cnt)
				}
				if out.Found {
					scanned, _ = docs[0].(map[string]interface{})
				}
			}
			if out.Found {
				rec, _ := m[recKey].(map[string]interface{})
				if scanned != nil {
					rec = scanned
				}
				out.Val = str(rec["val"])
				out.Tag = str(rec["tag"])
				for _, f := range mirrors {
					if str(rec[f]) != out.Val {
						torn = fmt.Sprintf("record %v: val=%q but %s=%q", op.Key, out.Val, f, str(rec[f]))
					}
				}
			}
		default:
			out.Found = m["v"] != nil
			out.Val = str(m["v"])
		}
	}
	return out, torn, nil
}

// ---- the check -------------------------------------------------------------------

func c08Decode(b string) interface{} {
	var v interface{}
	if json.Unmarshal([]byte(b), &v) != nil {
		return "<undecodable> " + clipN(b, 80)
	}
	return v
}

func checkC08(tier string) {
	r := mon.New("C08", tier, "exploration")
	rng := r.Rand("gen")
	id := 0
	var jobs []HJob
	type meta struct {
		kind     string // directed | directed-compiled | provider | gen-seq | gen-conc
		reqs     []c08Req
		conc     int
		pair     int // gen-conc: id of the sequential twin
		src      string
		interp   bool
		nPerMod  int
		progHash []string
	}
	metas := map[int]*meta{}
	concs := []int{2, 8, 32, 64}

	// (1) directed provider-free module
	nDir := r.Pick(32, 600)
	for j := 0; j < nDir; j++ {
		compiled := j%4 == 3
		m := &meta{kind: "directed", conc: concs[j%len(concs)], interp: !compiled, src: c08Directed}
		if compiled {
			m.kind, m.src = "directed-compiled", c08CompiledModule()
		}
		var files map[string]string
		if !compiled && j%4 == 1 {
			// the generic functions live in an imported file and the main module declares none of its own: whatever the
			// interpreter sets up per evaluation for generic calls must not depend on where the function was declared
			lib := "! identity<T>(x: T): T {\n  > x\n}\n\n! pick<T>(a: T, b: T): T {\n  > b\n}\n"
			if strings.Contains(m.src, lib) {
				m.src = "from \"./genlib\" import { identity, pick }\n\n" + strings.Replace(m.src, lib, "", 1)
				files = map[string]string{"genlib.glyph": lib}
				r.Count("directed_jobs_with_imported_generics", 1)
			}
		}
		n := 600
		for i := 0; i < n; i++ {
			m.reqs = append(m.reqs, c08Pure(rng, i, compiled))
		}
		hj := HJob{ID: id, Src: m.src, Interp: m.interp, Conc: m.conc, Rounds: 1, WatchS: 60, TCP: j%6 == 5, Files: files}
		for _, q := range m.reqs {
			hj.Reqs = append(hj.Reqs, q.Req)
		}
		metas[id] = m
		jobs = append(jobs, hj)
		id++
	}
	// (3) providers
	nProv := r.Pick(40, 900)
	for j := 0; j < nProv; j++ {
		m := &meta{kind: "provider", conc: []int{4, 16, 32, 64}[j%4], interp: true, src: c08Directed}
		created := map[string]bool{}
		hj := HJob{ID: id, Src: m.src, Interp: true, Conc: m.conc, Rounds: 1, WatchS: 60}
		// records that exist before the concurrent phase starts
		for k := 0; k < 4; k++ {
			key := fmt.Sprintf("k%d", k)
			created["db:"+key] = true
			hj.Pre = append(hj.Pre, c08JSON("POST", "/db/create", map[string]interface{}{"id": key, "val": "init-" + key}))
		}
		for k := 0; k < 3; k++ {
			key := fmt.Sprintf("m%d", k)
			created["mongo:"+key] = true
			hj.Pre = append(hj.Pre, c08JSON("POST", "/mongo/insert", map[string]interface{}{"k": key, "val": "init-" + key}))
		}
		ttlKeys := 0
		if j%4 == 1 {
			// keys stored with a TTL of one second that has run out when the concurrent phase
			// starts: the first lookups of expired keys then happen from many requests at once
			ttlKeys = 200
			for k := 0; k < ttlKeys; k++ {
				hj.Pre = append(hj.Pre, c08JSON("POST", fmt.Sprintf("/redis/setttl/e%d", k), map[string]interface{}{"val": "soon-gone"}))
			}
			hj.PauseMs = 1400
		}
		n := 500
		// first use of a table by several requests at once: tables f0..f7 are touched by
		// nobody before the concurrent phase; every acknowledged row must be there afterwards
		var freshKeys []string
		for i := 0; i < 32; i++ {
			t := fmt.Sprintf("f%d", i/4)
			key := fmt.Sprintf("%s/r%d", t, i)
			freshKeys = append(freshKeys, key)
			val := fmt.Sprintf("fv%d", i)
			m.reqs = append(m.reqs, c08Req{Req: c08JSON("POST", "/ft/create/"+t, map[string]interface{}{"id": fmt.Sprintf("r%d", i), "val": val}), Op: &c08Op{"db", key, "write", val}})
		}
		for i := 32; i < n; i++ {
			if i < 104 && m.conc <= 16 {
				// hot keys: updates of two different fields of ONE record from many requests at
				// once, interleaved with reads (an update that works on a private copy and
				// publishes it later undoes the other field's update)
				val := fmt.Sprintf("h%d", i)
				switch i % 6 {
				case 0:
					m.reqs = append(m.reqs, c08Req{Req: c08JSON("POST", "/db/update/k0", map[string]interface{}{"val": val}), Op: &c08Op{"db", "k0", "update", val}})
				case 1:
					m.reqs = append(m.reqs, c08Req{Req: c08JSON("POST", "/db/tag/k0", map[string]interface{}{"tag": "t" + val}), Op: &c08Op{"db", "k0", "tag", "t" + val}})
				case 2:
					m.reqs = append(m.reqs, c08Req{Req: c08JSON("POST", "/mongo/update/m0", map[string]interface{}{"val": val}), Op: &c08Op{"mongo", "m0", "update", val}})
				case 3:
					m.reqs = append(m.reqs, c08Req{Req: c08JSON("POST", "/mongo/tag/m0", map[string]interface{}{"tag": "t" + val}), Op: &c08Op{"mongo", "m0", "tag", "t" + val}})
				case 4:
					m.reqs = append(m.reqs, c08Req{Req: HReq{M: "GET", P: "/db/get/k0"}, Op: &c08Op{"db", "k0", "read", ""}})
				default:
					m.reqs = append(m.reqs, c08Req{Req: HReq{M: "GET", P: "/mongo/find/m0"}, Op: &c08Op{"mongo", "m0", "read", ""}})
				}
				continue
			}
			if ttlKeys > 0 && i%3 == 0 {
				key := fmt.Sprintf("e%d", rng.Intn(ttlKeys))
				m.reqs = append(m.reqs, c08Req{Req: HReq{M: "GET", P: "/redis/get/" + key}, Op: &c08Op{"redis", key, "read", ""}})
				continue
			}
			if i%9 == 8 {
				key := freshKeys[rng.Intn(len(freshKeys))]
				m.reqs = append(m.reqs, c08Req{Req: HReq{M: "GET", P: "/ft/get/" + key}, Op: &c08Op{"db", key, "read", ""}})
				continue
			}
			if i%5 == 4 { // provider-free requests in the mix: they must not be disturbed either
				m.reqs = append(m.reqs, c08Pure(rng, i, false))
			} else {
				m.reqs = append(m.reqs, c08ProviderReq(rng, i, created))
			}
		}
		for _, q := range m.reqs {
			hj.Reqs = append(hj.Reqs, q.Req)
		}
		metas[id] = m
		jobs = append(jobs, hj)
		id++
	}
	// (2) generated mixes: a sequential twin and a concurrent run of the same module
	nGen := r.Pick(160, 5000)
	for j := 0; j < nGen; j++ {
		interp := j%2 == 0
		f := c02Core()
		if interp {
			f.UserFuncs, f.BuiltinsInterp, f.LogicRhsMayFail, f.EqIntFloat = true, true, true, true
		}
		seed := rng.Int63()
		src, cases := c02Module(seed, f, 8, func(i int) *gen.G { return gen.New(rand.New(rand.NewSource(seed+int64(i)*7919)), f) })
		seq := HJob{ID: id, Src: src, Interp: interp, WatchS: 60}
		for _, c := range cases {
			seq.Reqs = append(seq.Reqs, HReq{M: "GET", P: c.Req})
		}
		ms := &meta{kind: "gen-seq", src: src, interp: interp, nPerMod: len(cases)}
		for _, c := range cases {
			ms.progHash = append(ms.progHash, mon.Hash(c.Prog.Source(c.Pattern)))
		}
		metas[id] = ms
		jobs = append(jobs, seq)
		id++
		conc := seq
		conc.ID, conc.Conc, conc.Rounds = id, concs[j%len(concs)], 24
		metas[id] = &meta{kind: "gen-conc", pair: seq.ID, src: src, interp: interp, conc: conc.Conc, nPerMod: len(cases)}
		jobs = append(jobs, conc)
		id++
	}

	res, err := httpRun(r, jobs, HRunOpts{Tag: "c08", Parallel: 8, Timeout: 30 * time.Minute})
	if err != nil {
		fmt.Fprintln(os.Stderr, err)
		fmt.Println("BUILD-FAILED: cmd/glyph test binary with the HTTP worker")
		os.Exit(2)
	}
	overlapSeen := 0
	maxInFlight := 0
	interleavings := map[string]struct{}{}
	judge := func(jobs []HJob, res map[int]*HOut, tag string) {
		for _, hj := range jobs {
			m := metas[hj.ID]
			o := res[hj.ID]
			if o == nil {
				r.Inconclusive(fmt.Sprintf("C08: no result for %s job %d", m.kind, hj.ID))
				continue
			}
			wit := func(extra map[string]interface{}) map[string]interface{} {
				w := map[string]interface{}{"job_kind": m.kind, "build": tag, "concurrency": m.conc, "interpreted": m.interp, "source": m.src}
				for k, v := range extra {
					w[k] = v
				}
				return w
			}
			if o.Died != "" {
				r.Violate(tag+":process-died:"+o.Died, fmt.Sprintf("the server process died under %d-way concurrency (%s)", m.conc, o.Died), wit(map[string]interface{}{"death": o.Death}))
				continue
			}
			if o.Ev == "hang" {
				r.Violate(tag+":hang", "a request did not return under concurrency: "+o.Hang, wit(map[string]interface{}{"stacks": o.Stacks}))
				continue
			}
			if o.ParseErr != "" || o.SetupErr != "" {
				if m.kind == "gen-seq" || m.kind == "gen-conc" {
					r.Count("generated_modules_refused", 1)
					continue
				}
				r.Inconclusive("C08: directed module refused: " + o.ParseErr + o.SetupErr)
				continue
			}
			// in-flight statistics from the client-side timestamps
			if m.conc > 1 {
				type ev struct {
					t int64
					d int
				}
				var evs []ev
				for _, rs := range o.Resps {
					evs = append(evs, ev{rs.T0, 1}, ev{rs.T1, -1})
				}
				sort.Slice(evs, func(a, b int) bool { return evs[a].t < evs[b].t || (evs[a].t == evs[b].t && evs[a].d < evs[b].d) })
				cur := 0
				for _, e := range evs {
					cur += e.d
					if cur > maxInFlight {
						maxInFlight = cur
					}
					if cur >= 2 {
						overlapSeen++
					}
				}
			}
			switch m.kind {
			case "directed", "directed-compiled", "provider":
				// provider pre-phase must have worked
				for pi, p := range o.Pre {
					if p.S != 200 {
						r.Inconclusive(fmt.Sprintf("C08: set-up request %d answered %d", pi, p.S))
					}
				}
				byKey := map[string][]porcupine.Operation{}
				// pre-phase writes are part of the histories (they happen before everything)
				for pi, p := range o.Pre {
					if strings.HasPrefix(hj.Pre[pi].P, "/redis/setttl/") {
						continue // stored with a TTL that has run out before the main phase: the key is absent
					}
					var body map[string]interface{}
					json.Unmarshal([]byte(*hj.Pre[pi].B), &body)
					space, key := "db", fmt.Sprint(body["id"])
					if strings.HasPrefix(hj.Pre[pi].P, "/mongo") {
						space, key = "mongo", fmt.Sprint(body["k"])
					}
					byKey[space+":"+key] = append(byKey[space+":"+key], porcupine.Operation{ClientId: 0, Input: c08Op{space, key, "write", fmt.Sprint(body["val"])}, Output: c08Out{OK: true}, Call: p.T0, Return: p.T1})
				}
				for k, rs := range o.Resps {
					q := m.reqs[k%len(m.reqs)]
					if rs.Dropped {
						r.Violate(tag+":dropped", "a connection was dropped under concurrency: "+rs.Panic, wit(map[string]interface{}{"request": q.Req}))
						continue
					}
					if q.Expect != nil {
						r.Case(fmt.Sprintf("%s|%s|%d|%s", m.kind, tag, m.conc, q.Req.P), m.conc > 1)
						got := c08Decode(rs.B)
						if rs.S != 200 || !reflect.DeepEqual(got, interface{}(q.Expect)) {
							kind, _ := q.Expect["kind"].(string)
							sig := fmt.Sprintf("%s:%s:%s:status=%d", tag, m.kind, kind, rs.S)
							if rs.S == 200 {
								sig = fmt.Sprintf("%s:%s:%s:wrong-body", tag, m.kind, kind)
							}
							r.Violate(sig, fmt.Sprintf("under %d-way concurrency %s %s answered %d %s; alone it answers 200 %v", m.conc, q.Req.M, q.Req.P, rs.S, clipN(rs.B, 120), q.Expect),
								wit(map[string]interface{}{"request": q.Req, "expected": q.Expect, "status": rs.S, "body": rs.B}))
						}
						continue
					}
					op := q.Op
					r.Case(fmt.Sprintf("%s|%s|%d|%d|%s", m.kind, tag, hj.ID, k, q.Req.P), m.conc > 1)
					r.Count("provider_ops_"+op.Space+"_"+op.Kind, 1)
					if rs.S != 200 {
						r.Violate(fmt.Sprintf("%s:provider:%s:%s:status=%d", tag, op.Space, op.Kind, rs.S), fmt.Sprintf("under %d-way concurrency the provider operation %s %s failed with %d %s", m.conc, q.Req.M, q.Req.P, rs.S, clipN(rs.B, 100)),
							wit(map[string]interface{}{"request": q.Req, "status": rs.S, "body": rs.B}))
						continue
					}
					out, torn, perr := c08ParseOut(op, rs.B)
					if perr != nil {
						r.Violate(tag+":provider:undecodable", perr.Error(), wit(map[string]interface{}{"request": q.Req, "body": rs.B}))
						continue
					}
					if torn != "" {
						r.Violate(fmt.Sprintf("%s:provider:%s:torn-read", tag, op.Space), "a read observed a half-applied update: "+torn, wit(map[string]interface{}{"request": q.Req, "body": rs.B}))
						continue
					}
					key := op.Space + ":" + op.Key
					byKey[key] = append(byKey[key], porcupine.Operation{ClientId: 1 + k%1000, Input: *op, Output: out, Call: rs.T0, Return: rs.T1})
				}
				if tag != "plain" {
					continue // timestamps of the race build are as good, but one linearizability pass is enough
				}
				keys := make([]string, 0, len(byKey))
				for k := range byKey {
					keys = append(keys, k)
				}
				sort.Strings(keys)
				for _, key := range keys {
					ops := byKey[key]
					// overlap signature of this key's history
					over := 0
					for a := range ops {
						for b := a + 1; b < len(ops) && b < a+40; b++ {
							if ops[a].Call < ops[b].Return && ops[b].Call < ops[a].Return {
								over++
							}
						}
					}
					if over > 0 {
						interleavings[fmt.Sprintf("%d/%s/%d", hj.ID, key, over)] = struct{}{}
					}
					r.Count("porcupine_histories", 1)
					r.Count("porcupine_operations", len(ops))
					r.Count("porcupine_overlapping_pairs", over)
					resLin, info := porcupine.CheckOperationsVerbose(c08Model, ops, 60*time.Second)
					switch resLin {
					case porcupine.Illegal:
						_ = info
						var hist []string
						sort.Slice(ops, func(a, b int) bool { return ops[a].Call < ops[b].Call })
						for _, op := range ops {
							hist = append(hist, fmt.Sprintf("[%d,%d] %+v -> %+v", op.Call/1000, op.Return/1000, op.Input, op.Output))
						}
						if len(hist) > 160 {
							hist = hist[:160]
						}
						r.Violate(fmt.Sprintf("plain:provider:%s:not-linearizable", strings.SplitN(key, ":", 2)[0]), fmt.Sprintf("the history of %s under %d-way concurrency is not linearizable: some operation did not take effect atomically", key, m.conc),
							wit(map[string]interface{}{"key": key, "history(call_us,return_us)": hist}))
					case porcupine.Unknown:
						r.Inconclusive("porcupine timeout on " + key)
					}
				}
			case "gen-conc":
				seq := res[m.pair]
				ms := metas[m.pair]
				if seq == nil || seq.Died != "" || seq.ParseErr != "" || seq.SetupErr != "" || len(seq.Resps) != m.nPerMod {
					continue
				}
				for k, rs := range o.Resps {
					a := c02TripleOf(seq.Resps[k%m.nPerMod])
					b := c02TripleOf(rs)
					r.Case(fmt.Sprintf("gen|%s|%v", ms.progHash[k%m.nPerMod], m.interp), true)
					if !reflect.DeepEqual(a, b) {
						mode := "compiled"
						if m.interp {
							mode = "interpreted"
						}
						r.Violate(fmt.Sprintf("%s:generated:%s:alone=%d,concurrent=%d", tag, mode, a.Status, b.Status),
							fmt.Sprintf("generated route %s answers %d %v alone and %d %v under %d-way concurrency", hj.Reqs[k%m.nPerMod].P, a.Status, clipN(fmt.Sprint(a.Body), 80), b.Status, clipN(fmt.Sprint(b.Body), 80), m.conc),
							wit(map[string]interface{}{"request": hj.Reqs[k%m.nPerMod], "alone": a, "concurrent": b}))
					}
				}
			}
		}
	}
	judge(jobs, res, "plain")

	// (4) the directed and provider workloads once more under the Go race detector
	var rjobs []HJob
	perKind := map[string]int{}
	for _, hj := range jobs {
		k := metas[hj.ID].kind
		quota := map[string]int{"directed": r.Pick(3, 16), "directed-compiled": r.Pick(1, 6), "provider": r.Pick(6, 40)}[k]
		if perKind[k] < quota {
			perKind[k]++
			c := hj
			if len(c.Reqs) > 300 {
				c.Reqs = c.Reqs[:300]
			}
			rjobs = append(rjobs, c)
		}
	}
	// plus a few generated concurrent mixes
	ng := 0
	for _, hj := range jobs {
		if metas[hj.ID].kind == "gen-conc" && ng < r.Pick(6, 40) {
			c := hj
			c.Rounds = 6
			rjobs = append(rjobs, c)
			ng++
		}
	}
	logp := filepath.Join(mon.BuildDir(), "race", "C08")
	os.MkdirAll(filepath.Dir(logp), 0o755)
	if old, _ := filepath.Glob(logp + "*"); len(old) > 0 {
		for _, f := range old {
			os.Remove(f)
		}
	}
	rres, rerr := httpRun(r, rjobs, HRunOpts{Tag: "c08race", Parallel: 8, Timeout: 30 * time.Minute, Race: true, Env: []string{"GORACE=halt_on_error=0 log_path=" + logp}})
	if rerr != nil {
		r.Inconclusive("race build of the HTTP worker failed: " + rerr.Error())
	} else {
		// the truncated request lists keep their expectations (prefix of the same list)
		var djobs []HJob
		for _, hj := range rjobs {
			if metas[hj.ID].kind != "gen-conc" {
				djobs = append(djobs, hj)
			} else if o := rres[hj.ID]; o != nil && o.Died != "" {
				r.Violate("race-build:process-died:"+o.Died, "the server process (race build) died under concurrency", map[string]interface{}{"death": o.Death, "source": hj.Src})
			}
		}
		judge(djobs, rres, "race-build")
		blocks, total := mon.ParseRaceLogs(logp)
		r.Set("race_detector_jobs", len(rjobs))
		r.Set("race_reports_total", total)
		for _, b := range blocks {
			r.Violate("race:"+b.Key, "data race between concurrent requests: "+b.Entry[0]+" vs "+b.Entry[1], map[string]interface{}{"report": b.Text})
		}
	}

	r.Set("max_requests_in_flight_observed", maxInFlight)
	r.Set("request_events_with_at_least_two_in_flight", overlapSeen)
	r.Set("distinct_per_key_overlap_signatures", len(interleavings))
	r.Set("jobs", map[string]int{"directed": nDir, "provider": nProv, "generated_module_pairs": nGen, "race_detector": len(rjobs)})
	r.Sample(map[string]interface{}{"kind": "directed request with independently computed expectation", "request": metas[0].reqs[0].Req, "expected": metas[0].reqs[0].Expect})
	for _, hj := range jobs {
		if metas[hj.ID].kind == "provider" {
			var ops []interface{}
			for _, q := range metas[hj.ID].reqs[:12] {
				if q.Op != nil {
					ops = append(ops, q.Op)
				}
			}
			r.Sample(map[string]interface{}{"kind": "provider job (first operations; unique value per request)", "concurrency": hj.Conc, "pre": len(hj.Pre), "ops": ops})
			break
		}
	}
	for _, hj := range jobs {
		if metas[hj.ID].kind == "gen-conc" {
			r.Sample(map[string]interface{}{"kind": "generated module served alone and under concurrency", "concurrency": hj.Conc, "routes": len(hj.Reqs), "rounds": hj.Rounds, "first_request": hj.Reqs[0].P, "source_excerpt": clipN(hj.Src, 400)})
			break
		}
	}
	r.Rule = "one server (CLI wiring, one interpreter, one set of mock providers) per job, N goroutines issuing a fixed request list (N in {2,8,32,64}); (1) directed provider-free routes (recursion depth 40-110, generic functions with per-request type arguments, loops of 200-2700 iterations over locals, body/path/query echo with unique tokens) against expectations computed in Go; (2) generated 8-route modules (G-prog; interpreter with user functions, compiled core) — each request's answer under concurrency vs its answer alone on a fresh server; (3) provider operations (mock DB create/get/update/delete, Redis set/get/del/incr, MongoDB insert/find/update/delete) with a unique value per request, per-key porcupine check of the client-side call/return history + torn-record check; (4) the same jobs under the Go race detector. Non-trivial = issued with at least 2-way concurrency; distinct = by job kind, build, concurrency and request"
	r.Assume("sequential equivalence is asserted only for provider-free routes; provider routes are judged by linearizability (any legal order) and by 'no operation fails'")
	r.Assume("the race detector only reports races in code the workload reached; reports whose two stacks are not both in repository code are discarded")
	r.Floor(r.Pick(5000, 40000))
	r.Finish()
}
