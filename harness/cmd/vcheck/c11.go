package main

// C11 — Rate limits bound admitted traffic per client.
//
// Admission-bound checker over recorded timed histories on a virtual clock (the overlay
// replaces time.Now in pkg/server/middleware.go). No model of the implementation: for every
// client and every pair of admitted events i<=k, k-i+1 <= N*(1+(t_k-t_i)/window)+1; clients
// generated to stay within the rate must never see 429; each client's admissions must equal
// the ones it gets alone (isolation); forged forwarding headers must not change the bucket
// unless proxies are trusted. Observed at the CLI (`+ ratelimit(N/unit)` through the worker)
// and at the library middleware (incl. concurrent floods, also under the race detector).

import (
	"encoding/json"
	"fmt"
	"math/rand"
	"net/http"
	"net/http/httptest"
	"os"
	"path/filepath"
	"sort"
	"strings"
	"sync"
	"sync/atomic"
	"time"

	"github.com/glyphlang/glyph/pkg/server"

	"verifharness/mon"
)

func init() {
	checks["C11"] = checkC11
	workers["c11lib"] = c11LibWorker
}

type c11Ev struct {
	T      int64  `json:"t_ms"`
	Client string `json:"client"`
	XFF    string `json:"xff,omitempty"`
	Adm    bool   `json:"admitted"`
	Status int    `json:"status"`
	Ran    bool   `json:"body_ran"`
	Conf   bool   `json:"conforming_client,omitempty"`
}

var c11Windows = map[string]int64{"sec": 1000, "min": 60000, "hour": 3600000}

// c11History generates a timed request history for limit N per window (ms).
func c11History(rng *rand.Rand, n int, window int64) []c11Ev {
	var evs []c11Ev
	t := int64(1000)
	nclients := 1 + rng.Intn(4)
	length := 50 + rng.Intn(250)
	// a conforming client: at most N-1 at once, then spaced >= 1.05*window/N
	confGap := int64(float64(window)*1.05/float64(n)) + 1
	confNext := t
	confBurst := 0
	if n > 1 {
		confBurst = rng.Intn(n)
	}
	// a second conforming client with irregular spacing: intervals alternate 0.5 and 1.6
	// token periods (2 requests per 2.1 periods), which a limiter that forgets fractional
	// refill progress would starve
	period := float64(window) / float64(n)
	irrNext := float64(t)
	irrPhase := 0
	for len(evs) < length {
		if n >= 2 && period >= 4 {
			for b := 0; irrNext <= float64(t); b++ {
				if b >= 12 {
					irrNext = float64(t) + period
					break
				}
				evs = append(evs, c11Ev{T: int64(irrNext), Client: "10.9.9.8:5000", Conf: true})
				if irrPhase%2 == 0 {
					irrNext += 0.5*period + 1
				} else {
					irrNext += 1.6*period + 1
				}
				irrPhase++
			}
		}
		switch rng.Intn(10) {
		case 0: // long idle gap
			t += []int64{window, 5 * window, 24 * 3600000, window / 2}[rng.Intn(4)]
		case 1, 2: // burst from one client at one instant
			c := fmt.Sprintf("10.0.0.%d:4000", 1+rng.Intn(nclients))
			for k := rng.Intn(3 * n); k >= 0 && len(evs) < length+50; k-- {
				evs = append(evs, c11Ev{T: t, Client: c})
				if k > 300 {
					k = 300
				}
			}
		case 3: // steady stream at 2x the rate
			c := fmt.Sprintf("10.0.0.%d:4001", 1+rng.Intn(nclients))
			gap := window / int64(2*n)
			if gap < 1 {
				gap = 1
			}
			for k := 0; k < 10+rng.Intn(20); k++ {
				t += gap
				evs = append(evs, c11Ev{T: t, Client: c})
			}
		case 4: // forged forwarding headers from one address
			c := fmt.Sprintf("10.0.0.%d:4002", 1+rng.Intn(nclients))
			for k := 0; k < 1+rng.Intn(2*n+2) && k < 200; k++ {
				evs = append(evs, c11Ev{T: t, Client: c, XFF: fmt.Sprintf("203.0.113.%d", rng.Intn(250))})
			}
		default:
			t += rng.Int63n(window/int64(n)+2) + 1
			c := fmt.Sprintf("10.0.0.%d:%d", 1+rng.Intn(nclients), 4000+rng.Intn(50))
			evs = append(evs, c11Ev{T: t, Client: c})
		}
		// interleave the conforming client (a bounded number per step; after a long idle gap
		// it simply resumes at the current time, which keeps it within the rate)
		for burst := 0; confNext <= t; burst++ {
			if burst >= 12 || len(evs) > length+400 {
				confNext = t + confGap
				break
			}
			if confBurst > 0 {
				confBurst--
				evs = append(evs, c11Ev{T: confNext, Client: "10.9.9.9:5000", Conf: true})
				continue
			}
			evs = append(evs, c11Ev{T: confNext, Client: "10.9.9.9:5000", Conf: true})
			confNext += confGap + rng.Int63n(confGap/4+1)
		}
	}
	sort.SliceStable(evs, func(i, j int) bool { return evs[i].T < evs[j].T })
	return evs
}

func c11Host(c string) string {
	if i := strings.LastIndex(c, ":"); i > 0 {
		return c[:i]
	}
	return c
}

// c11Judge applies the oracle to one recorded history.
func c11Judge(violate func(sig, what string, wit interface{}), where string, n int, unit string, window int64, evs []c11Ev, alone map[string][]bool, trustProxy bool) {
	byClient := map[string][]int{}
	for i, e := range evs {
		id := c11Host(e.Client)
		if trustProxy && e.XFF != "" {
			id = e.XFF
		}
		byClient[id] = append(byClient[id], i)
	}
	wit := func(extra map[string]interface{}) map[string]interface{} {
		m := map[string]interface{}{"where": where, "limit": fmt.Sprintf("%d/%s", n, unit), "window_ms": window, "events": len(evs)}
		for k, v := range extra {
			m[k] = v
		}
		return m
	}
	for id, idx := range byClient {
		var adm []int
		for _, i := range idx {
			e := evs[i]
			if e.Adm {
				adm = append(adm, i)
			}
			if !e.Adm && e.Ran {
				violate("rejected-request-ran-body:"+where, fmt.Sprintf("%s %d/%s: a request answered %d still ran the route body", where, n, unit, e.Status), wit(map[string]interface{}{"event": e}))
			}
			if !e.Adm && e.Status != 429 {
				violate(fmt.Sprintf("unexpected-status:%s:%d", where, e.Status), fmt.Sprintf("%s %d/%s: a limited request was answered %d", where, n, unit, e.Status), wit(map[string]interface{}{"event": e}))
			}
			if e.Conf && !e.Adm {
				violate("conforming-client-rejected:"+where+":"+unit, fmt.Sprintf("%s %d/%s: a client that never exceeds the rate (<= N-1 at once, then one request per 1.05*window/N) got %d at t=%dms", where, n, unit, e.Status, e.T), wit(map[string]interface{}{"event": e, "client_events": c11Sub(evs, idx, 40)}))
				break
			}
		}
		// admission bound over every pair of admitted events
		for a := 0; a < len(adm); a++ {
			for b := a; b < len(adm); b++ {
				cnt := float64(b - a + 1)
				bound := float64(n)*(1+float64(evs[adm[b]].T-evs[adm[a]].T)/float64(window)) + 1
				if cnt > bound {
					violate(fmt.Sprintf("admission-bound-exceeded:%s:%s", where, unit), fmt.Sprintf("%s %d/%s: client %s was admitted %d requests within %d ms (bound N*(1+T/window)+1 = %.1f)", where, n, unit, id, b-a+1, evs[adm[b]].T-evs[adm[a]].T, bound),
						wit(map[string]interface{}{"client": id, "admitted": b - a + 1, "interval_ms": evs[adm[b]].T - evs[adm[a]].T, "first_event": evs[adm[a]]}))
					a, b = len(adm), len(adm)
				}
			}
		}
		// isolation: the same sub-history alone gives the same admissions
		if al, ok := alone[id]; ok && len(al) == len(idx) {
			for k, i := range idx {
				if al[k] != evs[i].Adm {
					violate("clients-interfere:"+where+":"+unit, fmt.Sprintf("%s %d/%s: request #%d of client %s is admitted=%v in the mixed history and admitted=%v when the client is alone", where, n, unit, k, id, evs[i].Adm, al[k]), wit(map[string]interface{}{"client": id}))
					break
				}
			}
		}
	}
	// identity: with untrusted proxies, forged headers must not create new buckets — covered by grouping by
	// RemoteAddr above: a forged header that opened a fresh bucket shows as an admission-bound violation.
}

func c11Sub(evs []c11Ev, idx []int, max int) []c11Ev {
	var out []c11Ev
	for _, i := range idx {
		if len(out) >= max {
			break
		}
		out = append(out, evs[i])
	}
	return out
}

// ---------------------------------------------------------------- library level

type c11LibCase struct {
	N       int    `json:"n"`
	Trust   bool   `json:"trust_proxy"`
	Trusted string `json:"trusted_proxies,omitempty"`
	Conc    bool   `json:"concurrent"`
}

var c11Clock atomic.Int64

func c11Serve(mw server.Middleware, ran *atomic.Int64, e c11Ev) (int, bool) {
	h := mw(func(ctx *server.Context) error {
		ran.Add(1)
		ctx.ResponseWriter.WriteHeader(200)
		return nil
	})
	req := httptest.NewRequest("GET", "/x", nil)
	req.RemoteAddr = e.Client
	if e.XFF != "" {
		req.Header.Set("X-Forwarded-For", e.XFF)
		req.Header.Set("X-Real-IP", e.XFF)
	}
	rec := httptest.NewRecorder()
	before := ran.Load()
	h(&server.Context{Request: req, ResponseWriter: rec, StatusCode: 200})
	return rec.Code, ran.Load() > before
}

func c11LibWorker(in, out string) {
	w := mon.OpenWorker(in, out)
	base := time.Date(2032, 1, 1, 0, 0, 0, 0, time.UTC)
	server.SetVerifNow(func() time.Time { return base.Add(time.Duration(c11Clock.Load()) * time.Millisecond) })
	for i := w.From; i < w.To; i++ {
		w.Begin(i)
		rng := w.Rand("lib", i)
		n := []int{1, 2, 5, 10, 60, 100}[rng.Intn(6)]
		trust := rng.Intn(3) == 0
		server.SetTrustedProxies(nil)
		if trust && rng.Intn(2) == 0 {
			server.SetTrustedProxies([]string{"192.0.2.77"}) // none of the clients: headers must be ignored
			trust = false
			w.Count("trusted_proxies_elsewhere", 1)
		}
		cfg := server.RateLimiterConfig{RequestsPerMinute: n, BurstSize: n, TrustProxy: trust || rng.Intn(9) == 0 && false}
		cfgTrust := cfg.TrustProxy
		window := int64(60000)
		if i%5 == 4 {
			// concurrent flood at one virtual instant
			mw := server.RateLimitMiddleware(cfg)
			var ran atomic.Int64
			c11Clock.Store(5000)
			var admitted atomic.Int64
			var wg sync.WaitGroup
			for g := 0; g < 32; g++ {
				wg.Add(1)
				go func() {
					defer wg.Done()
					for k := 0; k < 20; k++ {
						st, _ := c11Serve(mw, &ran, c11Ev{Client: "10.1.1.1:999"})
						if st == 200 {
							admitted.Add(1)
						}
					}
				}()
			}
			wg.Wait()
			// first-contact storms: many fresh clients, each hit by 16 requests released at the
			// same instant while the limiter has no entry for that client yet
			sn := []int{1, 1, 2, 3}[rng.Intn(4)]
			smw := server.RateLimitMiddleware(server.RateLimiterConfig{RequestsPerMinute: sn, BurstSize: sn})
			for c := 0; c < 60; c++ {
				client := fmt.Sprintf("10.9.%d.%d:4000", c/250, c%250+1)
				var sran, sadm atomic.Int64
				var gate atomic.Bool
				var swg sync.WaitGroup
				for g := 0; g < 16; g++ {
					swg.Add(1)
					go func() {
						defer swg.Done()
						for !gate.Load() {
						}
						if st, _ := c11Serve(smw, &sran, c11Ev{Client: client}); st == 200 {
							sadm.Add(1)
						}
					}()
				}
				gate.Store(true)
				swg.Wait()
				w.Count("first_contact_storms", 1)
				if int(sadm.Load()) > sn || sran.Load() != sadm.Load() {
					w.Violate("concurrent-first-contact-over-admitted:library", fmt.Sprintf("16 simultaneous first requests of one client with limit %d/min (burst %d): %d admitted, body ran %d times", sn, sn, sadm.Load(), sran.Load()), map[string]interface{}{"limit": sn, "client": client})
					break
				}
			}
			if i%10 == 4 {
				// a crowd between two bursts of one client: the client spends its bucket, 10 050 other addresses send one
				// request each within two (virtual) seconds, the client comes back. However the limiter bounds its
				// table, it may not hand a throttled client a fresh bucket inside the same window.
				cmw := server.RateLimitMiddleware(server.RateLimiterConfig{RequestsPerMinute: n, BurstSize: n})
				var cran atomic.Int64
				victim := "10.200.1.1:7000"
				c11Clock.Store(5000)
				first := 0
				for k := 0; k < n+2; k++ {
					if st, _ := c11Serve(cmw, &cran, c11Ev{Client: victim}); st == 200 {
						first++
					}
				}
				for k := 0; k < 10050; k++ {
					c11Clock.Store(5000 + int64(k)/5)
					c11Serve(cmw, &cran, c11Ev{Client: fmt.Sprintf("10.%d.%d.%d:6000", 100+k/62500, (k/250)%250, k%250+1)})
				}
				c11Clock.Store(7100)
				later := 0
				for k := 0; k < n+2; k++ {
					if st, _ := c11Serve(cmw, &cran, c11Ev{Client: victim}); st == 200 {
						later++
					}
				}
				bound := float64(n)*(1+2100.0/60000.0) + 1
				w.Count("crowd_scenarios", 1)
				if float64(first+later) > bound {
					w.Violate("over-admitted-after-a-crowd-of-other-clients:library", fmt.Sprintf("limit %d/min: the client was admitted %d times, then 10050 other addresses sent one request each, then it was admitted %d more times within 2.1 s (bound %.2f)", n, first, later, bound), map[string]interface{}{"limit": n, "first": first, "later": later})
				}
			}
			w.Count("concurrent_floods", 1)
			w.Case(fmt.Sprintf("flood-%d-%d", i, n), true)
			if int(admitted.Load()) > n || int(ran.Load()) != int(admitted.Load()) {
				w.Violate("concurrent-flood-over-admitted:library", fmt.Sprintf("640 concurrent requests at one instant with limit %d/min: %d admitted, body ran %d times", n, admitted.Load(), ran.Load()), map[string]interface{}{"limit": n})
			}
			continue
		}
		evs := c11History(rng, n, window)
		mw := server.RateLimitMiddleware(cfg)
		var ran atomic.Int64
		for k := range evs {
			c11Clock.Store(evs[k].T)
			st, didRun := c11Serve(mw, &ran, evs[k])
			evs[k].Status, evs[k].Ran, evs[k].Adm = st, didRun, st == 200
		}
		// isolation replay
		alone := map[string][]bool{}
		groups := map[string][]c11Ev{}
		for _, e := range evs {
			id := c11Host(e.Client)
			if cfgTrust && e.XFF != "" {
				id = e.XFF
			}
			groups[id] = append(groups[id], e)
		}
		for id, sub := range groups {
			mw2 := server.RateLimitMiddleware(cfg)
			var ran2 atomic.Int64
			for _, e := range sub {
				c11Clock.Store(e.T)
				st, _ := c11Serve(mw2, &ran2, e)
				alone[id] = append(alone[id], st == 200)
			}
		}
		c11Judge(w.Violate, "library", n, "min", window, evs, alone, cfgTrust)
		w.Case(mon.Hash(evs[:10])+fmt.Sprint(i), len(evs) >= 50)
		if i%97 == 0 {
			w.Sample(map[string]interface{}{"limit_per_min": n, "trust_proxy": cfgTrust, "first_events": evs[:6]})
		}
	}
	w.Done()
}

// ---------------------------------------------------------------- parent

func checkC11(tier string) {
	r := mon.New("C11", tier, "exploration")
	r.Rule = "timed request histories (50-300 events: bursts of up to 3N at one instant, steady streams at 2x the rate, random spacing, idle gaps up to a day, forged X-Forwarded-For/X-Real-IP, 1-4 clients plus one client that provably stays within the rate) on a virtual clock, against `+ ratelimit(N/unit)` for N in {1,2,5,10,100} x unit in {sec,min,hour} in both execution modes, and against the library middleware for N in {1..100}/min with TrustProxy / SetTrustedProxies variants; concurrent floods of 640 requests at one instant; distinct = history hash; non-trivial = >= 50 events"
	r.Assume("virtual clock: time.Now() in pkg/server/middleware.go is replaced at build time by an overlay copy; the two 60 s background tickers use the real clock and never fire in a run (stale-entry eviction by ticker is not reached)")
	// (1) CLI level through the worker
	type meta struct {
		n      int
		unit   string
		evs    []c11Ev
		mode   string
		alone  bool
		client string
	}
	var jobs []HJob
	metas := map[int]*meta{}
	rng := r.Rand("cli")
	nh := r.Pick(12, 200)
	for _, unit := range []string{"sec", "min", "hour"} {
		for _, n := range []int{1, 2, 5, 10, 100} {
			src := fmt.Sprintf("@ GET /lim {\n  + ratelimit(%d/%s)\n  > {marker: \"BODY-RAN\"}\n}\n", n, unit)
			for h := 0; h < nh; h++ {
				evs := c11History(rng, n, c11Windows[unit])
				mode := []string{"compiled", "interpreted"}[h%2]
				mk := func(sub []c11Ev) []HReq {
					var reqs []HReq
					for _, e := range sub {
						rq := HReq{M: "GET", P: "/lim", Remote: e.Client, T: e.T}
						if e.XFF != "" {
							rq.H = map[string][]string{"X-Forwarded-For": {e.XFF}, "X-Real-IP": {e.XFF}}
						}
						reqs = append(reqs, rq)
					}
					return reqs
				}
				id := len(jobs)
				metas[id] = &meta{n: n, unit: unit, evs: evs, mode: mode}
				jobs = append(jobs, HJob{ID: id, Src: src, Interp: mode == "interpreted", Reqs: mk(evs)})
				groups := map[string][]c11Ev{}
				for _, e := range evs {
					groups[c11Host(e.Client)] = append(groups[c11Host(e.Client)], e)
				}
				for c, sub := range groups {
					id := len(jobs)
					metas[id] = &meta{n: n, unit: unit, evs: sub, mode: mode, alone: true, client: c}
					jobs = append(jobs, HJob{ID: id, Src: src, Interp: mode == "interpreted", Reqs: mk(sub)})
				}
			}
		}
	}
	res, err := httpRun(r, jobs, HRunOpts{Tag: "c11"})
	if err != nil {
		r.Inconclusive("cannot build the HTTP worker: " + err.Error())
		r.Finish()
	}
	fill := func(m *meta, out *HOut) bool {
		if out == nil || out.Died != "" || out.ParseErr != "" || out.SetupErr != "" || len(out.Resps) != len(m.evs) {
			return false
		}
		for k := range m.evs {
			rs := out.Resps[k]
			m.evs[k].Status, m.evs[k].Ran, m.evs[k].Adm = rs.S, strings.Contains(rs.B, "BODY-RAN"), rs.S == 200
		}
		return true
	}
	// collect the alone replays that follow each mixed history
	ids := make([]int, 0, len(metas))
	for id := range metas {
		ids = append(ids, id)
	}
	sort.Ints(ids)
	for _, id := range ids {
		m := metas[id]
		if m.alone {
			continue
		}
		if !fill(m, res[id]) {
			msg := "no result"
			if res[id] != nil {
				msg = res[id].Died + res[id].ParseErr + res[id].SetupErr
			}
			r.Violate("server-failed:cli", fmt.Sprintf("%d/%s: the rate-limited module did not serve: %s", m.n, m.unit, msg), nil)
			continue
		}
		alone := map[string][]bool{}
		for j := id + 1; metas[j] != nil && metas[j].alone; j++ {
			if fill(metas[j], res[j]) {
				for _, e := range metas[j].evs {
					alone[metas[j].client] = append(alone[metas[j].client], e.Adm)
				}
			}
		}
		c11Judge(r.Violate, "cli-"+m.mode, m.n, m.unit, c11Windows[m.unit], m.evs, alone, false)
		r.Case(mon.Hash(m.evs[:8])+fmt.Sprint(id), len(m.evs) >= 50)
		adm := 0
		for _, e := range m.evs {
			if e.Adm {
				adm++
			}
		}
		r.Count("cli_events", len(m.evs))
		r.Count("cli_admitted", adm)
		if id == 0 {
			r.Sample(map[string]interface{}{"limit": fmt.Sprintf("%d/%s", m.n, m.unit), "first_events": m.evs[:8]})
		}
	}
	// (2) library level, plain and under the race detector
	nl := r.Pick(1500, 40000)
	onDeath := func(i int, co mon.ChildOut, hang *mon.Rec) bool {
		r.Violate("library-worker-died:"+co.Death, mon.PanicExcerpt(co.Tail, 10), map[string]interface{}{"case": i})
		return true
	}
	r.RunBatch(mon.Batch{Worker: "c11lib", N: nl, Chunk: (nl + 7) / 8, Parallel: 8, OnDeath: onDeath, Timeout: 20 * time.Minute})
	if raceBin, err := mon.BuildSelf("vcheck.race", "-race"); err == nil {
		logp := filepath.Join(mon.BuildDir(), "race", "C11")
		os.MkdirAll(filepath.Dir(logp), 0o755)
		old, _ := filepath.Glob(logp + "*")
		for _, f := range old {
			os.Remove(f)
		}
		nr := r.Pick(60, 2000)
		r.RunBatch(mon.Batch{Worker: "c11lib", Tag: "race", Bin: raceBin, N: nr, Chunk: (nr + 7) / 8, Parallel: 8, OnDeath: onDeath, Timeout: 20 * time.Minute, Env: []string{"GORACE=halt_on_error=0 log_path=" + logp}})
		blocks, total := mon.ParseRaceLogs(logp)
		r.Set("race_reports_total", total)
		for _, b := range blocks {
			r.Violate("race:"+b.Key, "data race in the rate limiter: "+b.Entry[0]+" vs "+b.Entry[1], map[string]interface{}{"report": b.Text})
		}
	} else {
		r.Inconclusive("race build failed: " + err.Error())
	}
	r.Floor(100)
	r.Finish()
}

var _ = json.Marshal
var _ = http.StatusOK
