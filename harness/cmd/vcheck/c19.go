package main

// C19 — A failed reload never takes the dev server down.
//
// Edit-sequence monitor with version markers. Every file version answers GET /version with
// its own marker, so whatever the dev port says identifies the version that is serving.
// Model: `current` = marker of the most recent edit whose content loads when a server is
// built from it cold (the same buildDevServer `glyph dev` runs at start-up); an edit that
// does not load cold must leave `current` untouched and the port answering at all times.
//
// Three observation points:
//   1. the CLI's hotReloadManager in an overlay worker (reload() called directly, and its
//      own fsnotify watcher reacting to real file writes), probed over loopback after each
//      edit and continuously by a background prober;
//   2. the real `glyph dev` process built from the working tree, edits written to disk;
//   3. the library ReloadManager (pkg/hotreload) with a real compiler and a recording
//      server: handleChanges with crafted change sets, and a real FileWatcher.

import (
	"bufio"
	"encoding/json"
	"fmt"
	"io"
	"math/rand"
	"net"
	"net/http"
	"os"
	"os/exec"
	"path/filepath"
	"sort"
	"strings"
	"sync"
	"sync/atomic"
	"syscall"
	"time"

	"verifharness/mon"
)

func init() {
	checks["C19"] = checkC19
	prewarms = append(prewarms, func() {
		if _, err := c19LibBin(); err != nil {
			fmt.Fprintln(os.Stderr, "prewarm hotreload.test:", err)
		}
		if _, err := c19LibRaceBin(); err != nil {
			fmt.Fprintln(os.Stderr, "prewarm hotreload.race.test:", err)
		}
	})
}

// ---- edit alphabet ---------------------------------------------------------

type c19Edit struct {
	Kind    string `json:"kind"`
	Content string `json:"content"`
	Style   string `json:"style"`
	GapMs   int    `json:"gap_ms,omitempty"`
	// library level only
	Others []string `json:"others,omitempty"`
	After  []string `json:"after,omitempty"`
	Reject bool     `json:"reject,omitempty"`
}

// classes by construction: "load" must load, "fail" cannot load, "cold" = whatever a cold
// start of the same content does (decided by the worker, not by this file)
var c19Class = map[string]string{
	"valid": "load", "valid-same-stat": "load", "valid-interp": "load", "valid-ws": "load", "recreate": "load", "atomic": "load", "trunc": "load",
	"parse": "fail", "delete": "fail", "unreadable": "fail",
	"garbage": "cold", // random bytes: one in a few thousand samples happens to load (as an application without /version)
	"semantic": "cold", "ws-conflict": "cold", "live-conflict": "cold", "static-conflict": "cold", "static-ok": "cold", "empty": "cold", "comment": "cold", "noversion": "cold",
}

func c19Marker(k int) string { return fmt.Sprintf(`{"v":%d}`, k) }

// c19Content builds the file content of edit number k (unique per job) of the given kind.
func c19Content(kind string, k int, rng *rand.Rand) string {
	head := fmt.Sprintf("# marker: %s\n# edit %d %08x\n", c19Marker(k), k, rng.Uint32())
	version := fmt.Sprintf("@ GET /version {\n  > {v: %d}\n}\n", k)
	// every version also declares an input contract of its own: the serving version must keep
	// accepting ITS conforming body whatever later edits (that do not load) declare
	typed := fmt.Sprintf("\n: Payload {\n  f%d: str!\n}\n\n@ POST /typed {\n  < input: Payload\n  > {typed: %d}\n}\n", k, k)
	typedOther := fmt.Sprintf("\n: Payload {\n  g%d: int!\n}\n\n@ POST /typed {\n  < input: Payload\n  > {typed: %d}\n}\n", k, k)
	extra := ""
	for i, n := 0, rng.Intn(3); i < n; i++ {
		extra += fmt.Sprintf("\n@ GET /r%d_%d/:id {\n  $ a = %d\n  > {id: id, a: a + %d}\n}\n", k, i, rng.Intn(100), i)
	}
	switch kind {
	case "valid", "recreate", "atomic", "trunc", "valid-same-stat":
		return head + version + typed + extra
	case "valid-interp":
		return head + fmt.Sprintf("@ GET /version {\n  %% db: Database\n  > {v: %d}\n}\n", k) + typed + extra
	case "valid-ws":
		return head + version + typed + fmt.Sprintf("\n@ ws /chat%d {\n  on message {\n    ws.send(\"x\")\n  }\n}\n", k) + extra
	case "parse":
		switch rng.Intn(4) {
		case 0:
			return head + fmt.Sprintf("@ GET /version {\n  > {v: %d\n", k) // missing braces
		case 1:
			return head + fmt.Sprintf("@ GET /version {\n  > {v: \"%d}\n}\n", k) // unterminated string
		case 2:
			return head + version + "\n@ GET /broken {\n  $ = = 3\n}\n"
		}
		return head + version + "\n}}}}\n"
	case "garbage":
		b := make([]byte, 20+rng.Intn(60))
		for i := range b {
			b[i] = byte(rng.Intn(256))
		}
		return fmt.Sprintf("# edit %d\n@ GET /version { > {v: %d} ", k, k) + string(b) + "\x00\"{{{"
	case "semantic":
		if rng.Intn(2) == 0 {
			return head + version + typedOther + fmt.Sprintf("\n@ GET /bad%d {\n  $ x = 1\n  $ x = 2\n  > x\n}\n", k)
		}
		return head + version + typedOther + fmt.Sprintf("\n@ GET /bad%d {\n  nope = 2\n  > 1\n}\n", k)
	case "ws-conflict":
		ws := "@ ws /chat {\n  on message {\n    ws.send(\"x\")\n  }\n}\n"
		return head + version + typedOther + "\n" + ws + "\n" + ws
	case "static-conflict":
		// two static mounts that end up on the same mux pattern (the directory exists: it is the file's own)
		st := []string{"@ static /assets \".\"\n\n@ static /assets \".\"\n", "@ static /files \".\"\n\n@ static /files/ \".\"\n"}[rng.Intn(2)]
		return head + version + typedOther + "\n" + st
	case "static-ok":
		return head + version + typed + "\n@ static /assets \".\"\n"
	case "live-conflict":
		return head + version + typedOther + "\n@ ws /__livereload {\n  on message {\n    ws.send(\"x\")\n  }\n}\n"
	case "empty":
		return ""
	case "comment":
		return fmt.Sprintf("# only a comment, edit %d %08x\n", k, rng.Uint32())
	case "noversion":
		return fmt.Sprintf("# edit %d %08x\n@ GET /other%d {\n  > {o: %d}\n}\n", k, rng.Uint32(), k, k)
	}
	return ""
}

func c19MkEdit(kind string, k int, rng *rand.Rand) c19Edit {
	e := c19Edit{Kind: kind, Style: "write"}
	switch kind {
	case "delete":
		e.Style = "delete"
		return e
	case "unreadable":
		e.Style = "mkdir" // a directory in the file's place: it exists but cannot be read
		return e
	case "recreate":
		e.Style = "recreate"
		e.GapMs = []int{0, 1, 30, 160}[rng.Intn(4)]
	case "atomic":
		e.Style = "atomic"
	case "valid-same-stat":
		e.Style = "same-stat" // written with the byte length and the modification time of the file it replaces (cp -p, rsync -t)
	case "trunc":
		e.Style = "trunc-write"
		e.GapMs = []int{0, 5, 60, 180}[rng.Intn(4)]
	}
	e.Content = c19Content(kind, k, rng)
	return e
}

// markerOf returns the body GET /version answers with when this content is loaded ("" =
// the content declares no /version route: the port must answer 404).
func c19MarkerOf(content string) string {
	const tag = "# marker: "
	if strings.HasPrefix(content, tag) {
		if i := strings.IndexByte(content, '\n'); i > 0 {
			return strings.TrimSpace(content[len(tag):i])
		}
	}
	return ""
}

// ---- CLI level (overlay worker) ---------------------------------------------

type c19DevJob struct {
	ID      int       `json:"id"`
	Mode    string    `json:"mode"`
	SSE     bool      `json:"sse,omitempty"`
	Initial string    `json:"initial"`
	Edits   []c19Edit `json:"edits"`
	BoundMs int       `json:"bound_ms"`
	Settle  int       `json:"settle_ms"`
}

type c19Probe struct {
	T0   int64  `json:"t0"`
	T1   int64  `json:"t1"`
	S    int    `json:"s"`
	B    string `json:"b,omitempty"`
	Err  string `json:"err,omitempty"`
	Keep bool   `json:"keep,omitempty"`
}

type c19Step struct {
	Edit     int        `json:"edit"`
	Cold     string     `json:"cold"`
	ColdErr  string     `json:"cold_err,omitempty"`
	TWrite   int64      `json:"t_write"`
	TCall    int64      `json:"t_call,omitempty"`
	TRet     int64      `json:"t_ret,omitempty"`
	After    []c19Probe `json:"after,omitempty"`
	Final    c19Probe   `json:"final"`
	Attempts int        `json:"attempts"`
	Late     *c19Probe  `json:"late,omitempty"`
	Typed    *c19Probe  `json:"typed,omitempty"` // POST /typed with the conforming body of the version that answered Final
}

type c19DevOut struct {
	ID       int        `json:"id"`
	StartErr string     `json:"start_err,omitempty"`
	First    c19Probe   `json:"first"`
	Steps    []c19Step  `json:"steps"`
	Bg       []c19Probe `json:"bg,omitempty"`
	Logs     []struct {
		T    int64  `json:"t"`
		Line string `json:"line"`
	} `json:"logs,omitempty"`
	SSEEvents int  `json:"sse_events,omitempty"`
	SSEOpen   bool `json:"sse_open,omitempty"`
}

// what the port says, reduced to a version identity
func (p c19Probe) ident() string {
	if p.Err != "" {
		return "down"
	}
	if p.S == 200 {
		return "v:" + p.B
	}
	if p.S == 404 {
		return "noroute"
	}
	return fmt.Sprintf("status-%d", p.S)
}

func c19Ident(marker string) string {
	if marker == "" {
		return "noroute"
	}
	return "v:" + marker
}

// c19Transients: identities a non-atomic write may legitimately expose for a moment. A
// truncated-then-completed write shows the watcher an empty file and then the first half
// of the content; either may load (an empty or comment-only file is an application
// without routes), and then it IS the most recent version that loaded.
func c19Transients(e *c19Edit) []string {
	switch e.Style {
	case "trunc-write":
		return []string{"noroute", c19Ident(c19MarkerOf(e.Content[:len(e.Content)/2] + "\n"))}
	}
	return nil
}

func c19Kinds(edits []c19Edit) string {
	var s []string
	for _, e := range edits {
		s = append(s, e.Kind)
	}
	return strings.Join(s, ",")
}

type c19Witness struct {
	Level    string      `json:"level"`
	Mode     string      `json:"mode"`
	Sequence string      `json:"edit_sequence"`
	Step     int         `json:"step"`
	Expected string      `json:"expected"`
	Observed string      `json:"observed"`
	Detail   interface{} `json:"detail,omitempty"`
	Job      interface{} `json:"job,omitempty"`
}

// c19JudgeDev applies the continuity oracle to one CLI-level job.
func c19JudgeDev(r *mon.Run, level string, job *c19DevJob, out *c19DevOut) {
	seq := c19Kinds(job.Edits)
	viol := func(step int, sig, what, exp, obs string, detail interface{}) {
		r.Violate(fmt.Sprintf("%s:%s:%s", level, job.Mode, sig), what,
			c19Witness{Level: level, Mode: job.Mode, Sequence: seq, Step: step, Expected: exp, Observed: obs, Detail: detail, Job: job})
	}
	if out.StartErr != "" {
		r.Inconclusive("C19: initial version did not start: " + out.StartErr)
		return
	}
	cur := c19Ident(c19MarkerOf(job.Initial))
	if out.First.ident() != cur {
		viol(-1, "initial-version-not-served", "the dev server does not answer with the initial version after start-up", cur, out.First.ident(), out.First)
		return
	}
	// allowed identities per step, for the background prober
	type window struct {
		from, to int64
		allowed  map[string]bool
		failed   bool
	}
	var wins []window
	stateBefore := []string{cur}
	burstTransient := map[string]bool{}
	loaded := map[string]bool{cur: true} // identities of versions that could be serving (burst mode)
	anyLoad := false
	for i := range out.Steps {
		st := &out.Steps[i]
		e := &job.Edits[i]
		class := c19Class[e.Kind]
		if class == "load" && st.Cold != "load" {
			r.Inconclusive(fmt.Sprintf("C19 generator: a %q edit does not load cold (%s): %s", e.Kind, st.Cold, st.ColdErr))
			return
		}
		if class == "fail" && st.Cold == "load" {
			r.Inconclusive(fmt.Sprintf("C19 generator: a %q edit loads cold", e.Kind))
			return
		}
		r.Count("edits_"+st.Cold, 1)
		r.Count("edit_kind_"+e.Kind, 1)
		if job.Mode == "burst" {
			for _, t := range c19Transients(e) {
				loaded[t] = true
			}
			if i > 0 && (e.Style == "write" || e.Style == "recreate") {
				// a reload triggered by an earlier edit may read the file while this
				// non-atomic write has it truncated: an empty application, briefly
				burstTransient["noroute"] = true
			}
		}
		prev := cur
		exp := cur
		if st.Cold == "load" {
			exp = c19Ident(c19MarkerOf(e.Content))
			anyLoad = true
			loaded[exp] = true
		}
		switch job.Mode {
		case "reload":
			all := append(append([]c19Probe{}, st.After...), st.Final)
			up := false
			for pi, p := range all {
				id := p.ident()
				if id == "down" && st.Cold == "load" && !up && pi < len(all)-2 {
					// listener of the new server not accepting yet: tolerated right after a
					// successful reload, as long as it comes up within the attempt bound
					r.Count("refused_right_after_successful_reload(retried)", 1)
					continue
				}
				if id != "down" {
					up = true
				}
				if id != exp {
					sig, what := "", ""
					switch {
					case st.Cold != "load" && id == "down":
						sig, what = "down-after-failed-reload", fmt.Sprintf("after a %s edit that does not load, reload() returned and the port does not answer", e.Kind)
					case st.Cold != "load":
						sig, what = "changed-by-failed-reload", fmt.Sprintf("after a %s edit that does not load, the port answers with something else than the previous version", e.Kind)
					case id == "down":
						sig, what = "down-after-valid-reload", fmt.Sprintf("after a loadable %s edit, reload() returned and the port does not answer", e.Kind)
					case id == prev:
						sig, what = "valid-edit-not-served", fmt.Sprintf("after a loadable %s edit, reload() returned and the port still answers with the previous version", e.Kind)
					default:
						sig, what = "wrong-version", fmt.Sprintf("after a loadable %s edit the port answers with neither the new nor the previous version", e.Kind)
					}
					viol(i, sig, what, exp, id, map[string]interface{}{"probe": p, "cold": st.Cold, "cold_err": st.ColdErr, "logs": out.Logs})
					return
				}
			}
			w := window{from: st.TCall, to: st.TRet, failed: st.Cold != "load", allowed: map[string]bool{prev: true, exp: true}}
			if !w.failed {
				w.allowed["down"] = true // the restart window of a successful reload
				w.to = st.Final.T1       // ... which ends when the new listener has answered
			}
			wins = append(wins, w)
		case "watch":
			if st.Cold != "load" {
				for _, p := range st.After {
					if id := p.ident(); id != exp {
						sig := "changed-by-failed-edit"
						if id == "down" {
							sig = "down-after-failed-edit"
						}
						viol(i, sig, fmt.Sprintf("while the watcher handled a %s edit that does not load, the port stopped answering with the previous version", e.Kind), exp, id,
							map[string]interface{}{"probe": p, "cold_err": st.ColdErr, "logs": out.Logs})
						return
					}
				}
				wins = append(wins, window{from: st.TWrite, to: st.Final.T1, failed: true, allowed: map[string]bool{exp: true}})
			} else {
				seenNew := false
				trans := map[string]bool{}
				for _, t := range c19Transients(e) {
					trans[t] = true
				}
				for _, p := range st.After {
					id := p.ident()
					switch {
					case id == exp:
						seenNew = true
					case trans[id] && !seenNew:
					case id == prev || id == "down":
						if seenNew && id == prev && prev != exp {
							viol(i, "version-went-backwards", "after the new version had answered, the previous one answered again", exp, id, p)
							return
						}
					default:
						viol(i, "wrong-version", fmt.Sprintf("while a loadable %s edit was being picked up the port answered with neither the old nor the new version", e.Kind), exp, id, p)
						return
					}
				}
				if st.Final.ident() != exp {
					if st.Late != nil && st.Late.ident() == exp {
						r.Inconclusive(fmt.Sprintf("C19 %s: a valid edit was served only after the bound of %d ms (slow machine?)", level, job.BoundMs))
						return
					}
					obs := st.Final.ident()
					if st.Late != nil {
						obs = st.Late.ident()
					}
					sig := "valid-edit-not-served"
					if obs == "down" {
						sig = "down-after-valid-edit"
					}
					viol(i, sig, fmt.Sprintf("a loadable %s edit (%s) was written and %d ms + %d ms later the port still does not answer with it", e.Kind, e.Style, job.BoundMs, 4*job.BoundMs),
						exp, obs, map[string]interface{}{"final": st.Final, "late": st.Late, "attempts": st.Attempts, "logs": out.Logs})
					return
				}
				w := window{from: st.TWrite, to: st.Final.T1, allowed: map[string]bool{prev: true, exp: true, "down": true}}
				for t := range trans {
					w.allowed[t] = true
				}
				wins = append(wins, w)
			}
		case "burst":
			if i == len(out.Steps)-1 {
				fin := st.Final.ident()
				if st.Late != nil {
					fin = st.Late.ident()
				}
				if st.Cold == "load" {
					if fin != exp {
						if st.Late != nil && st.Late.ident() == exp {
							r.Inconclusive(fmt.Sprintf("C19 %s: burst converged only after the bound", level))
							return
						}
						sig := "valid-edit-not-served"
						if fin == "down" {
							sig = "down-after-valid-edit"
						}
						viol(i, sig, "after a burst of edits ending in a loadable version the port does not answer with that version", exp, fin,
							map[string]interface{}{"final": st.Final, "late": st.Late, "logs": out.Logs})
						return
					}
				} else if !loaded[fin] && !burstTransient[fin] {
					sig := "wrong-version"
					if fin == "down" {
						sig = "down-after-failed-edit"
					}
					viol(i, sig, "after a burst of edits ending in a version that does not load the port answers with none of the versions that loaded", "one of the loaded versions", fin,
						map[string]interface{}{"final": st.Final, "logs": out.Logs})
					return
				}
			}
		}
		if st.Typed != nil && strings.HasPrefix(st.Final.ident(), "v:") {
			var fv struct {
				V int `json:"v"`
			}
			json.Unmarshal([]byte(st.Final.B), &fv)
			want := fmt.Sprintf(`{"typed":%d}`, fv.V)
			r.Count("typed_contract_probes", 1)
			if st.Typed.Err == "" && (st.Typed.S != 200 || st.Typed.B != want) && !(job.Mode == "burst") {
				viol(i, "serving-version-rejects-its-own-contract", fmt.Sprintf("after a %s edit the port serves version %d, but POST /typed with the body that version's input type requires is answered %d %s", e.Kind, fv.V, st.Typed.S, clipN(st.Typed.B, 120)),
					want, fmt.Sprintf("%d %s", st.Typed.S, clipN(st.Typed.B, 120)), map[string]interface{}{"cold": st.Cold, "cold_err": st.ColdErr, "edit_declares": "another Payload type", "logs": out.Logs})
				return
			}
		}
		cur = exp
		if job.Mode != "burst" {
			stateBefore = append(stateBefore, cur)
		}
	}
	// background prober
	nbg := 0
	for _, p := range out.Bg {
		id := p.ident()
		nbg++
		if job.Mode == "burst" {
			if loaded[id] || burstTransient[id] || (id == "down" && anyLoad && len(out.Steps) > 0 && p.T1 >= out.Steps[0].TWrite) {
				continue
			}
			sig := "wrong-version"
			if id == "down" {
				sig = "down-during-failed-edits"
			}
			viol(-1, "bg-"+sig, "a request made during a burst of edits was answered by none of the versions that loaded (or not at all although no edit could load)", "one of the loaded versions", id, p)
			return
		}
		// allowed = what any overlapped reload window allows, plus the serving version of
		// any overlapped gap between windows (stateBefore[k] = version after step k-1)
		states := map[string]bool{}
		overlapped := false
		overlappedFailed := false
		gapState := ""
		for k := 0; k <= len(wins); k++ {
			gapStart, gapEnd := int64(-1<<62), int64(1<<62)
			if k > 0 {
				gapStart = wins[k-1].to
			}
			if k < len(wins) {
				gapEnd = wins[k].from
			}
			if p.T0 < gapEnd && p.T1 > gapStart {
				states[stateBefore[k]] = true
				gapState = stateBefore[k]
			}
			if k < len(wins) && p.T0 <= wins[k].to && p.T1 >= wins[k].from {
				overlapped = true
				if wins[k].failed {
					overlappedFailed = true
				}
				for a := range wins[k].allowed {
					states[a] = true
				}
			}
		}
		ok := states[id]
		if gapState == "" {
			for a := range states {
				if a != "down" {
					gapState = a
				}
			}
		}
		if !ok {
			sig := "bg-wrong-version"
			what := "a request made between reloads was not answered by the version that should be serving"
			if id == "down" {
				sig = "bg-down"
				what = "a request made while no successful reload was in progress found the port not answering"
				if overlappedFailed {
					sig = "bg-down-during-failed-reload"
					what = "a request made while an edit that does not load was being handled found the port not answering"
				}
			}
			viol(-1, sig, what, gapState, id, map[string]interface{}{"probe": p, "overlapped_reload_window": overlapped, "logs": out.Logs})
			return
		}
	}
	r.Count("bg_probes", nbg)
	if out.SSEOpen {
		r.Count("jobs_with_sse_client_connected", 1)
		r.Count("sse_reload_events_received", out.SSEEvents)
	}
	for _, l := range out.Logs {
		if strings.Contains(l.Line, "reload failed") {
			r.Count("log_reload_failed_lines", 1)
		} else if strings.Contains(l.Line, "Hot reload complete") {
			r.Count("log_reload_complete_lines", 1)
		}
	}
}

// ---- library level -------------------------------------------------------------

type c19LibJob struct {
	ID      int       `json:"id"`
	Mode    string    `json:"mode"`
	Initial string    `json:"initial"`
	Edits   []c19Edit `json:"edits"`
	BoundMs int       `json:"bound_ms"`
	Settle  int       `json:"settle_ms"`
}

type c19LibCall struct {
	Op    string `json:"op"`
	Hash  string `json:"hash,omitempty"`
	OK    bool   `json:"ok"`
	Token string `json:"token,omitempty"`
}

type c19LibEvent struct {
	Success bool   `json:"success"`
	HasErr  bool   `json:"has_err"`
	Count   int    `json:"count"`
	Err     string `json:"err,omitempty"`
}

type c19LibStep struct {
	Edit      int           `json:"edit"`
	ExpHash   string        `json:"exp_hash"`
	Calls     []c19LibCall  `json:"calls"`
	Events    []c19LibEvent `json:"events"`
	Current   string        `json:"current"`
	StateTok  string        `json:"state_token"`
	Converged bool          `json:"converged"`
	Late      string        `json:"late_current,omitempty"`
	Panic     string        `json:"panic,omitempty"`
	ErrCalls  int           `json:"error_handler_calls"`
	Stats     int           `json:"stats_count"`
}

type c19LibOut struct {
	ID      int          `json:"id"`
	InitOK  bool         `json:"init_ok"`
	Initial string       `json:"initial_hash"`
	Steps   []c19LibStep `json:"steps"`
}

func c19JudgeLib(r *mon.Run, job *c19LibJob, out *c19LibOut) {
	seq := c19Kinds(job.Edits)
	viol := func(step int, sig, what, exp, obs string, detail interface{}) {
		r.Violate("lib:"+job.Mode+":"+sig, what, c19Witness{Level: "library ReloadManager", Mode: job.Mode, Sequence: seq, Step: step, Expected: exp, Observed: obs, Detail: detail, Job: job})
	}
	if !out.InitOK {
		r.Inconclusive("C19 library: initial version does not compile / watcher did not start")
		return
	}
	cur := out.Initial
	lastCount := 0
	valid := map[string]bool{cur: true}
	for i := range out.Steps {
		st := &out.Steps[i]
		e := &job.Edits[i]
		if st.Panic != "" {
			viol(i, "panic", "handleChanges panicked", "no panic", st.Panic, st)
			return
		}
		loads := st.ExpHash != "" && !e.Reject && e.Kind != "nonglyph-only"
		class := c19Class[e.Kind]
		if class == "load" && st.ExpHash == "" {
			r.Inconclusive(fmt.Sprintf("C19 generator: a %q edit does not compile", e.Kind))
			return
		}
		if class == "fail" && st.ExpHash != "" {
			r.Inconclusive(fmt.Sprintf("C19 generator: a %q edit compiles", e.Kind))
			return
		}
		if loads {
			r.Count("lib_edits_load", 1)
			valid[st.ExpHash] = true
		} else {
			r.Count("lib_edits_fail", 1)
		}
		// invariants over the call trace, every mode: a reload only ever gets the bytecode
		// the immediately preceding successful compilation returned
		lastCompile := ""
		for _, c := range st.Calls {
			switch c.Op {
			case "compile":
				lastCompile = ""
				if c.OK {
					lastCompile = c.Hash
				}
			case "reload":
				if lastCompile == "" || c.Hash != lastCompile {
					viol(i, "reload-without-fresh-bytecode", "Reload was called with bytecode that is not the result of the compilation just done (failed or stale compilation)", "reload(hash of last successful compile)", c.Hash, st)
					return
				}
			}
		}
		for _, ev := range st.Events {
			if ev.Count < lastCount {
				viol(i, "reload-count-decreased", "ReloadCount went backwards in the event stream", fmt.Sprint(">=", lastCount), fmt.Sprint(ev.Count), st)
				return
			}
			lastCount = ev.Count
			if ev.Success == ev.HasErr {
				viol(i, "event-success-error-mismatch", "a reload event reports success together with an error, or failure without one", "Success xor Error", fmt.Sprintf("success=%v err=%v", ev.Success, ev.HasErr), st)
				return
			}
		}
		if job.Mode == "burst" && i != len(out.Steps)-1 {
			continue
		}
		if job.Mode == "direct" {
			nReloadOK, nReload, nSucc, nFail := 0, 0, 0, 0
			for _, c := range st.Calls {
				if c.Op == "reload" {
					nReload++
					if c.OK {
						nReloadOK++
					}
				}
			}
			for _, ev := range st.Events {
				if ev.Success {
					nSucc++
				} else {
					nFail++
				}
			}
			if loads {
				if st.Current != st.ExpHash || nReloadOK != 1 {
					viol(i, "valid-edit-not-reloaded", fmt.Sprintf("a loadable %s edit was handed to handleChanges and the server does not run it afterwards", e.Kind), st.ExpHash, st.Current, st)
					return
				}
				if nSucc != 1 || nFail != 0 {
					viol(i, "no-success-event", "a successful reload did not produce exactly one success event", "1 success event", fmt.Sprintf("%d success, %d failure", nSucc, nFail), st)
					return
				}
				if st.StateTok != fmt.Sprintf("tok-%d-%d|tok-%d-%d", job.ID, i, job.ID, i) {
					viol(i, "state-not-restored", "application state was not carried over a successful reload", "state token preserved", st.StateTok, st)
					return
				}
			} else {
				if st.Current != cur {
					viol(i, "failed-edit-changed-server", fmt.Sprintf("a %s edit that does not load changed what the server runs", e.Kind), cur, st.Current, st)
					return
				}
				if e.Kind != "nonglyph-only" {
					if nSucc != 0 || nFail != 1 {
						viol(i, "failed-edit-event", "an edit that does not load did not produce exactly one failure event", "1 failure event", fmt.Sprintf("%d success, %d failure", nSucc, nFail), st)
						return
					}
					if st.ExpHash == "" && nReload != 0 {
						viol(i, "reload-after-failed-compile", "Reload was called although compilation failed", "no Reload call", fmt.Sprint(nReload), st)
						return
					}
				}
				if !strings.HasSuffix(st.StateTok, fmt.Sprintf("|tok-%d-%d", job.ID, i)) {
					viol(i, "state-lost-by-failed-edit", "application state was lost by an edit that does not load", "state token preserved", st.StateTok, st)
					return
				}
			}
		} else {
			if loads {
				if st.Current != st.ExpHash {
					if st.Late == st.ExpHash {
						r.Inconclusive("C19 library watcher: a valid edit was reloaded only after the bound")
						return
					}
					viol(i, "valid-edit-not-reloaded", fmt.Sprintf("a loadable %s edit (%s) was written and the watcher-driven manager never reloaded it (bound %d ms, then %d ms more)", e.Kind, e.Style, job.BoundMs, 4*job.BoundMs),
						st.ExpHash, st.Current, st)
					return
				}
			} else if job.Mode == "watch" {
				if st.Current != cur {
					viol(i, "failed-edit-changed-server", fmt.Sprintf("a %s edit that does not load changed what the server runs", e.Kind), cur, st.Current, st)
					return
				}
			} else if !valid[st.Current] {
				viol(i, "failed-edit-changed-server", "after a burst ending in a version that does not load the server runs none of the versions that compiled", "one of the valid versions", st.Current, st)
				return
			}
			if !strings.Contains(st.StateTok, "|tok-") {
				viol(i, "state-lost", "application state was lost across watcher-driven reloads", "a state token", st.StateTok, st)
				return
			}
		}
		cur = st.Current
	}
}

var c19libOnce, c19libRaceOnce sync.Once
var c19libBin, c19libRaceBin string
var c19libErr, c19libRaceErr error

func c19LibRaceBin() (string, error) {
	c19libRaceOnce.Do(func() {
		c19libRaceBin, c19libRaceErr = mon.BuildOverlayTest("pkg/hotreload", "hotreload.race.test", map[string]string{
			"zz_verif_worker_test.go": filepath.Join(mon.SrcDir(), "overlays", "hotreload_worker_test.go"),
		}, "-race")
	})
	return c19libRaceBin, c19libRaceErr
}

func c19LibBin() (string, error) {
	c19libOnce.Do(func() {
		c19libBin, c19libErr = mon.BuildOverlayTest("pkg/hotreload", "hotreload.test", map[string]string{
			"zz_verif_worker_test.go": filepath.Join(mon.SrcDir(), "overlays", "hotreload_worker_test.go"),
		})
	})
	return c19libBin, c19libErr
}

// ---- real `glyph dev` process ----------------------------------------------------

type c19ProcResult struct {
	Seq      string
	Died     string
	Tail     string
	Viol     *c19Witness
	Sig      string
	What     string
	Edits    int
	Skipped  string
	LogLines int
}

var c19PortSeq atomic.Int64

// c19FreePort: below the ephemeral range (see devFreePort in the overlay worker), from a slice
// of the range reserved for the parent process.
func c19FreePort() int {
	for i := 0; i < 200; i++ {
		p := 31100 + int(c19PortSeq.Add(1)%800)
		l, err := net.Listen("tcp", fmt.Sprintf("127.0.0.1:%d", p))
		if err != nil {
			continue
		}
		l.Close()
		return p
	}
	l, err := net.Listen("tcp", "127.0.0.1:0")
	if err != nil {
		return 0
	}
	defer l.Close()
	return l.Addr().(*net.TCPAddr).Port
}

// c19RunProc drives one real `glyph dev` process through an edit sequence. Classes come
// from construction only ("cold" kinds accept either the previous or the new version).
func c19RunProc(bin, dir string, id int, initial string, edits []c19Edit) c19ProcResult {
	res := c19ProcResult{Seq: c19Kinds(edits)}
	os.MkdirAll(dir, 0o755)
	defer os.RemoveAll(dir)
	file := filepath.Join(dir, "main.glyph")
	os.WriteFile(file, []byte(initial), 0o644)
	port := c19FreePort()
	logPath := filepath.Join(dir, "dev.log")
	lf, _ := os.Create(logPath)
	cmd := exec.Command(bin, "dev", file, "--port", fmt.Sprint(port))
	cmd.Stdout, cmd.Stderr = lf, lf
	cmd.Dir = dir
	cmd.Env = append(os.Environ(), "NO_COLOR=1")
	cmd.SysProcAttr = &syscall.SysProcAttr{Setpgid: true}
	if err := cmd.Start(); err != nil {
		res.Skipped = "cannot start glyph dev: " + err.Error()
		return res
	}
	exited := make(chan struct{})
	go func() { cmd.Wait(); close(exited) }()
	defer func() {
		syscall.Kill(-cmd.Process.Pid, syscall.SIGKILL)
		<-exited
		lf.Close()
	}()
	alive := func() bool {
		select {
		case <-exited:
			return false
		default:
			return true
		}
	}
	client := &http.Client{Transport: &http.Transport{DisableKeepAlives: true}, Timeout: 3 * time.Second}
	url := fmt.Sprintf("http://127.0.0.1:%d/version", port)
	slow := &http.Client{Transport: &http.Transport{DisableKeepAlives: true}, Timeout: 20 * time.Second}
	probe := func() c19Probe {
		p := c19Probe{}
		resp, err := client.Get(url)
		for a := 0; a < 2 && err != nil && (os.IsTimeout(err) || strings.Contains(err.Error(), "Timeout") || strings.Contains(err.Error(), "deadline exceeded")); a++ {
			// no answer within 3 s says nothing on an oversubscribed machine: only a refused / reset connection, or
			// silence for 20 s twice over, counts as "down"
			resp, err = slow.Get(url)
		}
		if err != nil {
			p.Err = err.Error()
			return p
		}
		b, _ := io.ReadAll(io.LimitReader(resp.Body, 4096))
		resp.Body.Close()
		p.S, p.B = resp.StatusCode, strings.TrimSpace(string(b))
		return p
	}
	tail := func() string {
		lf.Sync()
		b, _ := os.ReadFile(logPath)
		if len(b) > 1500 {
			b = b[len(b)-1500:]
		}
		return string(b)
	}
	cur := c19Ident(c19MarkerOf(initial))
	// wait for start-up
	up := false
	for i := 0; i < 500 && alive(); i++ {
		if probe().ident() == cur {
			up = true
			break
		}
		time.Sleep(10 * time.Millisecond)
	}
	if !up {
		if strings.Contains(tail(), "address already in use") {
			res.Skipped = "port-lost"
			return res
		}
		res.Skipped = "glyph dev did not come up with the initial version: " + tail()
		return res
	}
	// The watcher goroutine is started after the "Watching" line is printed and needs a moment
	// to register with inotify; an edit made before that is simply not seen (a user edits
	// seconds after start-up, not microseconds). Prime it: re-save the initial content until the
	// process reports a reload, then let that reload finish.
	full := func() string {
		lf.Sync()
		b, _ := os.ReadFile(logPath)
		return string(b)
	}
	primed := false
	for i := 0; i < 100 && alive() && !primed; i++ {
		os.WriteFile(file, []byte(initial), 0o644)
		for k := 0; k < 30; k++ {
			if strings.Contains(full(), "reloading") {
				primed = true
				break
			}
			time.Sleep(10 * time.Millisecond)
		}
	}
	if !primed {
		res.Skipped = "the watcher of glyph dev never reacted to a priming save: " + tail()
		return res
	}
	for i := 0; i < 600; i++ {
		l := full()
		if strings.Count(l, "Hot reload complete")+strings.Count(l, "reload failed") >= strings.Count(l, "reloading") && probe().ident() == cur {
			break
		}
		time.Sleep(10 * time.Millisecond)
	}
	time.Sleep(150 * time.Millisecond) // past the debounce window of the last priming save
	fail := func(step int, sig, what, exp, obs string) c19ProcResult {
		res.Sig, res.What = "proc:watch:"+sig, what
		res.Viol = &c19Witness{Level: "real `glyph dev` process", Mode: "watch", Sequence: res.Seq, Step: step, Expected: exp, Observed: obs,
			Detail: map[string]interface{}{"log_tail": tail(), "process_alive": alive()}, Job: map[string]interface{}{"initial": initial, "edits": edits}}
		return res
	}
	for i := range edits {
		e := &edits[i]
		res.Edits++
		if fi, err := os.Stat(file); err == nil && fi.IsDir() {
			os.Remove(file)
		}
		switch e.Style {
		case "mkdir":
			os.Remove(file)
			os.Mkdir(file, 0o755)
		case "delete":
			os.Remove(file)
		case "atomic":
			tf := filepath.Join(dir, ".main.glyph.swp")
			os.WriteFile(tf, []byte(e.Content), 0o644)
			os.Rename(tf, file)
		case "recreate":
			os.Remove(file)
			time.Sleep(time.Duration(e.GapMs) * time.Millisecond)
			os.WriteFile(file, []byte(e.Content), 0o644)
		default:
			os.WriteFile(file, []byte(e.Content), 0o644)
		}
		class := c19Class[e.Kind]
		newID := c19Ident(c19MarkerOf(e.Content))
		switch class {
		case "load":
			ok := false
			var last string
			for a := 0; a < 600; a++ { // bounded: 600 attempts, 10 ms apart
				if !alive() {
					return fail(i, "process-died", fmt.Sprintf("the glyph dev process ended while picking up a %s edit", e.Kind), newID, "process exit")
				}
				last = probe().ident()
				if last == newID {
					ok = true
					break
				}
				if last != cur && last != "down" {
					return fail(i, "wrong-version", "the port answered with neither the old nor the new version", newID, last)
				}
				time.Sleep(10 * time.Millisecond)
			}
			if !ok {
				time.Sleep(10 * time.Second)
				last = probe().ident()
				if last == newID {
					res.Skipped = "valid edit served only after the bound"
					return res
				}
				sig := "valid-edit-not-served"
				if last == "down" {
					sig = "down-after-valid-edit"
				}
				return fail(i, sig, fmt.Sprintf("a loadable %s edit (%s) was written and 16 s later the port still does not answer with it", e.Kind, e.Style), newID, last)
			}
			cur = newID
		default:
			// 60 probes over >= 600 ms: debounce (100 ms) + load attempt are long over.
			// A "cold" kind may load (then the port restarts: a short refusal followed by the
			// new version) or not load (then nothing at all may change).
			seen := cur
			downs := 0
			for a := 0; a < 60 || (downs > 0 && seen != newID && a < 600); a++ {
				if !alive() {
					return fail(i, "process-died", fmt.Sprintf("the glyph dev process ended after a %s edit", e.Kind), cur, "process exit")
				}
				id := probe().ident()
				if id == "down" {
					if class != "cold" {
						return fail(i, "down-after-failed-edit", fmt.Sprintf("after a %s edit the port stopped answering", e.Kind), cur, id)
					}
					downs++
					time.Sleep(10 * time.Millisecond)
					continue
				}
				if id != cur && !(class == "cold" && id == newID) {
					return fail(i, "changed-by-failed-edit", fmt.Sprintf("after a %s edit the port answers with another version", e.Kind), cur, id)
				}
				if downs > 0 && id != newID {
					return fail(i, "down-after-failed-edit", fmt.Sprintf("after a %s edit the port refused connections and then answered with the previous version again: the edit did not load, yet the server was interrupted", e.Kind), cur, "down, then "+id)
				}
				seen = id
				time.Sleep(10 * time.Millisecond)
			}
			if downs > 0 && seen != newID {
				return fail(i, "down-after-failed-edit", fmt.Sprintf("after a %s edit the port stopped answering and did not come back", e.Kind), cur+" or "+newID, "down")
			}
			cur = seen
		}
	}
	res.LogLines = strings.Count(tail(), "\n")
	return res
}

// ---- the check -----------------------------------------------------------------

func c19EnumSeqs(alpha []string, maxLen int) [][]string {
	var out [][]string
	var rec func(prefix []string)
	rec = func(prefix []string) {
		if len(prefix) > 0 {
			out = append(out, append([]string{}, prefix...))
		}
		if len(prefix) == maxLen {
			return
		}
		for _, a := range alpha {
			rec(append(prefix, a))
		}
	}
	rec(nil)
	return out
}

func checkC19(tier string) {
	r := mon.New("C19", tier, "fault_enumeration")
	rng := r.Rand("gen")
	devBin, err := httpWorkerBin(false)
	if err != nil {
		fmt.Fprintln(os.Stderr, err)
		fmt.Println("BUILD-FAILED: cmd/glyph test binary with the dev worker")
		os.Exit(2)
	}
	libBin, err := c19LibBin()
	if err != nil {
		fmt.Fprintln(os.Stderr, err)
		fmt.Println("BUILD-FAILED: pkg/hotreload test binary with the reload worker")
		os.Exit(2)
	}

	// ---- 1. CLI hotReloadManager, reload() called directly: complete enumeration ----
	cliAlpha := []string{"valid", "valid-interp", "parse", "semantic", "empty", "delete", "recreate", "ws-conflict"}
	enumLen := r.Pick(3, 4)
	seqs := c19EnumSeqs(cliAlpha, enumLen)
	nEnum := len(seqs)
	// longer sampled sequences over the full alphabet
	fullAlpha := []string{"valid", "valid-interp", "valid-ws", "parse", "garbage", "unreadable", "semantic", "ws-conflict", "live-conflict", "static-conflict", "static-ok", "empty", "comment", "noversion", "delete", "recreate", "atomic"}
	for i, n := 0, r.Pick(60, 600); i < n; i++ {
		l := enumLen + 1 + rng.Intn(4)
		s := make([]string, l)
		for k := range s {
			s[k] = fullAlpha[rng.Intn(len(fullAlpha))]
		}
		seqs = append(seqs, s)
	}
	var devJobs []ovJob
	devByID := map[int]*c19DevJob{}
	id := 0
	mk := func(mode string, kinds []string, sse bool, bound, settle int) {
		j := &c19DevJob{ID: id, Mode: mode, SSE: sse, BoundMs: bound, Settle: settle}
		j.Initial = c19Content("valid", 1000, rng)
		for k, kind := range kinds {
			j.Edits = append(j.Edits, c19MkEdit(kind, 1001+k, rng))
		}
		devByID[id] = j
		devJobs = append(devJobs, ovJob{ID: id, Raw: j})
		id++
	}
	for _, s := range seqs {
		mk("reload", s, false, 0, 0)
	}
	nReloadJobs := len(devJobs)
	// ---- 2. the manager's own fsnotify watcher, real file writes ----
	watchAlpha := []string{"valid", "valid-interp", "parse", "semantic", "empty", "delete", "unreadable", "recreate", "atomic", "trunc", "ws-conflict", "noversion", "garbage", "comment", "static-conflict", "static-ok"}
	for i, n := 0, r.Pick(112, 900); i < n; i++ {
		l := 2 + rng.Intn(4)
		s := make([]string, l)
		for k := range s {
			s[k] = watchAlpha[rng.Intn(len(watchAlpha))]
		}
		if i%3 == 0 { // directed: a failing edit followed by a valid one, in every style
			s[l-2] = []string{"parse", "semantic", "delete", "garbage", "ws-conflict", "static-conflict"}[i/3%6]
			s[l-1] = []string{"valid", "atomic", "recreate", "trunc", "valid-interp"}[i/15%5]
		}
		sse := i%7 == 3
		bound := 5000
		if sse {
			bound = 9000
		}
		mk("watch", s, sse, bound, 450)
	}
	for i, n := 0, r.Pick(48, 400); i < n; i++ {
		l := 3 + rng.Intn(5)
		s := make([]string, l)
		for k := range s {
			s[k] = watchAlpha[rng.Intn(len(watchAlpha))]
		}
		if i%2 == 0 {
			s[l-1] = []string{"valid", "atomic", "recreate", "valid-interp"}[i/2%4]
		}
		j := len(devJobs)
		mk("burst", s, false, 6000, 700)
		for k := range devByID[devJobs[j].ID].Edits {
			e := &devByID[devJobs[j].ID].Edits[k]
			if e.Style == "write" || e.Style == "atomic" || e.Style == "delete" {
				e.GapMs = []int{0, 0, 2, 20, 90, 110, 250}[rng.Intn(7)]
			}
		}
	}
	// reload-mode jobs with an SSE client (a browser tab) connected across restarts
	for i, n := 0, r.Pick(12, 80); i < n; i++ {
		s := []string{"valid", []string{"parse", "semantic", "delete"}[i%3], "valid", "empty", "valid-interp"}[:2+i%4]
		mk("reload", s, true, 0, 0)
	}
	devRes := ovRun(r, devJobs, ovOpts{Bin: devBin, TestRun: "^TestVerifDevWorker$", Tag: "dev", Parallel: 16, Timeout: 25 * time.Minute, Env: []string{"VERIF_DEV=1"}})
	interleavings := map[string]bool{}
	for _, j := range devJobs {
		job := devByID[j.ID]
		res := devRes[j.ID]
		seq := c19Kinds(job.Edits)
		if res == nil {
			r.Inconclusive("C19: dev worker produced no result for job " + seq)
			continue
		}
		nontrivial := false
		for _, e := range job.Edits {
			if c19Class[e.Kind] != "load" {
				nontrivial = true
			}
		}
		r.Case("cli:"+job.Mode+":"+fmt.Sprint(job.SSE)+":"+seq+fmt.Sprint(styleSig(job.Edits)), nontrivial)
		if res.Died != "" {
			r.Violate("cli:"+job.Mode+":process-died", "the process running the dev server ended while handling an edit sequence ("+res.Died+")",
				c19Witness{Level: "CLI hotReloadManager", Mode: job.Mode, Sequence: seq, Observed: res.Died, Detail: res.Death, Job: job})
			continue
		}
		var out c19DevOut
		if err := json.Unmarshal(res.Raw, &out); err != nil {
			r.Inconclusive("C19: unreadable worker result: " + err.Error())
			continue
		}
		if len(out.Steps) != len(job.Edits) && out.StartErr == "" {
			r.Inconclusive("C19: worker returned a truncated result")
			continue
		}
		c19JudgeDev(r, "cli", job, &out)
		// distinct observed interleavings of probes and reload windows
		for _, p := range out.Bg {
			for si := range out.Steps {
				st := &out.Steps[si]
				if st.TCall > 0 && p.T0 <= st.TRet && p.T1 >= st.TCall {
					interleavings[fmt.Sprintf("%s/%s/refused=%v", job.Edits[si].Kind, st.Cold, p.ident() == "down")] = true
					if st.Cold != "load" {
						r.Count("bg_probes_overlapping_a_failed_reload", 1)
					} else {
						r.Count("bg_probes_overlapping_a_successful_reload", 1)
					}
				}
			}
		}
		if len(out.Steps) > 0 && r.Counter("sampled") < 4 && nontrivial && (job.Mode != "reload" || len(job.Edits) > 2) {
			r.Count("sampled", 1)
			var obs []string
			for _, st := range out.Steps {
				obs = append(obs, st.Cold+"->"+st.Final.ident())
			}
			r.Sample(map[string]interface{}{"level": "cli", "mode": job.Mode, "sse_client": job.SSE, "edits": seq, "styles": styleSig(job.Edits), "cold_class_and_port_answer_per_edit": obs, "background_probes": len(out.Bg)})
		}
	}
	r.Set("cli_reload_sequences_enumerated", nEnum)
	r.Set("cli_reload_enumeration", fmt.Sprintf("all %d sequences of length <= %d over %v", nEnum, enumLen, cliAlpha))
	r.Set("cli_reload_jobs", nReloadJobs)
	r.Set("cli_watch_and_burst_jobs", len(devJobs)-nReloadJobs)
	ks := []string{}
	for k := range interleavings {
		ks = append(ks, k)
	}
	sort.Strings(ks)
	r.Set("probe_x_reload_overlap_kinds(edit/cold-start-class/probe-refused)", ks)

	// ---- 3. library ReloadManager ----
	libAlpha := []string{"valid", "parse", "semantic", "empty", "delete", "recreate", "reject", "nonglyph-only"}
	libLen := r.Pick(4, 5)
	lseqs := c19EnumSeqs(libAlpha, libLen)
	nLibEnum := len(lseqs)
	var libJobs []ovJob
	libByID := map[int]*c19LibJob{}
	mkLib := func(mode string, kinds []string) {
		j := &c19LibJob{ID: id, Mode: mode, BoundMs: 2500, Settle: 40}
		j.Initial = c19Content("valid", 2000, rng)
		for k, kind := range kinds {
			var e c19Edit
			switch kind {
			case "reject":
				e = c19MkEdit("valid", 2001+k, rng)
				e.Kind, e.Reject = "reject", true
			case "nonglyph-only":
				e = c19Edit{Kind: kind, Style: "none", Others: []string{"notes.txt", "data.json"}}
			default:
				e = c19MkEdit(kind, 2001+k, rng)
			}
			if mode == "direct" && kind != "nonglyph-only" {
				switch rng.Intn(4) {
				case 0:
					e.Others = []string{"notes.txt"}
				case 1:
					e.After = []string{"data.json", "README.md"}
				}
			}
			if kind == "valid-same-stat" && len(j.Edits) > 0 {
				// the file it replaces is longer, so that the worker can pad the new content to exactly that length
				if p := &j.Edits[len(j.Edits)-1]; p.Content != "" || p.Style == "write" {
					p.Content += "\n# " + strings.Repeat("padding ", 120) + "\n"
				}
			}
			j.Edits = append(j.Edits, e)
		}
		libByID[id] = j
		libJobs = append(libJobs, ovJob{ID: id, Raw: j})
		id++
	}
	for _, s := range lseqs {
		mkLib("direct", s)
	}
	lwAlpha := []string{"valid", "parse", "semantic", "empty", "delete", "unreadable", "recreate", "atomic", "garbage", "reject", "valid-same-stat"}
	for i, n := 0, r.Pick(240, 2400); i < n; i++ {
		l := 2 + rng.Intn(5)
		s := make([]string, l)
		for k := range s {
			s[k] = lwAlpha[rng.Intn(len(lwAlpha))]
		}
		if i%3 == 0 {
			s[l-1] = []string{"valid", "atomic", "recreate"}[i/3%3]
		}
		if i%6 == 2 {
			// directed: a broken save, then the fix with the same size and the same modification time
			s[l-2] = []string{"parse", "semantic", "garbage"}[i/6%3]
			s[l-1] = "valid-same-stat"
		}
		mode := "watch"
		if i%4 == 1 {
			mode = "burst"
		}
		mkLib(mode, s)
		if mode == "burst" {
			for k := range libByID[id-1].Edits {
				libByID[id-1].Edits[k].GapMs = []int{0, 0, 1, 3, 5, 8, 15}[rng.Intn(7)]
			}
		}
	}
	libRes := ovRun(r, libJobs, ovOpts{Bin: libBin, TestRun: "^TestVerifReloadWorker$", Tag: "lib", Parallel: 16, Timeout: 25 * time.Minute})
	for _, j := range libJobs {
		job := libByID[j.ID]
		res := libRes[j.ID]
		seq := c19Kinds(job.Edits)
		if res == nil {
			r.Inconclusive("C19: library worker produced no result for " + seq)
			continue
		}
		nontrivial := false
		for _, e := range job.Edits {
			if c19Class[e.Kind] != "load" {
				nontrivial = true
			}
		}
		r.Case("lib:"+job.Mode+":"+seq+styleSig(job.Edits), nontrivial)
		if res.Died != "" {
			r.Violate("lib:"+job.Mode+":process-died", "the process died while the reload manager handled an edit sequence ("+res.Died+")",
				c19Witness{Level: "library ReloadManager", Mode: job.Mode, Sequence: seq, Observed: res.Died, Detail: res.Death, Job: job})
			continue
		}
		var out c19LibOut
		if err := json.Unmarshal(res.Raw, &out); err != nil || (len(out.Steps) != len(job.Edits) && out.InitOK) {
			r.Inconclusive("C19: unreadable / truncated library worker result")
			continue
		}
		c19JudgeLib(r, job, &out)
		if r.Counter("lib_sampled") < 2 && nontrivial && job.Mode != "direct" {
			r.Count("lib_sampled", 1)
			var obs []string
			for i, st := range out.Steps {
				obs = append(obs, fmt.Sprintf("%s:compiles=%v events=%d server_runs_it=%v", job.Edits[i].Kind, st.ExpHash != "", len(st.Events), st.Current == st.ExpHash))
			}
			r.Sample(map[string]interface{}{"level": "library", "mode": job.Mode, "edits": seq, "per_edit": obs})
		}
	}
	// the watcher-driven library jobs once more under the Go race detector
	if raceBin, err := c19LibRaceBin(); err == nil {
		var rjobs []ovJob
		for _, j := range libJobs {
			if libByID[j.ID].Mode != "direct" && len(rjobs) < r.Pick(120, 800) {
				rjobs = append(rjobs, j)
			}
		}
		logp := filepath.Join(mon.BuildDir(), "race", "C19")
		os.MkdirAll(filepath.Dir(logp), 0o755)
		if old, _ := filepath.Glob(logp + "*"); len(old) > 0 {
			for _, f := range old {
				os.Remove(f)
			}
		}
		rres := ovRun(r, rjobs, ovOpts{Bin: raceBin, TestRun: "^TestVerifReloadWorker$", Tag: "librace", Parallel: 16, Timeout: 25 * time.Minute,
			Env: []string{"GORACE=halt_on_error=0 log_path=" + logp}})
		for _, j := range rjobs {
			if res := rres[j.ID]; res != nil && res.Died != "" {
				r.Violate("lib:race-build:process-died", "the race-detector build died while the reload manager handled an edit sequence ("+res.Died+")",
					c19Witness{Level: "library ReloadManager (-race)", Mode: libByID[j.ID].Mode, Sequence: c19Kinds(libByID[j.ID].Edits), Observed: res.Died, Detail: res.Death})
			}
		}
		blocks, total := mon.ParseRaceLogs(logp)
		r.Set("race_detector_jobs", len(rjobs))
		r.Set("race_reports_total", total)
		for _, b := range blocks {
			r.Violate("race:"+b.Key, "data race in the hot-reload watcher/manager: "+b.Entry[0]+" vs "+b.Entry[1], map[string]interface{}{"report": b.Text})
		}
	} else {
		r.Inconclusive("race build of pkg/hotreload failed: " + err.Error())
	}
	r.Set("library_direct_enumeration", fmt.Sprintf("all %d sequences of length <= %d over %v (handleChanges called with crafted change sets)", nLibEnum, libLen, libAlpha))
	r.Set("library_watch_and_burst_jobs", len(libJobs)-nLibEnum)

	// ---- 4. the real `glyph dev` process ----
	glyphBin := filepath.Join(mon.BuildDir(), "glyph-dev-bin")
	bcmd := exec.Command("go", "build", "-o", glyphBin, "./cmd/glyph")
	bcmd.Dir = mon.Repo()
	bcmd.Env = append(os.Environ(), "GOFLAGS=-mod=mod", "GOPROXY=off")
	if b, err := bcmd.CombinedOutput(); err != nil {
		fmt.Fprintln(os.Stderr, string(b))
		fmt.Println("BUILD-FAILED: cmd/glyph")
		os.Exit(2)
	}
	procAlpha := []string{"valid", "valid-interp", "parse", "semantic", "empty", "delete", "unreadable", "recreate", "atomic", "ws-conflict", "live-conflict", "garbage", "static-conflict"}
	nProc := r.Pick(40, 320)
	type pj struct {
		id    int
		init  string
		edits []c19Edit
	}
	var pjobs []pj
	for i := 0; i < nProc; i++ {
		l := 2 + rng.Intn(4)
		var edits []c19Edit
		for k := 0; k < l; k++ {
			kind := procAlpha[rng.Intn(len(procAlpha))]
			if i < len(procAlpha)*3 && k == 0 {
				kind = procAlpha[i%len(procAlpha)] // every failure kind first, then a valid edit
			}
			if i < len(procAlpha)*3 && k == 1 {
				kind = []string{"valid", "atomic", "recreate"}[i/len(procAlpha)%3]
			}
			edits = append(edits, c19MkEdit(kind, 3001+k, rng))
		}
		pjobs = append(pjobs, pj{i, c19Content("valid", 3000, rng), edits})
	}
	var pmu sync.Mutex
	var pwg sync.WaitGroup
	sem := make(chan struct{}, 12)
	for _, j := range pjobs {
		pwg.Add(1)
		sem <- struct{}{}
		go func(j pj) {
			defer pwg.Done()
			defer func() { <-sem }()
			dir := filepath.Join(mon.BuildDir(), "tmp", fmt.Sprintf("proc-%d-%d", os.Getpid(), j.id))
			res := c19RunProc(glyphBin, dir, j.id, j.init, j.edits)
			for attempt := 0; attempt < 3 && res.Skipped == "port-lost"; attempt++ {
				res = c19RunProc(glyphBin, dir, j.id, j.init, j.edits) // another process took the port first: try another one
			}
			pmu.Lock()
			defer pmu.Unlock()
			nontrivial := false
			for _, e := range j.edits {
				if c19Class[e.Kind] != "load" {
					nontrivial = true
				}
			}
			r.Case("proc:"+res.Seq+styleSig(j.edits), nontrivial)
			r.Count("proc_edits", res.Edits)
			if res.Skipped != "" {
				r.Inconclusive("C19 real process: " + res.Skipped)
				return
			}
			if res.Viol != nil {
				r.Violate(res.Sig, res.What, res.Viol)
				return
			}
			if r.Counter("proc_sampled") < 2 && nontrivial {
				r.Count("proc_sampled", 1)
				r.Sample(map[string]interface{}{"level": "real glyph dev process", "edits": res.Seq, "styles": styleSig(j.edits), "log_lines": res.LogLines})
			}
		}(j)
	}
	pwg.Wait()
	os.Remove(glyphBin)
	r.Set("real_process_sequences", nProc)

	r.Rule = fmt.Sprintf("fault enumeration over edit sequences: (1) CLI hotReloadManager with reload() called after each edit — ALL sequences of length <= %d over 8 edit kinds {valid, valid in interpreter mode, parse error, semantic error, empty, deleted, deleted-and-recreated, conflicting routes} plus sampled longer ones over 14 kinds, each probed after the reload and continuously by a background prober (fresh and keep-alive connections; some jobs with an SSE live-reload client connected); (2) the same manager driven by its own fsnotify watcher through real file writes (in-place, atomic rename, delete+recreate, truncated-then-completed), one edit at a time and in bursts; (3) the real `glyph dev` process; (4) library ReloadManager: ALL sequences of length <= %d over 8 kinds through handleChanges (real parser+compiler, recording server, server-side refusal injected) and a real FileWatcher (4 ms poll). Non-trivial = the sequence contains at least one edit that must not or may not load; distinct = by level, mode, edit kinds and write styles", enumLen, libLen)
	r.Set("exhaustive", true)
	r.Set("exhaustive_scope", fmt.Sprintf("the reload()-driven CLI sequences of length <= %d and the handleChanges-driven library sequences of length <= %d are enumerated completely; watcher-driven, burst and real-process sequences are sampled", enumLen, libLen))
	r.Assume("'loads successfully' is defined by what a cold start does with the same file content (buildDevServer on an idle manager / an independent compilation), so the oracle follows the tree's own notion of a loadable program")
	r.Assume("the restart window of a SUCCESSFUL reload (old listener closed, new one not yet accepting) is not counted as downtime; during an edit that does not load no refused connection is tolerated at all")
	r.Assume("'a later valid edit always takes effect' is decided as bounded progress: served within 5 s (9 s with an SSE client holding the old server open; normal is 0.3 s), and reported only if still not served 4 bounds later")
	r.Floor(r.Pick(300, 2000))
	r.Finish()
}

func styleSig(edits []c19Edit) string {
	var s []string
	for _, e := range edits {
		s = append(s, e.Style)
	}
	return "[" + strings.Join(s, ",") + "]"
}

var _ = bufio.NewReader
