package main

// C06 — Declared authentication fails closed.
//
// Tri-valued credential oracle + body-execution markers (response marker and, in a
// provider variant, a side-effect counter read back through an open route). Observed
// through the CLI wiring in both modes, for every credential configuration.

import (
	"encoding/json"
	"fmt"
	"math/rand"
	"strings"

	"verifharness/mon"
)

func init() { checks["C06"] = checkC06 }

var c06Types = []string{"jwt", "apikey", "JWT", "ApiKey", "basic", "oauth"}

type c06Cfg struct {
	JWT  *string `json:"GLYPH_JWT_SECRET"`
	Keys *string `json:"GLYPH_API_KEYS"`
}

func c06Source(withDB bool) string {
	var b strings.Builder
	for i, t := range c06Types {
		fmt.Fprintf(&b, "@ GET /p%d {\n  + auth(%s)\n", i, t)
		if withDB {
			b.WriteString("  % db: Database\n  $ h = db.hits.create({route: " + fmt.Sprint(i) + "})\n")
		}
		fmt.Fprintf(&b, "  > {marker: \"BODY-RAN-%d\", secretdata: \"DATA-%d\"}\n}\n\n", i, i)
		fmt.Fprintf(&b, "@ POST /p%d {\n  + auth(%s)\n", i, t)
		if withDB {
			b.WriteString("  % db: Database\n  $ h = db.hits.create({route: " + fmt.Sprint(i) + "})\n")
		}
		fmt.Fprintf(&b, "  > {marker: \"BODY-RAN-%d\", secretdata: \"DATA-%d\"}\n}\n\n", i, i)
	}
	b.WriteString("@ GET /open {\n  > {marker: \"OPEN\"}\n}\n\n")
	if withDB {
		b.WriteString("@ GET /count {\n  % db: Database\n  > {n: db.hits.length()}\n}\n")
	}
	return b.String()
}

// configured credentials for a declared type under a configuration
func c06Creds(cfg c06Cfg, typ string) []string {
	if strings.EqualFold(typ, "apikey") {
		var out []string
		if cfg.Keys != nil {
			for _, k := range strings.Split(*cfg.Keys, ",") {
				if t := strings.TrimSpace(k); t != "" {
					out = append(out, t)
				}
			}
		}
		return out
	}
	if cfg.JWT != nil {
		if t := strings.TrimSpace(*cfg.JWT); t != "" {
			return []string{t}
		}
	}
	return nil
}

type c06Shape struct {
	Name string
	H    map[string][]string
}

// header shapes; %S is replaced by the credential under test (or by a fixed decoy)
func c06Shapes(cred, other string) []c06Shape {
	long := strings.Repeat("A", 10000)
	pre := cred
	if len(pre) > 1 {
		pre = cred[:len(cred)-1]
	}
	suf := cred
	if len(suf) > 1 {
		suf = cred[1:]
	}
	s := []c06Shape{
		{"none", nil},
		{"empty-authorization", map[string][]string{"Authorization": {""}}},
		{"bearer-alone", map[string][]string{"Authorization": {"Bearer"}}},
		{"bearer-space", map[string][]string{"Authorization": {"Bearer "}}},
		{"bearer-wrong", map[string][]string{"Authorization": {"Bearer wrong-token"}}},
		{"bearer-prefix-of-cred", map[string][]string{"Authorization": {"Bearer " + pre}}},
		{"bearer-suffix-of-cred", map[string][]string{"Authorization": {"Bearer " + suf}}},
		{"bearer-cred-upper", map[string][]string{"Authorization": {"Bearer " + strings.ToUpper(cred) + "x"}}},
		{"bearer-other-type-cred", map[string][]string{"Authorization": {"Bearer " + other}}},
		{"apikey-other-type-cred", map[string][]string{"X-API-Key": {other}}},
		{"apikey-wrong", map[string][]string{"X-API-Key": {"nope"}}},
		{"apikey-prefix-of-cred", map[string][]string{"X-API-Key": {pre}}},
		{"apikey-suffix-of-cred", map[string][]string{"X-API-Key": {suf}}},
		{"apikey-cred-plus-junk", map[string][]string{"X-API-Key": {cred + "x"}}},
		{"apikey-empty", map[string][]string{"X-API-Key": {""}}},
		{"basic-scheme-wrong", map[string][]string{"Authorization": {"Basic d3Jvbmc6d3Jvbmc="}}},
		{"long-token", map[string][]string{"Authorization": {"Bearer " + long}}},
		{"nul-token", map[string][]string{"Authorization": {"Bearer \x00"}}},
		{"demo-token", map[string][]string{"Authorization": {"Bearer demo-token-1-admin"}}},
		{"forged-forwarded", map[string][]string{"X-Forwarded-For": {"127.0.0.1"}, "X-Real-IP": {"127.0.0.1"}}},
		{"true-literal", map[string][]string{"Authorization": {"true"}}},
		{"null-literal", map[string][]string{"Authorization": {"Bearer null"}, "X-API-Key": {"undefined"}}},
		{"comma-list", map[string][]string{"X-API-Key": {","}, "Authorization": {"Bearer ,"}}},
		{"space-token", map[string][]string{"Authorization": {"Bearer  "}, "X-API-Key": {" "}}},
		{"cookie-only", map[string][]string{"Cookie": {"token=" + cred}}},
		{"query-like-header", map[string][]string{"X-Token": {cred}, "Token": {cred}, "X-Auth-Token": {cred}}},
		// canonical forms
		{"CANON-bearer", map[string][]string{"Authorization": {"Bearer " + cred}}},
		{"CANON-apikey", map[string][]string{"X-API-Key": {cred}}},
		// unspecified-but-carrying forms
		{"raw-cred-no-scheme", map[string][]string{"Authorization": {cred}}},
		{"lower-scheme", map[string][]string{"Authorization": {"bearer " + cred}}},
		{"double-space", map[string][]string{"Authorization": {"Bearer  " + cred}}},
		{"trailing-space", map[string][]string{"Authorization": {"Bearer " + cred + " "}}},
		{"dup-auth-valid-second", map[string][]string{"Authorization": {"Bearer wrong", "Bearer " + cred}}},
		{"dup-auth-valid-first", map[string][]string{"Authorization": {"Bearer " + cred, "Bearer wrong"}}},
		{"apikey-padded", map[string][]string{"X-API-Key": {" " + cred + " "}}},
		{"apikey-wrong-plus-bearer-valid", map[string][]string{"X-API-Key": {"nope"}, "Authorization": {"Bearer " + cred}}},
	}
	return s
}

const c06Alphabet = "ABCDEFGHIJKLMNOPQRSTUVWXYZabcdefghijklmnopqrstuvwxyz0123456789-_.=+/:"

func c06RandSecret(rng *rand.Rand) string {
	switch rng.Intn(12) {
	case 0:
		return "Bearer" + fmt.Sprint(rng.Intn(100)) // a secret that looks like a scheme
	case 1:
		return "ключ-" + fmt.Sprint(rng.Intn(1000))
	case 2:
		return string(c06Alphabet[rng.Intn(len(c06Alphabet))]) // one character
	}
	n := 2 + rng.Intn(38)
	b := make([]byte, n)
	for i := range b {
		b[i] = c06Alphabet[rng.Intn(len(c06Alphabet))]
	}
	return string(b)
}

// c06NearMisses: strings one edit away from the credential, in both canonical positions. None
// of them equals the credential, so every one must be rejected (the classification below is
// the same generic one: a request carries a credential only as a whitespace-delimited whole).
func c06NearMisses(rng *rand.Rand, cred string) []c06Shape {
	rs := []rune(cred)
	var ms []string
	for k := 0; k < 6; k++ {
		i := rng.Intn(len(rs))
		c := rune(c06Alphabet[rng.Intn(len(c06Alphabet))])
		switch rng.Intn(6) {
		case 0: // delete
			ms = append(ms, string(rs[:i])+string(rs[i+1:]))
		case 1: // insert
			ms = append(ms, string(rs[:i])+string(c)+string(rs[i:]))
		case 2: // substitute
			if c != rs[i] {
				ms = append(ms, string(rs[:i])+string(c)+string(rs[i+1:]))
			}
		case 3: // case flip
			if f := []rune(strings.ToUpper(string(rs[i]))); string(f) != string(rs[i]) {
				ms = append(ms, string(rs[:i])+string(f)+string(rs[i+1:]))
			} else if f := []rune(strings.ToLower(string(rs[i]))); string(f) != string(rs[i]) {
				ms = append(ms, string(rs[:i])+string(f)+string(rs[i+1:]))
			}
		case 4: // prefix / doubled
			ms = append(ms, string(rs[:i]), cred+cred)
		case 5: // reversed
			rev := make([]rune, len(rs))
			for x := range rs {
				rev[len(rs)-1-x] = rs[x]
			}
			if string(rev) != cred {
				ms = append(ms, string(rev))
			}
		}
	}
	var out []c06Shape
	for n, m := range ms {
		if m == cred || m == "" {
			continue
		}
		out = append(out, c06Shape{fmt.Sprintf("nearmiss-bearer-%d", n), map[string][]string{"Authorization": {"Bearer " + m}}},
			c06Shape{fmt.Sprintf("nearmiss-apikey-%d", n), map[string][]string{"X-API-Key": {m}}})
	}
	return out
}

type c06Probe struct {
	route  int
	method string
	shape  c06Shape
	cred   string // credential the shape was built around ("" if none configured)
	expect string // REJECT | ACCEPT | UNSPEC | OPEN
}

func checkC06(tier string) {
	r := mon.New("C06", tier, "exploration")
	r.Rule = "credential configurations GLYPH_JWT_SECRET x GLYPH_API_KEYS (10 x 6 incl. unset/blank/padded and list-looking secrets such as \",\" and \"a,b\": the secret is one string, never a list) x declared auth type {jwt, apikey, JWT, ApiKey, basic, oauth} x ~33 header shapes (absent, wrong, prefix/suffix of the secret, other type's credential, duplicates, casing, whitespace, NUL, 10 kB, forged forwarding headers, canonical forms) x {GET, POST} x {compiled, interpreted, interpreted+provider side-effect counter}; plus PRNG-generated secrets / key lists (1-40 characters over letters, digits and -_.=+/:, scheme look-alikes, non-ASCII) probed with near-miss mutations of each credential (one deletion / insertion / substitution / case flip, prefixes, doubled, reversed) in both header positions; lockout histories of k failures then a valid request; distinct = (config, mode, route, shape); non-trivial = a protected route with a non-absent header shape or an unset/blank configuration"
	str := func(s string) *string { return &s }
	jwts := []*string{nil, str(""), str(" "), str("s3cr3t"), str(" s3cr3t "), str("a b"), str(","), str(" , ,"), str("a,b"), str(",s3cr3t")}
	keys := []*string{nil, str(""), str(" , "), str("k1"), str("k1, k2"), str(",k1,")}
	var jobs []HJob
	type meta struct {
		cfg    c06Cfg
		mode   string
		probes []c06Probe
		withDB bool
	}
	metas := map[int]*meta{}
	ipn := 0
	nextIP := func() string {
		ipn++
		return fmt.Sprintf("10.%d.%d.%d:5000", (ipn>>16)&255, (ipn>>8)&255, ipn&255)
	}
	type cfgPair struct {
		j, k *string
		rng  *rand.Rand
	}
	var pairs []cfgPair
	for _, j := range jwts {
		for _, k := range keys {
			pairs = append(pairs, cfgPair{j, k, nil})
		}
	}
	// PRNG-generated secrets and key lists, probed with near-miss mutations of each credential
	grng := r.Rand("secrets")
	for i, n := 0, r.Pick(24, 1500); i < n; i++ {
		js, ks := c06RandSecret(grng), c06RandSecret(grng)
		for extra := grng.Intn(3); extra > 0; extra-- {
			ks += []string{",", ", ", " ,"}[grng.Intn(3)] + c06RandSecret(grng)
		}
		pr := cfgPair{&js, &ks, rand.New(rand.NewSource(grng.Int63()))}
		switch grng.Intn(6) {
		case 0:
			pr.j = nil
		case 1:
			pr.k = nil
		}
		pairs = append(pairs, pr)
	}
	{
		for _, pr := range pairs {
			j, k := pr.j, pr.k
			cfg := c06Cfg{j, k}
			env := map[string]string{"GLYPH_JWT_SECRET": "\x00unset", "GLYPH_API_KEYS": "\x00unset"}
			if j != nil {
				env["GLYPH_JWT_SECRET"] = *j
			}
			if k != nil {
				env["GLYPH_API_KEYS"] = *k
			}
			for _, mode := range []string{"compiled", "interpreted", "interpreted+db"} {
				m := &meta{cfg: cfg, mode: mode, withDB: mode == "interpreted+db"}
				var reqs []HReq
				for ri, typ := range c06Types {
					creds := c06Creds(cfg, typ)
					// the credential of the *other* type, to try on this route
					otherT := "apikey"
					if strings.EqualFold(typ, "apikey") {
						otherT = "jwt"
					}
					other := "other-cred"
					if oc := c06Creds(cfg, otherT); len(oc) > 0 {
						other = oc[0]
					}
					credList := creds
					if len(credList) == 0 {
						credList = []string{"s3cr3t"} // a decoy: nothing is configured
					}
					for ci, cred := range credList {
						shapes := c06Shapes(cred, other)
						if pr.rng != nil {
							shapes = append(shapes, c06NearMisses(pr.rng, cred)...)
						}
						for si, sh := range shapes {
							method := "GET"
							if (si+ci)%5 == 4 {
								method = "POST"
							}
							p := c06Probe{route: ri, method: method, shape: sh, cred: cred}
							// classify
							carries := false
							for hk, vs := range sh.H {
								if hk != "Authorization" && hk != "X-API-Key" {
									continue
								}
								for _, v := range vs {
									for _, c := range creds {
										if c06Carries(v, c) {
											carries = true
										}
									}
								}
							}
							canonical := false
							if len(creds) > 0 {
								if sh.Name == "CANON-bearer" {
									canonical = true
								}
								if sh.Name == "CANON-apikey" && strings.EqualFold(typ, "apikey") {
									canonical = true
								}
							}
							switch {
							case !carries:
								p.expect = "REJECT"
							case canonical:
								p.expect = "ACCEPT"
							default:
								p.expect = "UNSPEC"
							}
							m.probes = append(m.probes, p)
							rq := HReq{M: method, P: fmt.Sprintf("/p%d", ri), H: sh.H, Remote: nextIP()}
							if method == "POST" {
								rq.B = sp(`{"x":1}`)
							}
							reqs = append(reqs, rq)
						}
					}
				}
				// open route with and without hostile headers
				for _, sh := range c06Shapes("s3cr3t", "k1")[:6] {
					m.probes = append(m.probes, c06Probe{route: -1, method: "GET", shape: sh, expect: "OPEN"})
					reqs = append(reqs, HReq{M: "GET", P: "/open", H: sh.H, Remote: nextIP()})
				}
				if m.withDB {
					m.probes = append(m.probes, c06Probe{route: -2, method: "GET", expect: "COUNT"})
					reqs = append(reqs, HReq{M: "GET", P: "/count", Remote: nextIP()})
				}
				id := len(jobs)
				metas[id] = m
				jobs = append(jobs, HJob{ID: id, Src: c06Source(m.withDB), Interp: mode != "compiled", Env: env, Reqs: reqs})
			}
		}
	}
	// lockout histories: k failures from one client, then the canonical credential; other clients unaffected
	type lockMeta struct {
		k    int
		mode string
	}
	lockMetas := map[int]lockMeta{}
	for _, mode := range []string{"compiled", "interpreted", "compiled-ipv6", "interpreted-ipv6"} {
		for k := 0; k <= 8; k++ {
			var reqs []HReq
			if strings.HasSuffix(mode, "ipv6") {
				// two IPv6 clients that differ only in the last hextet
				for i := 0; i < k; i++ {
					reqs = append(reqs, HReq{M: "GET", P: "/p0", H: map[string][]string{"Authorization": {"Bearer wrong"}}, Remote: "[2001:db8::7]:1000"})
				}
				reqs = append(reqs, HReq{M: "GET", P: "/p0", H: map[string][]string{"Authorization": {"Bearer s3cr3t"}}, Remote: "[2001:db8::7]:2000"})
				reqs = append(reqs, HReq{M: "GET", P: "/p0", H: map[string][]string{"Authorization": {"Bearer s3cr3t"}}, Remote: "[2001:db8::8]:2000"})
				id := len(jobs)
				lockMetas[id] = lockMeta{k, mode}
				jobs = append(jobs, HJob{ID: id, Src: c06Source(false), Interp: strings.HasPrefix(mode, "interpreted"), Env: map[string]string{"GLYPH_JWT_SECRET": "s3cr3t", "GLYPH_API_KEYS": "\x00unset"}, Reqs: reqs})
				continue
			}
			for i := 0; i < k; i++ {
				reqs = append(reqs, HReq{M: "GET", P: "/p0", H: map[string][]string{"Authorization": {"Bearer wrong"}, "X-Forwarded-For": {"172.16.0.2"}, "X-Real-IP": {"172.16.0.2"}}, Remote: "172.16.0.1:1000"})
			}
			reqs = append(reqs, HReq{M: "GET", P: "/p0", H: map[string][]string{"Authorization": {"Bearer s3cr3t"}}, Remote: "172.16.0.1:2000"})
			reqs = append(reqs, HReq{M: "GET", P: "/p0", H: map[string][]string{"Authorization": {"Bearer s3cr3t"}}, Remote: "172.16.0.2:2000"})
			id := len(jobs)
			lockMetas[id] = lockMeta{k, mode}
			jobs = append(jobs, HJob{ID: id, Src: c06Source(false), Interp: mode == "interpreted", Env: map[string]string{"GLYPH_JWT_SECRET": "s3cr3t", "GLYPH_API_KEYS": "\x00unset"}, Reqs: reqs})
		}
	}
	res, err := httpRun(r, jobs, HRunOpts{Tag: "c06"})
	if err != nil {
		r.Inconclusive("cannot build the HTTP worker: " + err.Error())
		r.Finish()
	}
	cnt := map[string]int{}
	for id, m := range metas {
		out := res[id]
		cfgs := fmt.Sprintf("jwt=%s keys=%s", c06Show(m.cfg.JWT), c06Show(m.cfg.Keys))
		if out == nil || out.Died != "" || out.Ev == "hang" || out.ParseErr != "" || out.SetupErr != "" {
			msg := "no result"
			if out != nil {
				msg = out.Died + out.Death + out.Hang + out.ParseErr + out.SetupErr
			}
			r.Violate("server-failed:"+m.mode, "the module did not serve under "+cfgs+": "+msg, map[string]interface{}{"config": cfgs, "mode": m.mode})
			continue
		}
		if m.mode == "compiled" && !out.Compiled {
			r.Count("compiled_mode_fell_back", 1)
		}
		markers := 0
		for i, p := range m.probes {
			if i >= len(out.Resps) {
				break
			}
			rs := out.Resps[i]
			hasMarker := strings.Contains(rs.B, "BODY-RAN") || strings.Contains(rs.B, "DATA-")
			if hasMarker {
				markers++
			}
			wit := map[string]interface{}{"config": cfgs, "mode": m.mode, "declared_type": "", "request": p.method, "headers": p.shape.H, "status": rs.S, "body": clipN(rs.B, 200)}
			typ := ""
			if p.route >= 0 {
				typ = c06Types[p.route]
				wit["declared_type"] = typ
				wit["request"] = fmt.Sprintf("%s /p%d", p.method, p.route)
			}
			key := fmt.Sprintf("%s|%s|%d|%s|%s", cfgs, m.mode, p.route, p.shape.Name, p.cred)
			if rs.Dropped || rs.S >= 500 {
				r.Violate(fmt.Sprintf("server-error:%s:%s", m.mode, p.shape.Name), fmt.Sprintf("%s auth(%s) shape %s: status %d dropped=%v %s", cfgs, typ, p.shape.Name, rs.S, rs.Dropped, rs.Panic), wit)
				continue
			}
			switch p.expect {
			case "OPEN":
				r.Case(key, false)
				if rs.S != 200 || !strings.Contains(rs.B, "OPEN") {
					r.Violate("open-route-affected:"+m.mode, fmt.Sprintf("%s: the route without auth answered %d %s", cfgs, rs.S, clipN(rs.B, 80)), wit)
				}
				cnt["open_ok"]++
			case "COUNT":
				var c struct {
					N int `json:"n"`
				}
				json.Unmarshal([]byte(rs.B), &c)
				if c.N != markers {
					r.Violate("side-effect-without-response-marker", fmt.Sprintf("%s: protected bodies created %d records but only %d responses carried the body marker", cfgs, c.N, markers), wit)
				}
				cnt["side_effect_counts_checked"]++
			case "REJECT":
				r.Case(key, p.shape.Name != "none" || len(c06Creds(m.cfg, typ)) == 0)
				if hasMarker || (rs.S >= 200 && rs.S < 400) {
					conf := "configured"
					if len(c06Creds(m.cfg, typ)) == 0 {
						conf = "unconfigured"
					}
					r.Violate(fmt.Sprintf("fail-open:%s:%s:%s", strings.ToLower(typ), conf, p.shape.Name), fmt.Sprintf("%s mode=%s auth(%s): request without a configured credential (%s) got %d %s", cfgs, m.mode, typ, p.shape.Name, rs.S, clipN(rs.B, 80)), wit)
				}
				cnt["must_reject_checked"]++
			case "ACCEPT":
				r.Case(key, true)
				if rs.S == 401 || rs.S == 403 || rs.S == 429 || !hasMarker {
					r.Violate(fmt.Sprintf("valid-credential-rejected:%s:%s", strings.ToLower(typ), p.shape.Name), fmt.Sprintf("%s mode=%s auth(%s): canonical credential rejected with %d %s", cfgs, m.mode, typ, rs.S, clipN(rs.B, 80)), wit)
				}
				cnt["must_accept_checked"]++
			default:
				r.Case(key, true)
				cnt["unspecified_checked_for_crash_only"]++
			}
		}
		if id == 3 {
			r.Sample(map[string]interface{}{"config": cfgs, "mode": m.mode, "probes": len(m.probes), "first_probe_headers": m.probes[5].shape.H})
		}
	}
	for id, lm := range lockMetas {
		out := res[id]
		if out == nil || len(out.Resps) < lm.k+2 {
			r.Inconclusive(fmt.Sprintf("lockout history k=%d produced no result", lm.k))
			continue
		}
		own := out.Resps[lm.k]
		otherC := out.Resps[lm.k+1]
		wit := map[string]interface{}{"failures_before": lm.k, "mode": lm.mode, "own_status": own.S, "other_client_status": otherC.S}
		r.Case(fmt.Sprintf("lockout|%s|%d", lm.mode, lm.k), true)
		if lm.k < 5 && (own.S != 200 || !strings.Contains(own.B, "BODY-RAN")) {
			r.Violate("lockout:valid-credential-rejected-before-threshold", fmt.Sprintf("mode=%s: after %d failures (<5) the valid credential got %d", lm.mode, lm.k, own.S), wit)
		}
		if lm.k >= 5 && own.S != 429 && own.S != 200 {
			r.Violate("lockout:unexpected-status", fmt.Sprintf("mode=%s: after %d failures the valid credential got %d", lm.mode, lm.k, own.S), wit)
		}
		if otherC.S != 200 {
			r.Violate("lockout:other-client-affected", fmt.Sprintf("mode=%s: client B got %d after client A failed %d times (forged X-Forwarded-For must not matter either)", lm.mode, otherC.S, lm.k), wit)
		}
		for i := 0; i < lm.k; i++ {
			if out.Resps[i].S != 401 && out.Resps[i].S != 429 {
				r.Violate("lockout:wrong-token-not-rejected", fmt.Sprintf("wrong token #%d got %d", i, out.Resps[i].S), wit)
			}
		}
		cnt["lockout_histories"]++
	}
	for k, v := range cnt {
		r.Count(k, v)
	}
	if cnt["must_reject_checked"] < 1000 || cnt["must_accept_checked"] < 50 {
		r.Inconclusive("too few decided probes")
	}
	r.Floor(1000)
	r.Finish()
}

func c06Show(s *string) string {
	if s == nil {
		return "<unset>"
	}
	return fmt.Sprintf("%q", *s)
}

// c06Carries: the header value contains the credential as a whole, delimited by the
// ends of the value or by whitespace (so "k1x" or a prefix of the secret do not count).
func c06Carries(v, cred string) bool {
	for i := 0; i+len(cred) <= len(v); i++ {
		if v[i:i+len(cred)] != cred {
			continue
		}
		leftOK := i == 0 || v[i-1] == ' ' || v[i-1] == '\t'
		rightOK := i+len(cred) == len(v) || v[i+len(cred)] == ' ' || v[i+len(cred)] == '\t'
		if leftOK && rightOK {
			return true
		}
	}
	return false
}
