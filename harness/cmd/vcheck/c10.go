package main

// C10 — Malformed source and bytecode are rejected, never mis-executed.
//
// (a) Robustness monitor: byte strings offered as source (lexer, expanded lexer, parser)
// and as .glyphc (VM with a step limit, decompiler) inside RLIMIT_AS children, every
// input pre-logged; outcome must be a result or a diagnostic — no panic, no process death,
// bounded allocation, termination under the step limit (in-worker watchdog).
// (b) Agreement monitor (VM step hook, build tag verif): for everything the compiler
// emits, the VM loads and executes it without format errors, the decompiler disassembles
// it completely, both see the same constants, and every instruction the VM executes starts
// at an instruction boundary of the disassembly with the same opcode.

import (
	"encoding/binary"
	"encoding/json"
	"fmt"
	"math/rand"
	"os"
	"path/filepath"
	"runtime"
	"strings"
	"time"

	"github.com/glyphlang/glyph/pkg/compiler"
	"github.com/glyphlang/glyph/pkg/decompiler"
	"github.com/glyphlang/glyph/pkg/parser"
	"github.com/glyphlang/glyph/pkg/vm"

	"verifharness/gen"
	"verifharness/mon"
)

func init() {
	checks["C10"] = checkC10
	workers["c10src"] = c10SrcWorker
	workers["c10bc"] = c10BcWorker
	workers["c10agree"] = c10AgreeWorker
}

var c10Interesting = []byte{0x00, 0xff, 0xef, 0xbb, 0xbf, '\r', '\n', '"', '\'', '{', '}', '(', ')', '[', ']', '#', '/', '\\', '$', '>', '@', ':', 0x80, 0xc0, 0xe2, 0x7f}

func c10Mutate(rng *rand.Rand, b []byte) []byte {
	out := append([]byte{}, b...)
	for k := 1 + rng.Intn(4); k > 0; k-- {
		if len(out) == 0 {
			out = append(out, c10Interesting[rng.Intn(len(c10Interesting))])
			continue
		}
		p := rng.Intn(len(out))
		switch rng.Intn(7) {
		case 0:
			out[p] ^= 1 << uint(rng.Intn(8))
		case 1:
			out = append(out[:p], out[p+1:]...)
		case 2:
			n := 1 + rng.Intn(8)
			if p+n > len(out) {
				n = len(out) - p
			}
			chunk := append([]byte{}, out[p:p+n]...)
			out = append(out[:p], append(chunk, out[p:]...)...)
		case 3:
			q := rng.Intn(len(out))
			if q < p {
				p, q = q, p
			}
			out = append(append([]byte{}, out[:p]...), out[q:]...)
		case 4:
			out = append(out[:p], append([]byte{c10Interesting[rng.Intn(len(c10Interesting))]}, out[p:]...)...)
		case 5:
			out[p] = c10Interesting[rng.Intn(len(c10Interesting))]
		case 6:
			out = out[:p]
		}
	}
	return out
}

func c10Corpus() [][]byte {
	var out [][]byte
	files, _ := filepath.Glob(filepath.Join(mon.Repo(), "examples", "*", "*.glyph"))
	f2, _ := filepath.Glob(filepath.Join(mon.Repo(), "examples", "*.glyph"))
	files = append(files, f2...)
	for _, f := range files {
		if b, err := os.ReadFile(f); err == nil && len(b) < 40000 {
			out = append(out, b)
		}
	}
	return out
}

// grammar-aware stressors
func c10Stressors(thorough bool) [][]byte {
	var out [][]byte
	depths := []int{10, 100, 499, 500, 501, 2000, 20000}
	if thorough {
		depths = append(depths, 200000, 1000000)
	}
	wrap := func(body string) []byte { return []byte("@ GET /t {\n" + body + "\n}\n") }
	for _, d := range depths {
		out = append(out,
			wrap("  > "+strings.Repeat("(", d)+"1"+strings.Repeat(")", d)),
			wrap("  > "+strings.Repeat("[", d)+"1"+strings.Repeat("]", d)),
			wrap("  > "+strings.Repeat("{a: ", d)+"1"+strings.Repeat("}", d)),
			wrap("  > "+strings.Repeat("-", d)+"1"),
			wrap("  > "+strings.Repeat("!", d)+"true"),
			wrap(strings.Repeat("  if true {\n", d)+"  > 1\n"+strings.Repeat("  }\n", d)),
			wrap("  > 1"+strings.Repeat(" + 1", d)),
			wrap("  > f("+strings.Repeat("1, ", d)+"1)"),
			wrap("  $ m = match 1 {\n"+strings.Repeat("    1 => 2\n", d)+"    _ => 3\n  }\n  > m"),
			wrap("  > a"+strings.Repeat(".b", d)),
			wrap("  > a"+strings.Repeat("[0]", d)),
			[]byte(strings.Repeat("(", d)),
			[]byte(strings.Repeat("@ GET /"+strings.Repeat("a/", 3)+" {\n  > 1\n}\n", d/10+1)),
			[]byte(": T {\n"+strings.Repeat("  f: List[", d%3000+1)+"int"+strings.Repeat("]", d%3000+1)+"\n}\n"),
		)
	}
	out = append(out, c10TokenBoundaries()...)
	out = append(out, c10TokenFaults()...)
	big := 1 << 20
	out = append(out, wrap("  > "+strings.Repeat("x", big)), wrap("  > \""+strings.Repeat("s", big)+"\""), wrap("  > "+strings.Repeat("9", big)), wrap("  > 1."+strings.Repeat("9", big)),
		wrap("  > \""+strings.Repeat("\\", big)), []byte(strings.Repeat("#", big)), []byte(strings.Repeat("\n", big)), []byte("\xef\xbb\xbf@ GET /t {\n  > 1\n}\n"), []byte("@ GET /t {\r\n  > 1\r\n}\r\n"), []byte("@ GET /t {\r  > 1\r}\r"))
	return out
}

// c10TokenBoundaries: every prefix of every kind of lexeme, at end of input and followed by
// each of a few continuation bytes, in three contexts. End-of-input inside a token (an escape
// sequence, an exponent, a two-character operator, a comment opener) is where scanners index
// one past the buffer.
func c10TokenBoundaries() [][]byte {
	lexemes := []string{
		`"\x41"`, `'\x41'`, `"\u00e9"`, `"\u12aB"`, `"\xZZ"`, `"\u12"`, `"a\nb\t\\\"c"`, `"\0\a\b\f\v\r"`, `"\q"`, `'\''`, `"é日本"`, "\"tab\there\"",
		`1.5e10`, `1e+5`, `1E-5`, `0x1F`, `0b101`, `0o17`, `1_000`, `.5`, `5.`, `1..2`, `9223372036854775808`, `1.7976931348623159e309`,
		`...rest`, `|>`, `=>`, `->`, `::`, `&&`, `||`, `<=`, `>=`, `!=`, `==`, `+=`, `??`, `?.`,
		`# comment`, `// comment`, `/* block */`, `/* open`,
		`@ GET /a/:b`, `? q: int = 5`, `% db: Database`, `+ auth(jwt)`, `+ ratelimit(10/min)`, `< input: T`, `: T {`, `List[int]`, `List<int>`, `int?`, `str!`, `int | str`,
		`{a: 1, "b": 2}`, `[1, ...x]`, `match x {`, `async {`, `await f`, `$ a.b = 1`, `a[0] = 1`, `x when x > 1 =>`, `! f<T>(x: T): T {`, `~ "0 * * * *"`, `& event`, `* queue`,
		`route GET /a {`, `let x = 1`, `return x`, `middleware auth`, `expects T`, `validate x`,
	}
	contexts := []string{"", "$ s = ", "@ GET /t {\n  > "}
	conts := []string{"", "\n", "\"", "'", "g", "\\", "\x00", " ", "}"}
	var out [][]byte
	for _, lx := range lexemes {
		for cut := 1; cut <= len(lx); cut++ {
			for _, ctx := range contexts {
				for _, c := range conts {
					out = append(out, []byte(ctx+lx[:cut]+c))
				}
			}
		}
	}
	return out
}

// c10Snippets: one small well-formed program per construct of the grammar.
var c10Snippets = []string{
	": User {\n  name: str! @minLen(2) @maxLen(40)\n  age: int @min(-40) @range(-1.5, 150)\n  mail: str @email @oneOf([\"a\", \"b\"])\n  tags: [str]\n  addr: Addr?\n  role: str = \"user\"\n  id: int | str\n  xs: List[int]\n}\n",
	"@ POST /users/:id -> User {\n  + auth(jwt)\n  + ratelimit(10/min)\n  % db: Database\n  < input: User\n  ? page: int = 1\n  ? (input.age > 0) :: 400 \"bad\"\n  $ u = db.users.create(input)\n  > u :: 201\n}\n",
	"@ GET /m/:x {\n  $ r = match x {\n    1 => \"one\"\n    n when n > 3 => \"big\"\n    [h, ...rest] => h\n    {a, b} => a\n    _ => null\n  }\n  switch r {\n    case \"one\" {\n      > 1\n    }\n    default {\n      > 2\n    }\n  }\n}\n",
	"! greet name: str! --formal: bool = false {\n  if formal {\n    $ msg = \"Good day, \" + name\n  } else if name == \"x\" {\n    msg = \"x\"\n  } else {\n    msg = \"Hey\"\n  }\n  > {greeting: msg}\n}\n",
	"* \"0 9 * * 0\" weekly_report {\n  + retries(3)\n  % db: Database\n  > {ok: true}\n}\n\n& \"email.send\" {\n  + concurrency(5)\n  + timeout(30)\n  > {sent: true, to: message.to}\n}\n\n~ \"user.created\" async {\n  > {id: event.id}\n}\n",
	"! sum<T>(xs: [T], init: T = 0): T {\n  $ acc = init\n  for i, x in xs {\n    if x == null {\n      continue\n    }\n    acc = acc + x\n    while acc > 100 {\n      acc = acc - 100\n      break\n    }\n  }\n  > acc\n}\n",
	"@ GET /a {\n  $ f = async {\n    > 1 + 2 * 3 - -4 % 5\n  }\n  $ o = {a: [1, 2.5, \"s\", true, null], \"b c\": {d: !false}}\n  $ o.a = o.a[0]\n  o[\"k\"] = await f\n  $ p = o.a |> toString\n  > {r: o, p: p && true || false}\n}\n",
	"@ ws /chat/:room {\n  on connect {\n    ws.join(room)\n    ws.broadcast(\"joined\")\n  }\n  on message {\n    ws.broadcast_to_room(room, input)\n  }\n  on disconnect {\n    ws.leave(room)\n  }\n}\n",
	"import \"./lib\" as lib\nconst LIMIT = 10\n\n@ GET /c {\n  > {l: LIMIT, v: lib.f(1)}\n}\n",
	"@ static /assets \"./public\"\n\n@ GET /t {\n  > text(\"hi\", 200)\n}\n\ntest \"adds\" {\n  assert 1 + 1 == 2\n}\n",
	"trait Named {\n  name(): str\n}\n\ncontract Pay {\n  charge(amount: int): bool\n}\n\nmacro! log(x) {\n  > x\n}\n",
}

// c10TokenFaults: single-token fault enumeration over the snippets. Every token of every
// snippet is, one at a time, deleted, duplicated, cut off (end of input) and replaced by each
// of a fixed set of other tokens. A parser that does not advance (or recurses) on an
// unexpected token at ANY position of the grammar shows up as a hang or a stack overflow.
func c10TokenFaults() [][]byte {
	subs := []string{"-", "(", ")", "@", ",", "x", "1", "2.5", "\"s\"", "{", "}", "[", "]", ":", "=>", "|", "!", "?", "<", ">", "\n", "...", "=", "+", "%", "$", "&", "*", "~", "#", ".", "::", "->", "if", "match", "async", "null"}
	var out [][]byte
	for _, sn := range c10Snippets {
		toks, err := parser.NewLexer(sn).Tokenize()
		if err != nil || len(toks) == 0 {
			continue
		}
		// byte offsets of the tokens: re-scan by line/column
		lines := strings.SplitAfter(sn, "\n")
		lineStart := make([]int, len(lines)+1)
		for i, l := range lines {
			lineStart[i+1] = lineStart[i] + len(l)
		}
		type span struct{ from, to int }
		var spans []span
		for i, t := range toks {
			if t.Line < 1 || t.Line > len(lines) || t.Column < 1 {
				continue
			}
			from := lineStart[t.Line-1] + t.Column - 1
			to := len(sn)
			if i+1 < len(toks) && toks[i+1].Line >= 1 && toks[i+1].Line <= len(lines) {
				to = lineStart[toks[i+1].Line-1] + toks[i+1].Column - 1
			}
			if from < 0 || from >= len(sn) || to <= from || to > len(sn) {
				continue
			}
			spans = append(spans, span{from, to})
		}
		for _, sp := range spans {
			tok := sn[sp.from:sp.to]
			out = append(out, []byte(sn[:sp.from]+sn[sp.to:]), []byte(sn[:sp.to]+tok+sn[sp.to:]), []byte(sn[:sp.from]))
			for _, sub := range subs {
				out = append(out, []byte(sn[:sp.from]+sub+" "+sn[sp.to:]))
			}
		}
	}
	return out
}

type c10Params struct {
	Kind string `json:"kind"`
}

// guard runs f under recover and the allocation bound; reports through w.
func c10Guard(w *mon.W, what string, input []byte, idx int, f func()) {
	var ms0, ms1 runtime.MemStats
	runtime.ReadMemStats(&ms0)
	var pan interface{}
	// the watchdog scales with the input (measured: the lexer needs about 2 s per MB on a
	// loaded machine); its firing means "no result after 1000x the normal time", not "slow"
	limit := 20*time.Second + time.Duration(len(input)/(64<<10))*time.Second
	w.Watch(fmt.Sprintf("%s on input %d (%d bytes)", what, idx, len(input)), limit, func() {
		defer func() { pan = recover() }()
		f()
	})
	runtime.ReadMemStats(&ms1)
	if pan != nil {
		w.Violate("panic:"+what+":"+c04Norm(fmt.Sprint(pan)), fmt.Sprintf("%s panicked: %v", what, clipN(fmt.Sprint(pan), 200)), map[string]interface{}{"input_index": idx, "input_len": len(input), "input_head_hex": fmt.Sprintf("%x", head(input, 96)), "input_head": clipN(string(head(input, 200)), 200)})
	}
	alloc := ms1.TotalAlloc - ms0.TotalAlloc
	if bound := uint64(256<<20) + 8192*uint64(len(input)); alloc > bound {
		w.Violate("allocation-out-of-proportion:"+what, fmt.Sprintf("%s allocated %d MiB for a %d-byte input (bound %d MiB)", what, alloc>>20, len(input), bound>>20), map[string]interface{}{"input_index": idx, "input_len": len(input), "input_head_hex": fmt.Sprintf("%x", head(input, 96))})
	}
}

func head(b []byte, n int) []byte {
	if len(b) > n {
		return b[:n]
	}
	return b
}

func c10SrcInput(w *mon.W, corpus, stress [][]byte, i int) []byte {
	rng := w.Rand("src", i)
	if i < len(stress) {
		return stress[i]
	}
	switch rng.Intn(10) {
	case 0:
		b := make([]byte, rng.Intn(200))
		rng.Read(b)
		return b
	case 1:
		g := gen.New(rng, gen.FullInterp())
		p := g.Program(2 + rng.Intn(6))
		pat, _ := p.RoutePath("/t")
		return c10Mutate(rng, []byte(p.Source(pat)))
	}
	if len(corpus) == 0 {
		return []byte("@ GET /t {\n  > 1\n}\n")
	}
	return c10Mutate(rng, corpus[rng.Intn(len(corpus))])
}

func c10SrcWorker(in, out string) {
	w := mon.OpenWorker(in, out)
	corpus := c10Corpus()
	stress := c10Stressors(w.Thorough())
	dir := filepath.Join(mon.BuildDir(), "run", "C10")
	os.MkdirAll(dir, 0o755)
	cur := filepath.Join(dir, fmt.Sprintf("current-src-%d.bin", os.Getpid()))
	defer os.Remove(cur)
	for i := w.From; i < w.To; i++ {
		input := c10SrcInput(w, corpus, stress, i)
		if i < len(stress) || i%64 == 0 {
			os.WriteFile(cur, input, 0o644) // on disk before the call: a fatal error cannot lose it
		}
		w.Begin(i)
		src := string(input)
		c10Guard(w, "lexer+parser", input, i, func() {
			lx := parser.NewLexer(src)
			toks, err := lx.Tokenize()
			if err != nil {
				w.Count("lexer_diagnostic", 1)
				return
			}
			if _, err := parser.NewParser(toks).Parse(); err != nil {
				w.Count("parser_diagnostic", 1)
			} else {
				w.Count("parsed_ok", 1)
			}
		})
		c10Guard(w, "expanded-lexer+parser", input, i, func() {
			lx := parser.NewExpandedLexer(src)
			toks, err := lx.Tokenize()
			if err != nil {
				return
			}
			parser.NewParser(toks).Parse()
		})
		w.Case(mon.Hash(head(input, 4096))+fmt.Sprint(len(input)), len(input) > 0)
	}
	w.Done()
}

// ---- bytecode ----

func c10Build(rng *rand.Rand) []byte {
	var b []byte
	b = append(b, "GLYP"...)
	u32 := func(v uint32) { b = binary.LittleEndian.AppendUint32(b, v) }
	u32([]uint32{1, 0, 2, 0xffffffff}[rng.Intn(4)])
	nc := rng.Intn(6)
	declared := uint32(nc)
	if rng.Intn(8) == 0 {
		declared = []uint32{0xffffffff, 0x7fffffff, uint32(nc + 1), 1 << 20}[rng.Intn(4)]
	}
	u32(declared)
	for i := 0; i < nc; i++ {
		tag := byte(rng.Intn(8))
		b = append(b, tag)
		switch rng.Intn(5) {
		case 0:
			b = binary.LittleEndian.AppendUint64(b, rng.Uint64())
		case 1:
			l := uint32(rng.Intn(6))
			if rng.Intn(6) == 0 {
				l = []uint32{0xffffffff, 0x7fffffff, 1 << 30}[rng.Intn(3)]
			}
			u32(l)
			b = append(b, "abcde"[:rng.Intn(5)]...)
		case 2:
			b = append(b, byte(rng.Intn(2)))
		}
	}
	ops := []byte{0x01, 0x02, 0x10, 0x11, 0x12, 0x13, 0x14, 0x20, 0x21, 0x22, 0x23, 0x24, 0x25, 0x30, 0x31, 0x32, 0x40, 0x41, 0x50, 0x51, 0x52, 0x53, 0x54, 0x55, 0x60, 0x61, 0x62, 0x63, 0x70, 0x71, 0x80, 0x90, 0xA0, 0xA1, 0xB0, 0xB1, 0xFF}
	var code []byte
	n := rng.Intn(40)
	operands := []uint32{0, 1, 2, 3, 4, 0x7fffffff, 0x80000000, 0xffffffff, 0xfffffffe, 1 << 16, 255}
	for i := 0; i < n; i++ {
		op := ops[rng.Intn(len(ops))]
		if rng.Intn(10) == 0 {
			op = byte(rng.Intn(256))
		}
		code = append(code, op)
		if rng.Intn(2) == 0 {
			v := operands[rng.Intn(len(operands))]
			if rng.Intn(3) == 0 {
				v = uint32(rng.Intn(n*5 + 1)) // a plausible jump target / index
			}
			code = binary.LittleEndian.AppendUint32(code, v)
		}
	}
	cl := uint32(len(code))
	if rng.Intn(8) == 0 {
		cl = []uint32{0, cl + 1, cl + 1000, 0xffffffff, cl / 2}[rng.Intn(5)]
	}
	u32(cl)
	return append(b, code...)
}

func c10BcWorker(in, out string) {
	w := mon.OpenWorker(in, out)
	// a pool of compiler-emitted bytecode to mutate
	var pool [][]byte
	prng := rand.New(rand.NewSource(w.Seed*7919 + 17))
	for len(pool) < 60 {
		f := c02Core()
		f.Match = true
		g := gen.New(prng, f)
		p := g.Program(2 + prng.Intn(6))
		pat, _ := p.RoutePath("/t")
		if mod, err := parseModule(p.Source(pat)); err == nil && firstRoute(mod) != nil {
			if bc, err := compiler.NewCompilerWithOptLevel(compiler.OptBasic).CompileRoute(firstRoute(mod)); err == nil {
				pool = append(pool, bc)
			}
		}
	}
	dir := filepath.Join(mon.BuildDir(), "run", "C10")
	os.MkdirAll(dir, 0o755)
	cur := filepath.Join(dir, fmt.Sprintf("current-bc-%d.bin", os.Getpid()))
	defer os.Remove(cur)
	for i := w.From; i < w.To; i++ {
		rng := w.Rand("bc", i)
		var input []byte
		switch rng.Intn(5) {
		case 0, 1:
			input = c10Build(rng)
		case 2:
			input = make([]byte, rng.Intn(64))
			rng.Read(input)
			if rng.Intn(2) == 0 && len(input) >= 4 {
				copy(input, "GLYP")
			}
		default:
			input = c10Mutate(rng, pool[rng.Intn(len(pool))])
		}
		os.WriteFile(cur, input, 0o644)
		w.Begin(i)
		c10Guard(w, "vm.Execute", input, i, func() {
			m := vm.NewVM()
			m.SetMaxSteps(200000)
			m.SetLocal("pin", vm.StringValue{Val: "a"})
			if _, err := m.Execute(input); err != nil {
				w.Count("vm_diagnostic", 1)
			} else {
				w.Count("vm_result", 1)
			}
		})
		c10Guard(w, "decompiler", input, i, func() {
			if _, err := decompiler.NewDecompiler().Decompile(input); err != nil {
				w.Count("decompiler_diagnostic", 1)
			} else {
				w.Count("decompiler_result", 1)
			}
		})
		w.Case(mon.Hash(input), len(input) > 8)
	}
	w.Done()
}

// ---- agreement on compiler output ----

func c10AgreeWorker(in, out string) {
	w := mon.OpenWorker(in, out)
	type step struct {
		pc int
		op vm.Opcode
	}
	for i := w.From; i < w.To; i++ {
		w.Begin(i)
		rng := w.Rand("agree", i)
		f := c02Core()
		f.Match = true
		f.LogicRhsMayFail, f.EqIntFloat, f.StrOrder = true, true, true
		g := gen.New(rng, f)
		p := g.Program(2 + rng.Intn(7))
		pat, _ := p.RoutePath("/t")
		src := p.Source(pat)
		if i%5 == 0 {
			// async / await blocks (compiled to OpAsync with an embedded body)
			src = fmt.Sprintf("@ GET /t {\n  $ a = %d\n  $ f = async {\n    $ t = a + %d\n    if t > 3 {\n      > t * 2\n    }\n    > t\n  }\n  $ g = async {\n    > [a, %d]\n  }\n  $ r = await f\n  > {x: r, y: await g}\n}\n", rng.Intn(9), rng.Intn(9), rng.Intn(9))
		}
		mod, err := parseModule(src)
		if err != nil || firstRoute(mod) == nil {
			w.Count("discarded_parse", 1)
			continue
		}
		lvl := []compiler.OptimizationLevel{compiler.OptNone, compiler.OptBasic, compiler.OptAggressive}[i%3]
		bc, err := compiler.NewCompilerWithOptLevel(lvl).CompileRoute(firstRoute(mod))
		if err != nil {
			w.Count("discarded_compile", 1)
			continue
		}
		wit := map[string]interface{}{"source": src, "opt_level": int(lvl), "bytecode_hex": fmt.Sprintf("%x", head(bc, 600))}
		dec, derr := decompiler.NewDecompiler().Decompile(bc)
		if derr != nil {
			w.Violate("decompiler-rejects-compiler-output:"+c04Norm(derr.Error()), "the decompiler fails on compiler-emitted bytecode: "+derr.Error(), wit)
			w.Case(mon.Hash(src), true)
			continue
		}
		// instruction starts according to the disassembly (offsets relative to the code section;
		// the VM's program counter is an offset into the whole file)
		codeStart, codeLen, nconst, herr := c10Header(bc)
		if herr != nil || codeStart+codeLen != len(bc) {
			w.Violate("compiler-output-does-not-match-the-container-layout", fmt.Sprintf("reference walker: %v (code %d+%d, file %d bytes)", herr, codeStart, codeLen, len(bc)), wit)
			continue
		}
		if nconst != len(dec.Constants) {
			w.Violate("constant-count-differs", fmt.Sprintf("the file declares %d constants, the decompiler lists %d", nconst, len(dec.Constants)), wit)
		}
		starts := map[int]string{}
		for _, ins := range dec.Instructions {
			starts[ins.Offset+codeStart] = ins.Opcode
		}
		var main *vm.VM
		var steps []step
		vm.VerifStep = func(m *vm.VM, pc int, op vm.Opcode) {
			if main == nil {
				main = m
			}
			if m == main && len(steps) < 500000 {
				steps = append(steps, step{pc, op})
			}
		}
		m := vm.NewVM()
		m.SetMaxSteps(400000)
		m.SetLocal("pin", vm.StringValue{Val: "ab"})
		var execErr error
		var pan interface{}
		func() {
			defer func() { pan = recover() }()
			_, execErr = m.Execute(bc)
		}()
		time.Sleep(0)
		vm.VerifStep = nil
		if pan != nil {
			w.Violate("vm-panics-on-compiler-output", fmt.Sprintf("VM panic on compiler output: %v", pan), wit)
		}
		if execErr != nil {
			for _, bad := range []string{"unknown opcode", "truncated", "constant index", "invalid bytecode", "program counter out of bounds", "beyond bytecode", "invalid iterator", "stack underflow", "jump target"} {
				if strings.Contains(execErr.Error(), bad) {
					w.Violate("vm-format-error-on-compiler-output:"+bad, "the VM reports a format error on compiler-emitted bytecode: "+execErr.Error(), wit)
				}
			}
		}
		// constants: the VM's loaded pool and the disassembly agree
		consts := vm.VerifConstants(m)
		if len(consts) != len(dec.Constants) {
			w.Violate("constant-count-differs", fmt.Sprintf("the VM loaded %d constants, the decompiler lists %d", len(consts), len(dec.Constants)), wit)
		} else {
			for k, c := range consts {
				if !c10SameConst(c, dec.Constants[k].Type, dec.Constants[k].Value) {
					w.Violate("constant-differs", fmt.Sprintf("constant %d: VM has %T %v, decompiler shows %s %s", k, c, vmValueToGo(c), dec.Constants[k].Type, dec.Constants[k].Value), wit)
					break
				}
			}
		}
		// every executed instruction starts at a disassembled instruction with the same opcode
		for _, s := range steps {
			name, ok := starts[s.pc]
			if !ok {
				w.Violate("executed-pc-not-an-instruction-boundary", fmt.Sprintf("the VM executed opcode 0x%02X at offset %d, which the disassembly does not list as an instruction start", byte(s.op), s.pc), wit)
				break
			}
			if want := c10OpName(s.op, dec); want != "" && want != name {
				w.Violate("opcode-differs-at-offset", fmt.Sprintf("offset %d: VM executes 0x%02X, disassembly shows %s", s.pc, byte(s.op), name), wit)
				break
			}
			w.Mark("opcodes_executed", fmt.Sprintf("0x%02X", byte(s.op)))
		}
		for _, ins := range dec.Instructions {
			if strings.HasPrefix(ins.Opcode, "UNKNOWN") {
				w.Violate("disassembly-has-unknown-opcode", fmt.Sprintf("the disassembly of compiler output contains %s at offset %d", ins.Opcode, ins.Offset), wit)
				break
			}
		}
		w.Count("steps_observed", len(steps))
		w.Case(mon.Hash(src), len(steps) >= 5)
		if i%1500 == 2 {
			w.Sample(map[string]interface{}{"source": src, "instructions": len(dec.Instructions), "steps_executed": len(steps)})
		}
	}
	w.Done()
}

// c10Header is the reference walker for the container layout the property states: "GLYP",
// u32 version, u32 constant count, tagged constants (0 null, 1 int64, 2 float64, 3 bool
// byte, 4 u32-length string), u32 code length, code. It returns the offset of the code.
func c10Header(bc []byte) (codeStart, codeLen, nconst int, err error) {
	if len(bc) < 12 || string(bc[:4]) != "GLYP" {
		return 0, 0, 0, fmt.Errorf("bad magic / too short")
	}
	n := int(binary.LittleEndian.Uint32(bc[8:12]))
	off := 12
	for i := 0; i < n; i++ {
		if off >= len(bc) {
			return 0, 0, 0, fmt.Errorf("constant %d beyond the end", i)
		}
		switch bc[off] {
		case 0:
			off++
		case 1, 2:
			off += 9
		case 3:
			off += 2
		case 4:
			if off+5 > len(bc) {
				return 0, 0, 0, fmt.Errorf("string constant %d truncated", i)
			}
			off += 5 + int(binary.LittleEndian.Uint32(bc[off+1:off+5]))
		default:
			return 0, 0, 0, fmt.Errorf("unknown constant tag 0x%02x", bc[off])
		}
	}
	if off+4 > len(bc) {
		return 0, 0, 0, fmt.Errorf("code length missing")
	}
	cl := int(binary.LittleEndian.Uint32(bc[off : off+4]))
	return off + 4, cl, n, nil
}

var c10Names = map[vm.Opcode]string{}

// c10OpName learns the decompiler's name for an opcode from a one-instruction disassembly.
func c10OpName(op vm.Opcode, _ *decompiler.DecompiledOutput) string {
	if n, ok := c10Names[op]; ok {
		return n
	}
	b := []byte("GLYP")
	b = binary.LittleEndian.AppendUint32(b, 1)
	b = binary.LittleEndian.AppendUint32(b, 0)
	b = binary.LittleEndian.AppendUint32(b, 5)
	b = append(b, byte(op), 0, 0, 0, 0)
	name := ""
	if d, err := decompiler.NewDecompiler().Decompile(b); err == nil && len(d.Instructions) > 0 {
		name = d.Instructions[0].Opcode
	}
	c10Names[op] = name
	return name
}

func c10SameConst(v vm.Value, typ, val string) bool {
	switch x := v.(type) {
	case vm.IntValue:
		return val == fmt.Sprint(x.Val)
	case vm.StringValue:
		return strings.Contains(val, x.Val) || len(x.Val) > 20
	case vm.BoolValue:
		return val == fmt.Sprint(x.Val)
	case vm.NullValue:
		return true
	case vm.FloatValue:
		var f float64
		_, err := fmt.Sscan(val, &f)
		return err == nil && (f == x.Val || fmt.Sprintf("%g", x.Val) == val)
	}
	return true
}

func checkC10(tier string) {
	r := mon.New("C10", tier, "exploration")
	r.Rule = "source: repository examples and generated programs under byte mutations (flip, delete, duplicate, splice, insert interesting bytes, truncate), random bytes, enumerated grammar-aware stressors (every prefix of ~70 lexeme kinds at end of input and before 9 continuation bytes; every token of 11 construct snippets deleted / duplicated / cut off / replaced by each of 37 other tokens; nesting of ( [ { - ! if match args field index at depths 10..20000 [1e6 thorough], 1 MiB identifiers/strings/numbers/comments, BOM, CRLF, lone CR) through lexer, expanded lexer and parser; bytecode: structured builder (headers, constant pools with hostile lengths, opcodes with boundary operands and jump targets, wrong code lengths), random bytes, mutations of compiler output, through vm.Execute (200000-step limit) and the decompiler; all in RLIMIT_AS=4 GiB children with a watchdog of 20 s + 1 s per 64 KiB of input. agreement: generated programs (incl. match and async/await) compiled at O0/O1/O3. distinct = input hash; non-trivial = non-empty input / >= 5 executed instructions"
	r.Assume("allocation bound: 256 MiB + 8 KiB per input byte (TotalAlloc delta); time bound: watchdog of 20 s + 1 s per 64 KiB of input per call (the lexer needs about 2 s per MiB on a loaded machine), two goroutine dumps")
	onDeath := func(kind string) func(int, mon.ChildOut, *mon.Rec) bool {
		return func(i int, co mon.ChildOut, hang *mon.Rec) bool {
			if hang != nil {
				r.Violate("does-not-terminate:"+kind, "a call did not return within 20 s: "+hang.Desc, map[string]interface{}{"input_index": i, "stack": clipN(hang.Stacks[1], 1500)})
				return true
			}
			r.Violate("process-death:"+kind+":"+co.Death, fmt.Sprintf("%s input %d killed the process (%s): %s", kind, i, co.Death, clipN(mon.PanicExcerpt(co.Tail, 14), 700)), map[string]interface{}{"input_index": i, "how_to_regenerate": "vcheck worker " + kind + " with from=to-1=" + fmt.Sprint(i)})
			return true
		}
	}
	nstress := len(c10Stressors(r.Thorough()))
	ns := nstress + r.Pick(30000, 2000000) // every enumerated stressor runs, then the PRNG-driven mutations
	r.Set("enumerated_source_stressors", nstress)
	r.RunBatch(mon.Batch{Worker: "c10src", N: ns, Chunk: (ns + 15) / 16, Parallel: 16, MemKB: 4 << 20, Timeout: 60 * time.Minute, OnDeath: onDeath("c10src")})
	nb := r.Pick(40000, 2000000)
	r.RunBatch(mon.Batch{Worker: "c10bc", N: nb, Chunk: (nb + 15) / 16, Parallel: 16, MemKB: 4 << 20, Timeout: 60 * time.Minute, OnDeath: onDeath("c10bc")})
	na := r.Pick(6000, 200000)
	r.RunBatch(mon.Batch{Worker: "c10agree", N: na, Chunk: (na + 15) / 16, Parallel: 16, MemKB: 4 << 20, Timeout: 60 * time.Minute, OnDeath: onDeath("c10agree")})
	if r.SetSize("opcodes_executed") < 15 {
		r.Inconclusive("the step hook observed fewer than 15 distinct opcodes (is the harness built with -tags verif?)")
	}
	r.Floor(5000)
	r.Finish()
}

var _ = json.Marshal
