package main

// Builds repository AST nodes directly from the abstract programs of package gen, in
// value form, pointer form or a PRNG-chosen mix (what a library user can hand to the
// compiler; the optimizer's rewrites match on pointer-form nodes).

import (
	"math/rand"

	"github.com/glyphlang/glyph/pkg/ast"

	"verifharness/gen"
)

type astForm struct {
	ptr bool
	mix *rand.Rand // when non-nil, each node chooses its form at random
}

func (f astForm) usePtr() bool {
	if f.mix != nil {
		return f.mix.Intn(2) == 0
	}
	return f.ptr
}

var binOps = map[string]ast.BinOp{"+": ast.Add, "-": ast.Sub, "*": ast.Mul, "/": ast.Div, "%": ast.Mod, "==": ast.Eq, "!=": ast.Ne, "<": ast.Lt, "<=": ast.Le, ">": ast.Gt, ">=": ast.Ge, "&&": ast.And, "||": ast.Or}

// buildable reports whether the program only uses constructs astExpr/astStmt cover.
func buildable(p *gen.Prog) bool {
	if len(p.Funcs) > 0 {
		return false
	}
	_, kinds := p.Size()
	return !kinds["e:match"]
}

func astExpr(e *gen.Expr, f astForm) ast.Expr {
	switch e.K {
	case "int":
		return lit(ast.IntLiteral{Value: e.I}, f)
	case "float":
		return lit(ast.FloatLiteral{Value: e.F}, f)
	case "str":
		return lit(ast.StringLiteral{Value: e.S}, f)
	case "bool":
		return lit(ast.BoolLiteral{Value: e.B}, f)
	case "null":
		return lit(ast.NullLiteral{}, f)
	case "var":
		if f.usePtr() {
			return &ast.VariableExpr{Name: e.S}
		}
		return ast.VariableExpr{Name: e.S}
	case "un":
		op := ast.Neg
		if e.Op == "!" {
			op = ast.Not
		}
		if f.usePtr() {
			return &ast.UnaryOpExpr{Op: op, Right: astExpr(e.A[0], f)}
		}
		return ast.UnaryOpExpr{Op: op, Right: astExpr(e.A[0], f)}
	case "bin":
		l, r := astExpr(e.A[0], f), astExpr(e.A[1], f)
		if f.usePtr() {
			return &ast.BinaryOpExpr{Op: binOps[e.Op], Left: l, Right: r}
		}
		return ast.BinaryOpExpr{Op: binOps[e.Op], Left: l, Right: r}
	case "arr":
		var els []ast.Expr
		for _, a := range e.A {
			els = append(els, astExpr(a, f))
		}
		return ast.ArrayExpr{Elements: els}
	case "obj":
		var fs []ast.ObjectField
		for i, a := range e.A {
			fs = append(fs, ast.ObjectField{Key: e.Keys[i], Value: astExpr(a, f)})
		}
		if f.usePtr() {
			return &ast.ObjectExpr{Fields: fs}
		}
		return ast.ObjectExpr{Fields: fs}
	case "field":
		if f.usePtr() {
			return &ast.FieldAccessExpr{Object: astExpr(e.A[0], f), Field: e.S}
		}
		return ast.FieldAccessExpr{Object: astExpr(e.A[0], f), Field: e.S}
	case "index":
		return ast.ArrayIndexExpr{Array: astExpr(e.A[0], f), Index: astExpr(e.A[1], f)}
	case "call":
		var args []ast.Expr
		for _, a := range e.A {
			args = append(args, astExpr(a, f))
		}
		if f.usePtr() {
			return &ast.FunctionCallExpr{Name: e.S, Args: args}
		}
		return ast.FunctionCallExpr{Name: e.S, Args: args}
	}
	return ast.LiteralExpr{Value: ast.NullLiteral{}}
}

func lit(l ast.Literal, f astForm) ast.Expr {
	if f.usePtr() {
		return &ast.LiteralExpr{Value: l}
	}
	return ast.LiteralExpr{Value: l}
}

func astStmts(ss []*gen.Stmt, f astForm) []ast.Statement {
	var out []ast.Statement
	for _, s := range ss {
		out = append(out, astStmt(s, f)...)
	}
	return out
}

func astStmt(s *gen.Stmt, f astForm) []ast.Statement {
	one := func(v, p ast.Statement) []ast.Statement {
		if f.usePtr() {
			return []ast.Statement{p}
		}
		return []ast.Statement{v}
	}
	switch s.K {
	case "decl":
		e := astExpr(s.E, f)
		// the compiler's statement switch has no pointer case for declarations
		return []ast.Statement{ast.AssignStatement{Target: s.Name, Value: e}}
	case "assign":
		e := astExpr(s.E, f)
		return one(ast.ReassignStatement{Target: s.Name, Value: e}, &ast.ReassignStatement{Target: s.Name, Value: e})
	case "if":
		var els []ast.Statement
		if s.ElseIf != nil {
			els = astStmt(s.ElseIf, f)
		} else if s.Else != nil {
			els = astStmts(s.Else, f)
		}
		c, th := astExpr(s.E, f), astStmts(s.Body, f)
		return one(ast.IfStatement{Condition: c, ThenBlock: th, ElseBlock: els}, &ast.IfStatement{Condition: c, ThenBlock: th, ElseBlock: els})
	case "while":
		init := ast.AssignStatement{Target: s.Name, Value: ast.LiteralExpr{Value: ast.IntLiteral{Value: 0}}}
		c, b := astExpr(s.E, f), astStmts(s.Body, f)
		w := one(ast.WhileStatement{Condition: c, Body: b}, &ast.WhileStatement{Condition: c, Body: b})
		return append([]ast.Statement{init}, w...)
	case "for", "fori":
		it, b := astExpr(s.E, f), astStmts(s.Body, f)
		key, val := "", s.Name
		if s.K == "fori" {
			key, val = s.Name, s.Name2
		}
		return one(ast.ForStatement{KeyVar: key, ValueVar: val, Iterable: it, Body: b}, &ast.ForStatement{KeyVar: key, ValueVar: val, Iterable: it, Body: b})
	case "switch":
		sw := ast.SwitchStatement{Value: astExpr(s.E, f)}
		for _, c := range s.Cases {
			if c.Val == nil {
				sw.Default = astStmts(c.Body, f)
				if sw.Default == nil {
					sw.Default = []ast.Statement{}
				}
			} else {
				sw.Cases = append(sw.Cases, ast.SwitchCase{Value: astExpr(c.Val, f), Body: astStmts(c.Body, f)})
			}
		}
		p := sw
		return one(sw, &p)
	case "ret":
		e := astExpr(s.E, f)
		return one(ast.ReturnStatement{Value: e}, &ast.ReturnStatement{Value: e})
	case "retst":
		e := astExpr(s.E, f)
		return one(ast.ReturnStatement{Value: e, Status: s.Status}, &ast.ReturnStatement{Value: e, Status: s.Status})
	case "guard":
		c := astExpr(s.E, f)
		return one(ast.GuardStatement{Condition: c, Status: s.Status, Message: s.Msg}, &ast.GuardStatement{Condition: c, Status: s.Status, Message: s.Msg})
	case "break":
		return one(ast.BreakStatement{}, &ast.BreakStatement{})
	case "continue":
		return one(ast.ContinueStatement{}, &ast.ContinueStatement{})
	}
	return nil
}
