package main

// C07 — Declared data contracts are enforced at the boundary.
//
// Reference conformance monitor: type definitions are generated together with documents
// that conform by construction and single-fault mutants of them; typed query declarations
// with conforming / faulty query strings; return types with conforming / faulty literals.
// The route body echoes what it received plus a marker, so "the body ran", "defaults were
// applied exactly to absent fields" and "a violation was rejected with a 4xx (5xx for a bad
// return value)" are all observed at the HTTP boundary, in both execution modes.

import (
	"encoding/json"
	"fmt"
	"math/rand"
	"net/url"
	"reflect"
	"regexp"
	"sort"
	"strings"

	"verifharness/mon"
)

func init() { checks["C07"] = checkC07 }

type c07Field struct {
	Name     string      `json:"name"`
	Kind     string      `json:"kind"`  // int str bool float named list union
	Elem     string      `json:"elem,omitempty"` // list element kind: int str named
	Spelling string      `json:"spelling,omitempty"` // [T] T[] List[T] List<T>
	Required bool        `json:"required"`
	Optional bool        `json:"optional_mark,omitempty"`
	Default  interface{} `json:"default,omitempty"`
}

type c07Type struct {
	Fields []c07Field `json:"fields"`
}

func c07TypeSrc(name string, t c07Type) string {
	var b strings.Builder
	fmt.Fprintf(&b, ": %s {\n", name)
	for _, f := range t.Fields {
		ts := ""
		switch f.Kind {
		case "int", "str", "bool", "float":
			ts = f.Kind
		case "named":
			ts = "Addr"
		case "self":
			ts = name // the type refers to itself
		case "selflist":
			ts = "[" + name + "]"
		case "union":
			ts = "int | str"
		case "list":
			e := f.Elem
			if e == "named" {
				e = "Addr"
			}
			switch f.Spelling {
			case "[T]":
				ts = "[" + e + "]"
			case "T[]":
				ts = e + "[]"
			case "List[T]":
				ts = "List[" + e + "]"
			default:
				ts = "List<" + e + ">"
			}
		}
		if f.Required {
			ts += "!"
		} else if f.Optional {
			ts += "?"
		}
		if f.Default != nil {
			ts += " = " + c07Lit(f.Default)
		}
		fmt.Fprintf(&b, "  %s: %s\n", f.Name, ts)
	}
	b.WriteString("}\n")
	return b.String()
}

const c07Addr = ": Addr {\n  city: str!\n  zip: int\n}\n\n"

// c07Lit prints a JSON-like value as a GlyphLang literal.
func c07Lit(v interface{}) string {
	switch x := v.(type) {
	case nil:
		return "null"
	case string:
		return fmt.Sprintf("%q", x)
	case bool:
		return fmt.Sprint(x)
	case int:
		return fmt.Sprint(x)
	case float64:
		s := fmt.Sprint(x)
		if !strings.ContainsAny(s, ".e") {
			s += ".0"
		}
		return s
	case []interface{}:
		var p []string
		for _, e := range x {
			p = append(p, c07Lit(e))
		}
		return "[" + strings.Join(p, ", ") + "]"
	case map[string]interface{}:
		ks := []string{}
		for k := range x {
			ks = append(ks, k)
		}
		sort.Strings(ks)
		var p []string
		for _, k := range ks {
			p = append(p, k+": "+c07Lit(x[k]))
		}
		return "{" + strings.Join(p, ", ") + "}"
	}
	return "null"
}

func c07GenType(rng *rand.Rand) c07Type {
	n := 1 + rng.Intn(5)
	var t c07Type
	hasReq := false
	for i := 0; i < n; i++ {
		f := c07Field{Name: fmt.Sprintf("f%d", i)}
		f.Kind = []string{"int", "str", "bool", "float", "named", "list", "list", "union", "str", "int"}[rng.Intn(10)]
		if f.Kind == "list" {
			f.Elem = []string{"int", "str", "named"}[rng.Intn(3)]
			f.Spelling = []string{"[T]", "T[]", "List[T]", "List<T>"}[rng.Intn(4)]
		}
		if i > 0 && rng.Intn(7) == 0 {
			// a self-referential field (a tree / linked structure): never required, no default
			f.Kind = []string{"self", "selflist"}[rng.Intn(2)]
			f.Optional = f.Kind == "self"
			t.Fields = append(t.Fields, f)
			continue
		}
		switch rng.Intn(4) {
		case 0, 1:
			f.Required = true
			hasReq = true
		case 2:
			f.Optional = rng.Intn(2) == 0
		case 3:
			switch f.Kind {
			case "int":
				f.Default = 7 + rng.Intn(90)
			case "str":
				f.Default = fmt.Sprintf("dflt%d", rng.Intn(90))
			case "bool":
				f.Default = rng.Intn(2) == 0
			case "float":
				f.Default = float64(rng.Intn(90)) + 0.5
			}
		}
		t.Fields = append(t.Fields, f)
	}
	if !hasReq {
		t.Fields[0].Required = true
		t.Fields[0].Optional = false
		t.Fields[0].Default = nil
	}
	return t
}

func c07Good(rng *rand.Rand, kind, elem string) interface{} {
	switch kind {
	case "int":
		return rng.Intn(1000)
	case "str":
		return fmt.Sprintf("s%d", rng.Intn(1000))
	case "bool":
		return rng.Intn(2) == 0
	case "float":
		return float64(rng.Intn(1000)) + 0.25
	case "named":
		m := map[string]interface{}{"city": fmt.Sprintf("c%d", rng.Intn(100))}
		if rng.Intn(2) == 0 {
			m["zip"] = rng.Intn(99999)
		}
		return m
	case "union":
		if rng.Intn(2) == 0 {
			return rng.Intn(100)
		}
		return "u"
	case "list":
		n := rng.Intn(4)
		l := []interface{}{}
		for i := 0; i < n; i++ {
			l = append(l, c07Good(rng, elem, ""))
		}
		return l
	}
	return nil
}

// c07Bad returns a value that clearly violates the kind.
func c07Bad(kind string) interface{} {
	switch kind {
	case "int", "float":
		return "not-a-number"
	case "str":
		return 12345
	case "bool":
		return "yes"
	case "named":
		return 5
	case "union":
		return true
	case "list", "selflist":
		return 5
	case "self":
		return "not-an-object"
	}
	return map[string]interface{}{}
}

type c07Doc struct {
	Fault string                 `json:"fault"` // "" = conforming
	Raw   *string                `json:"raw,omitempty"`
	Doc   map[string]interface{} `json:"doc,omitempty"`
	Field string                 `json:"field,omitempty"`
	Spell string                 `json:"spelling,omitempty"`
}

func c07Conforming(rng *rand.Rand, t c07Type) map[string]interface{} {
	return c07ConformingAt(rng, t, 0)
}

// c07ConformingAt: nested occurrences of the type itself (depth > 0) carry every field that
// has a default, so that the expected echo does not depend on whether defaults are applied
// inside nested objects (unspecified).
func c07ConformingAt(rng *rand.Rand, t c07Type, depth int) map[string]interface{} {
	d := map[string]interface{}{}
	for _, f := range t.Fields {
		switch f.Kind {
		case "self":
			if depth < 2 && rng.Intn(2) == 0 {
				d[f.Name] = c07ConformingAt(rng, t, depth+1)
			}
			continue
		case "selflist":
			if depth < 2 && rng.Intn(2) == 0 {
				l := []interface{}{}
				for k := rng.Intn(3); k > 0; k-- {
					l = append(l, c07ConformingAt(rng, t, depth+1))
				}
				d[f.Name] = l
			}
			continue
		}
		if f.Required || rng.Intn(2) == 0 || (depth > 0 && f.Default != nil) {
			d[f.Name] = c07Good(rng, f.Kind, f.Elem)
		}
	}
	if depth > 0 {
		return d
	}
	if rng.Intn(3) == 0 {
		d["extra_field"] = "ignored"
	}
	return d
}

func c07Clone(d map[string]interface{}) map[string]interface{} {
	b, _ := json.Marshal(d)
	var o map[string]interface{}
	json.Unmarshal(b, &o)
	return o
}

func c07Mutants(rng *rand.Rand, t c07Type, base map[string]interface{}) []c07Doc {
	var out []c07Doc
	raw := func(fault, s string) { out = append(out, c07Doc{Fault: fault, Raw: &s}) }
	for _, f := range t.Fields {
		if f.Required {
			d := c07Clone(base)
			delete(d, f.Name)
			out = append(out, c07Doc{Fault: "missing-required-field", Doc: d, Field: f.Name})
			d2 := c07Clone(base)
			d2[f.Name] = nil
			out = append(out, c07Doc{Fault: "null-for-required-field", Doc: d2, Field: f.Name})
		}
		d3 := c07Clone(base)
		d3[f.Name] = c07Bad(f.Kind)
		out = append(out, c07Doc{Fault: "wrong-kind:" + f.Kind, Doc: d3, Field: f.Name})
		if f.Kind == "int" {
			dfr := c07Clone(base)
			dfr[f.Name] = 2.5
			out = append(out, c07Doc{Fault: "fractional-number-for-int", Doc: dfr, Field: f.Name})
		}
		if f.Kind == "list" && f.Elem == "int" {
			// a violating element of the same JSON kind as the conforming ones before it (every JSON number is one
			// dynamic type to the server): the verdict on an element must not be inherited from its neighbours
			for _, l := range [][]interface{}{{1, 2.5}, {7, 8, 9, 0.5}, {2.5, 1}, {3, -4.75, 5}} {
				dl := c07Clone(base)
				dl[f.Name] = l
				out = append(out, c07Doc{Fault: "list-int-element-fractional", Doc: dl, Field: f.Name, Spell: f.Spelling})
			}
		}
		if f.Kind == "list" && f.Elem != "int" && f.Elem != "float" && f.Elem != "union" {
			// same idea for the other element kinds: good, good, bad of a different JSON kind, good
			dl := c07Clone(base)
			dl[f.Name] = []interface{}{c07Good(rng, f.Elem, ""), c07Good(rng, f.Elem, ""), c07Bad(f.Elem), c07Good(rng, f.Elem, "")}
			out = append(out, c07Doc{Fault: "list-element-wrong-kind-in-the-middle", Doc: dl, Field: f.Name, Spell: f.Spelling})
		}
		if f.Kind == "list" {
			d4 := c07Clone(base)
			good := c07Good(rng, f.Elem, "")
			d4[f.Name] = []interface{}{good, c07Bad(f.Elem)}
			out = append(out, c07Doc{Fault: "list-element-wrong-kind", Doc: d4, Field: f.Name, Spell: f.Spelling})
			if f.Elem == "named" {
				d5 := c07Clone(base)
				d5[f.Name] = []interface{}{map[string]interface{}{"zip": 1}}
				out = append(out, c07Doc{Fault: "list-element-missing-required", Doc: d5, Field: f.Name, Spell: f.Spelling})
			}
		}
		if f.Kind == "self" || f.Kind == "selflist" {
			// the fault sits in a nested occurrence of the type itself
			wrap := func(inner map[string]interface{}) interface{} {
				if f.Kind == "selflist" {
					return []interface{}{c07ConformingAt(rng, t, 2), inner}
				}
				return inner
			}
			for _, g := range t.Fields {
				if g.Kind == "self" || g.Kind == "selflist" {
					continue
				}
				if g.Required {
					in := c07ConformingAt(rng, t, 2)
					delete(in, g.Name)
					d := c07Clone(base)
					d[f.Name] = wrap(in)
					out = append(out, c07Doc{Fault: "self-nested-missing-required", Doc: d, Field: f.Name + "." + g.Name})
					// one level deeper
					in2 := c07ConformingAt(rng, t, 2)
					delete(in2, g.Name)
					mid := c07ConformingAt(rng, t, 2)
					mid[f.Name] = wrap(in2)
					dd := c07Clone(base)
					dd[f.Name] = wrap(mid)
					out = append(out, c07Doc{Fault: "self-nested-2-missing-required", Doc: dd, Field: f.Name + "." + f.Name + "." + g.Name})
				}
				in3 := c07ConformingAt(rng, t, 2)
				in3[g.Name] = c07Bad(g.Kind)
				d3 := c07Clone(base)
				d3[f.Name] = wrap(in3)
				out = append(out, c07Doc{Fault: "self-nested-wrong-kind:" + g.Kind, Doc: d3, Field: f.Name + "." + g.Name})
				break
			}
		}
		if f.Kind == "named" {
			d6 := c07Clone(base)
			d6[f.Name] = map[string]interface{}{"zip": 5}
			out = append(out, c07Doc{Fault: "nested-missing-required", Doc: d6, Field: f.Name})
			d7 := c07Clone(base)
			d7[f.Name] = map[string]interface{}{"city": 99}
			out = append(out, c07Doc{Fault: "nested-wrong-kind", Doc: d7, Field: f.Name})
		}
	}
	raw("body-is-array", "[1,2]")
	raw("body-is-string", `"just a string"`)
	raw("body-is-number", "7")
	raw("body-is-null", "null")
	raw("body-empty", "")
	raw("body-malformed", `{"f0": `)
	return out
}

// expected echo: the document plus defaults for absent fields
func c07Expected(t c07Type, d map[string]interface{}) map[string]interface{} {
	e := c07Clone(d)
	for _, f := range t.Fields {
		if _, ok := e[f.Name]; !ok && f.Default != nil {
			b, _ := json.Marshal(f.Default)
			var v interface{}
			json.Unmarshal(b, &v)
			e[f.Name] = v
		}
	}
	return e
}

type c07Q struct {
	Name     string      `json:"name"`
	Kind     string      `json:"kind"`
	Required bool        `json:"required"`
	Default  interface{} `json:"default,omitempty"`
}

type c07Probe struct {
	what   string // input | query | return
	fault  string
	spell  string
	expect map[string]interface{} // for conforming input: expected echo; for query: expected bindings
	desc   interface{}
	hasDefaults bool
	form        string // return probes: how the value reaches the end of the route
}

func checkC07(tier string) {
	r := mon.New("C07", tier, "exploration")
	r.Rule = "PRNG-generated type definitions (1-5 fields over int/str/bool/float/nested type/lists in 4 spellings/union; required, optional, defaults) x {documents conforming by construction, single-fault mutants: missing/null required field, wrong kind per field, bad list element, nested faults, body that is an array/string/number/null/empty/malformed}; typed query declarations x {conforming, missing required, unparsable, overflow}; return types x {conforming, faulty literal}; both execution modes. distinct = (type, document, mode); non-trivial = a mutant, or a conforming document for a type with >=2 fields"
	nTypes := r.Pick(1000, 40000)
	rng := r.Rand("types")
	var jobs []HJob
	metas := map[int][]c07Probe{}
	srcs := map[int]string{}
	for ti := 0; ti < nTypes; ti++ {
		t := c07GenType(rng)
		var src strings.Builder
		src.WriteString(c07Addr)
		src.WriteString(c07TypeSrc("T", t))
		src.WriteString("\n@ POST /in {\n  < input: T\n  > {marker: \"BODY-RAN\", echo: input}\n}\n\n@ PUT /in {\n  < input: T\n  > {marker: \"BODY-RAN\", echo: input}\n}\n\n")
		hasDefaults := false
		for _, f := range t.Fields {
			if f.Default != nil {
				hasDefaults = true
			}
		}
		var reqs []HReq
		var probes []c07Probe
		// --- input documents
		for k := 0; k < 3; k++ {
			d := c07Conforming(rng, t)
			b, _ := json.Marshal(d)
			reqs = append(reqs, HReq{M: []string{"POST", "PUT"}[k%2], P: "/in", B: sp(string(b)), H: map[string][]string{"Content-Type": {"application/json"}}})
			probes = append(probes, c07Probe{what: "input", expect: c07Expected(t, d), desc: d, hasDefaults: hasDefaults})
		}
		base := c07Conforming(rng, t)
		for _, f := range t.Fields { // make every field present in the base so that single faults are single
			if _, ok := base[f.Name]; !ok {
				base[f.Name] = c07Good(rng, f.Kind, f.Elem)
			}
		}
		for _, m := range c07Mutants(rng, t, base) {
			var body string
			if m.Raw != nil {
				body = *m.Raw
			} else {
				b, _ := json.Marshal(m.Doc)
				body = string(b)
			}
			reqs = append(reqs, HReq{M: "POST", P: "/in", B: sp(body), H: map[string][]string{"Content-Type": {"application/json"}}})
			probes = append(probes, c07Probe{what: "input", fault: m.Fault, spell: m.Spell, desc: map[string]interface{}{"body": body, "field": m.Field}})
		}
		// --- typed query parameters
		nq := 1 + rng.Intn(3)
		var qs []c07Q
		src.WriteString("@ GET /q {\n")
		for i := 0; i < nq; i++ {
			q := c07Q{Name: fmt.Sprintf("q%d", i), Kind: []string{"int", "float", "bool", "str"}[rng.Intn(4)]}
			switch rng.Intn(3) {
			case 0:
				q.Required = true
			case 1:
				q.Default = c07Good(rng, q.Kind, "")
			}
			qs = append(qs, q)
			decl := "  ? " + q.Name + ": " + q.Kind
			if q.Required {
				decl += "!"
			}
			if q.Default != nil {
				decl += " = " + c07Lit(q.Default)
			}
			src.WriteString(decl + "\n")
		}
		src.WriteString("  > {marker: \"BODY-RAN\", echo: query}\n}\n\n")
		qstr := func(vals map[string]string) string {
			u := url.Values{}
			for k, v := range vals {
				u.Set(k, v)
			}
			if len(u) == 0 {
				return "/q"
			}
			return "/q?" + u.Encode()
		}
		goodQ := func(k string) (string, interface{}) {
			switch k {
			case "int":
				n := rng.Intn(1000)
				return fmt.Sprint(n), float64(n)
			case "float":
				f := float64(rng.Intn(1000)) + 0.5
				return fmt.Sprint(f), f
			case "bool":
				b := rng.Intn(2) == 0
				return fmt.Sprint(b), b
			}
			s := fmt.Sprintf("v%d", rng.Intn(100))
			return s, s
		}
		for k := 0; k < 2; k++ {
			vals := map[string]string{}
			exp := map[string]interface{}{}
			for _, q := range qs {
				if q.Required || rng.Intn(2) == 0 {
					s, v := goodQ(q.Kind)
					vals[q.Name] = s
					exp[q.Name] = v
				} else if q.Default != nil {
					b, _ := json.Marshal(q.Default)
					var v interface{}
					json.Unmarshal(b, &v)
					exp[q.Name] = v
				}
			}
			reqs = append(reqs, HReq{M: "GET", P: qstr(vals)})
			probes = append(probes, c07Probe{what: "query", expect: exp, desc: map[string]interface{}{"decls": qs, "query": qstr(vals)}})
		}
		for _, q := range qs {
			all := map[string]string{}
			for _, q2 := range qs {
				s, _ := goodQ(q2.Kind)
				all[q2.Name] = s
			}
			if q.Required {
				m := map[string]string{}
				for k, v := range all {
					if k != q.Name {
						m[k] = v
					}
				}
				reqs = append(reqs, HReq{M: "GET", P: qstr(m)})
				probes = append(probes, c07Probe{what: "query", fault: "missing-required-query-param", desc: map[string]interface{}{"decls": qs, "query": qstr(m)}})
			}
			if q.Kind != "str" {
				bad := map[string]string{"int": "12x", "float": "1.2.3", "bool": "maybe"}[q.Kind]
				m := map[string]string{}
				for k, v := range all {
					m[k] = v
				}
				m[q.Name] = bad
				reqs = append(reqs, HReq{M: "GET", P: qstr(m)})
				probes = append(probes, c07Probe{what: "query", fault: "unparsable-" + q.Kind + "-query-param", desc: map[string]interface{}{"decls": qs, "query": qstr(m)}})
				if q.Kind == "int" {
					m2 := map[string]string{}
					for k, v := range all {
						m2[k] = v
					}
					m2[q.Name] = "99999999999999999999999"
					reqs = append(reqs, HReq{M: "GET", P: qstr(m2)})
					probes = append(probes, c07Probe{what: "query", fault: "overflowing-int-query-param", desc: map[string]interface{}{"decls": qs, "query": qstr(m2)}})
				}
			}
		}
		// --- return types
		goodRet := c07Conforming(rng, t)
		delete(goodRet, "extra_field")
		fmt.Fprintf(&src, "@ GET /retgood -> T {\n  > %s\n}\n\n", c07Lit(goodRet))
		reqs = append(reqs, HReq{M: "GET", P: "/retgood"})
		probes = append(probes, c07Probe{what: "return", desc: goodRet})
		ms := c07Mutants(rng, t, base)
		var docMs []c07Doc
		for _, m := range ms {
			if m.Doc != nil && m.Fault != "null-for-required-field" {
				docMs = append(docMs, m)
			}
		}
		for k := 0; k < 4 && len(docMs) > 0; k++ {
			m := docMs[rng.Intn(len(docMs))]
			// the violating value reaches the end of the route in different ways: returned directly, through a variable,
			// from inside a branch, or as the value of the last statement of a body that has no `>` at all
			lit := c07Lit(m.Doc)
			body := "  > " + lit + "\n"
			switch k {
			case 1:
				body = "  $ v = " + lit + "\n  > v\n"
			case 2:
				body = "  $ c = 1\n  if c < 2 {\n    > " + lit + "\n  }\n  > " + c07Lit(goodRet) + "\n"
			case 3:
				body = "  $ v = " + lit + "\n"
			}
			fmt.Fprintf(&src, "@ GET /retbad%d -> T {\n%s}\n\n", k, body)
			reqs = append(reqs, HReq{M: "GET", P: fmt.Sprintf("/retbad%d", k)})
			probes = append(probes, c07Probe{what: "return", fault: m.Fault, spell: m.Spell, desc: m.Doc, form: []string{"direct", "via-variable", "in-branch", "implicit-last-statement"}[k]})
		}
		for mode := 0; mode < 2; mode++ {
			id := ti*2 + mode
			metas[id] = probes
			srcs[id] = src.String()
			jobs = append(jobs, HJob{ID: id, Src: src.String(), Interp: mode == 1, Reqs: reqs})
		}
		if ti == 0 {
			r.Sample(map[string]interface{}{"source": src.String(), "first_requests": reqs[:4]})
		}
	}
	res, err := httpRun(r, jobs, HRunOpts{Tag: "c07"})
	if err != nil {
		r.Inconclusive("cannot build the HTTP worker: " + err.Error())
		r.Finish()
	}
	okConf, okRej := 0, 0
	for id, probes := range metas {
		mode := []string{"compiled", "interpreted"}[id%2]
		out := res[id]
		if out == nil || out.Died != "" || out.Ev == "hang" {
			msg := "no result"
			if out != nil {
				msg = out.Died + " " + out.Death + out.Hang
			}
			r.Violate("server-failed:"+mode, msg, map[string]interface{}{"source": srcs[id]})
			continue
		}
		if out.ParseErr != "" || out.SetupErr != "" {
			r.Count("module_refused:"+mode, 1)
			if r.Counter("module_refused:"+mode) <= 2 {
				r.Set("module_refused_example:"+mode, out.ParseErr+out.SetupErr+" :: "+clipN(srcs[id], 600))
			}
			continue
		}
		if mode == "compiled" && !out.Compiled {
			r.Count("compiled_mode_fell_back", 1)
		}
		for i, p := range probes {
			if i >= len(out.Resps) {
				break
			}
			rs := out.Resps[i]
			ran := strings.Contains(rs.B, "BODY-RAN")
			wit := map[string]interface{}{"mode": mode, "source": srcs[id], "probe": p.desc, "status": rs.S, "body": clipN(rs.B, 300), "fault": p.fault}
			key := fmt.Sprintf("%d|%d|%s", id, i, mode)
			if rs.Dropped {
				r.Violate("dropped:"+mode+":"+p.what, "connection dropped: "+rs.Panic, wit)
				continue
			}
			sp := ""
			if p.spell != "" {
				sp = ":spelled-" + p.spell
			}
			switch {
			case p.what == "input" && p.fault == "":
				r.Case(key, len(p.expect) >= 2)
				if rs.S != 200 || !ran {
					// name the kind of the field the server complained about, if it named one
					kind := "unknown"
					if m := c07FieldRe.FindStringSubmatch(rs.B); m != nil {
						kind = c07KindOf(srcs[id], m[1])
					}
					r.Violate("conforming-input-rejected:"+kind+":"+mode, fmt.Sprintf("a conforming body got %d %s", rs.S, clipN(rs.B, 120)), wit)
					continue
				}
				var got struct {
					Echo map[string]interface{} `json:"echo"`
				}
				json.Unmarshal([]byte(rs.B), &got)
				if !reflect.DeepEqual(got.Echo, p.expect) {
					sig := "input-altered:" + mode
					// is the difference exactly "defaults missing"?
					missingOnly := true
					for k, v := range p.expect {
						if gv, ok := got.Echo[k]; ok {
							if !reflect.DeepEqual(gv, v) {
								missingOnly = false
							}
						}
					}
					for k := range got.Echo {
						if _, ok := p.expect[k]; !ok {
							missingOnly = false
						}
					}
					if missingOnly {
						sig = "default-not-applied-to-absent-field:" + mode
					}
					wit["expected_echo"] = p.expect
					r.Violate(sig, fmt.Sprintf("the body saw %s, expected %s", clipN(fmt.Sprint(got.Echo), 150), clipN(fmt.Sprint(p.expect), 150)), wit)
					continue
				}
				okConf++
			case p.what == "input":
				r.Case(key, true)
				if ran || rs.S < 400 || rs.S >= 500 {
					r.Violate("accepted:"+p.fault+sp+":"+mode, fmt.Sprintf("input fault %q was answered %d ran=%v %s", p.fault, rs.S, ran, clipN(rs.B, 100)), wit)
					continue
				}
				okRej++
			case p.what == "query" && p.fault == "":
				r.Case(key, true)
				if rs.S != 200 || !ran {
					r.Violate("conforming-query-rejected:"+mode, fmt.Sprintf("a conforming query got %d %s", rs.S, clipN(rs.B, 120)), wit)
					continue
				}
				var got struct {
					Echo map[string]interface{} `json:"echo"`
				}
				json.Unmarshal([]byte(rs.B), &got)
				for k, v := range p.expect {
					if !reflect.DeepEqual(got.Echo[k], v) {
						wit["expected"] = p.expect
						r.Violate("query-binding-wrong:"+mode, fmt.Sprintf("query.%s = %v, expected %v", k, got.Echo[k], v), wit)
						break
					}
				}
				for k, v := range got.Echo {
					if _, ok := p.expect[k]; !ok && v != nil {
						wit["expected"] = p.expect
						r.Violate("query-default-overrides-or-invents:"+mode, fmt.Sprintf("query.%s = %v although it was absent and has no default", k, v), wit)
						break
					}
				}
				okConf++
			case p.what == "query":
				r.Case(key, true)
				if ran || rs.S < 400 || rs.S >= 500 {
					r.Violate("accepted:"+p.fault+":"+mode, fmt.Sprintf("query fault %q was answered %d ran=%v", p.fault, rs.S, ran), wit)
					continue
				}
				okRej++
			case p.what == "return" && p.fault == "":
				r.Case(key, true)
				if rs.S != 200 {
					r.Violate("conforming-return-value-rejected:"+mode, fmt.Sprintf("a conforming return value got %d %s", rs.S, clipN(rs.B, 100)), wit)
					continue
				}
				okConf++
			case p.what == "return":
				r.Case(key, true)
				if p.form == "implicit-last-statement" && rs.S >= 200 && rs.S < 300 && !strings.Contains(rs.B, "f0") && !strings.Contains(rs.B, "f1") {
					okRej++ // nothing of the value went out (an engine that answers a body without `>` with no data)
					continue
				}
				wit["return_form"] = p.form
				if rs.S < 500 {
					r.Violate("bad-return-value-delivered:"+p.fault+sp+":"+mode, fmt.Sprintf("a return value with fault %q was delivered with status %d: %s", p.fault, rs.S, clipN(rs.B, 100)), wit)
					continue
				}
				okRej++
			}
		}
	}
	r.Count("conforming_cases_accepted_as_expected", okConf)
	r.Count("violating_cases_rejected_as_expected", okRej)
	if okConf < 50 || okRej < 50 {
		r.Inconclusive(fmt.Sprintf("too few decided cases (%d conforming ok, %d rejections ok)", okConf, okRej))
	}
	r.Floor(500)
	r.Finish()
}

var c07FieldRe = regexp.MustCompile(`field (f[0-9]+)`)

// c07KindOf finds the declared type text of a field in the generated source.
func c07KindOf(src, field string) string {
	for _, l := range strings.Split(src, "\n") {
		t := strings.TrimSpace(l)
		if strings.HasPrefix(t, field+": ") {
			k := strings.TrimPrefix(t, field+": ")
			k = strings.TrimRight(strings.SplitN(k, " = ", 2)[0], "!?")
			switch {
			case strings.Contains(k, "|"):
				return "union"
			case strings.ContainsAny(k, "[<"):
				return "list"
			}
			return k
		}
	}
	return "unknown"
}
