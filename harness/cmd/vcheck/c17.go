package main

// C17 — Static file serving never escapes its root.
//
// Monitor: confinement oracle with per-file canaries. Every file inside the root
// carries a unique IN- token, every file outside a unique OUT- token (and outside
// directory entries have unique names). Any response containing an OUT- token or
// an outside entry name, or a 2xx whose bytes are not (a range of) an in-root
// regular file, refutes the property.

import (
	"fmt"
	"math/rand"
	"net/http"
	"net/http/httptest"
	"net/url"
	"os"
	"path/filepath"
	"regexp"
	"sort"
	"strings"
	"sync"

	"github.com/glyphlang/glyph/pkg/web"

	"verifharness/mon"
)

func init() { checks["C17"] = checkC17 }

type c17Layout struct {
	Base      string            `json:"-"`
	RootVia   string            `json:"root_configured_as"` // "root" or "rootlink"
	Entries   []string          `json:"entries"`            // human-readable description of what was created
	inFiles   map[string]string // content -> relative path (regular files really inside root)
	outNames  []string          // names of entries that exist only outside
	names     []string          // path components worth requesting
	Prefix    string            `json:"prefix"`
	Listing   bool              `json:"listing"`
	Index     string            `json:"index"`
	IndexKind map[string]string `json:"index_kinds"`
}

var c17tok = regexp.MustCompile(`OUT-[a-z0-9]+-[0-9a-f]+`)

func c17Make(rng *rand.Rand, base string) (*c17Layout, error) {
	l := &c17Layout{Base: base, inFiles: map[string]string{}, IndexKind: map[string]string{}}
	os.RemoveAll(base)
	root := filepath.Join(base, "root")
	out := filepath.Join(base, "outside")
	for _, d := range []string{root, out, filepath.Join(out, "odir"), filepath.Join(base, "root-evil"), filepath.Join(base, "rootx"), filepath.Join(base, "ROOT")} {
		if err := os.MkdirAll(d, 0o755); err != nil {
			return nil, err
		}
	}
	n := 0
	tok := func(kind, id string) string {
		n++
		return fmt.Sprintf("%s-%s-%08x%08x", kind, id, rng.Uint32(), rng.Uint32())
	}
	wOut := func(rel, id string) {
		p := filepath.Join(base, rel)
		os.WriteFile(p, []byte(tok("OUT", id)+"\n"), 0o644)
		l.Entries = append(l.Entries, "outside file "+rel)
	}
	wIn := func(rel string) {
		p := filepath.Join(root, rel)
		os.MkdirAll(filepath.Dir(p), 0o755)
		c := tok("IN", strings.NewReplacer("/", "_", ".", "_").Replace(rel)) + "\n"
		os.WriteFile(p, []byte(c), 0o644)
		l.inFiles[c] = rel
		l.Entries = append(l.Entries, "file root/"+rel)
	}
	wOut("outside/secret.txt", "secret")
	wOut("outside/index.html", "oindex")
	wOut("outside/odir/onlyoutside-deep.txt", "deep")
	wOut("outside/odir/index.html", "odirindex")
	wOut("root-evil/e.txt", "evil")
	wOut("root-evil/index.html", "evilindex")
	wOut("rootx/x.txt", "rootx")
	wOut("top-secret.txt", "top")
	// a sibling whose path differs from the root's in letter case only (a different directory on this file system)
	wOut("ROOT/r.txt", "caseroot")
	wOut("ROOT/a.txt", "casea")
	wOut("ROOT/index.html", "caseindex")
	l.outNames = []string{"onlyoutside-deep.txt", "top-secret.txt"}
	wIn("a.txt")
	wIn("sub/b.txt")
	wIn("sub/deep/c.txt")
	wIn("e.txt") // same name as root-evil/e.txt
	wIn("x.txt")
	link := func(target, rel, what string) {
		p := filepath.Join(root, rel)
		os.MkdirAll(filepath.Dir(p), 0o755)
		os.Remove(p)
		if err := os.Symlink(target, p); err == nil {
			l.Entries = append(l.Entries, fmt.Sprintf("symlink root/%s -> %s (%s)", rel, target, what))
		}
	}
	abs := func(rel string) string { return filepath.Join(base, rel) }
	// index files in several directories, each of a random kind
	for _, d := range []string{"", "sub", "sub/deep", "idx"} {
		kind := []string{"regular", "link-inside", "link-outside", "link-outside-abs", "absent", "directory", "link-outside-dir", "dangling"}[rng.Intn(8)]
		l.IndexKind["/"+d] = kind
		ip := filepath.Join(d, "index.html")
		os.MkdirAll(filepath.Join(root, d), 0o755)
		switch kind {
		case "regular":
			wIn(ip)
		case "link-inside":
			up := strings.Repeat("../", strings.Count(d, "/")+btoi(d != ""))
			link(up+"a.txt", ip, "index link to in-root file")
		case "link-outside":
			up := strings.Repeat("../", strings.Count(d, "/")+btoi(d != "")+1)
			link(up+"outside/secret.txt", ip, "index link to outside file")
		case "link-outside-abs":
			link(abs("top-secret.txt"), ip, "index absolute link to outside file")
		case "directory":
			os.MkdirAll(filepath.Join(root, ip), 0o755)
		case "link-outside-dir":
			link(abs("outside/odir"), ip, "index link to outside directory")
		case "dangling":
			link("nowhere", ip, "dangling index link")
		}
	}
	opt := func(p int) bool { return rng.Intn(100) < p }
	if opt(70) {
		link("a.txt", "link_in.txt", "link to in-root file")
	}
	if opt(70) {
		link("../outside/secret.txt", "link_out.txt", "link to outside file")
	}
	if opt(60) {
		link(abs("outside/secret.txt"), "link_out_abs.txt", "absolute link to outside file")
	}
	if opt(70) {
		link("../outside", "dlink_out", "link to outside dir")
	}
	if opt(50) {
		link("sub", "dlink_in", "link to in-root dir")
	}
	if opt(60) {
		link("chain2", "chain1", "chain")
		link("../outside/secret.txt", "chain2", "chain end outside")
	}
	if opt(50) {
		link("..", "up", "link to root's parent")
	}
	if opt(40) {
		link("nope", "dangling", "dangling")
	}
	if opt(30) {
		link("loop", "loop", "self loop")
	}
	if opt(50) {
		link("../root-evil", "sub/evil", "link to sibling with root-prefixed name")
	}
	if opt(40) {
		link("../../outside/odir", "sub/odir", "nested link to outside dir")
	}
	if opt(60) {
		link("../ROOT", "caselink", "link to the sibling that differs from the root in letter case only")
	}
	if opt(50) {
		link("../ROOT/a.txt", "case_a.txt", "link to a file in the case-variant sibling")
	}
	// entries named like the compressed variant of a servable file, pointing outside
	if opt(50) {
		link("../outside/secret.txt", "a.txt.gz", "link named like a.txt's pre-compressed sibling, pointing outside")
	}
	if opt(30) {
		link(abs("top-secret.txt"), "sub/b.txt.gz", "absolute link named like sub/b.txt's pre-compressed sibling")
	}
	if opt(30) {
		link("../outside/secret.txt", "x.txt.br", "link named like x.txt's brotli sibling")
	}
	os.Symlink("root", filepath.Join(base, "rootlink"))
	l.RootVia = []string{"root", "rootlink"}[rng.Intn(2)]
	l.Prefix = []string{"", "/static", "/s/t", "/static/"}[rng.Intn(4)]
	l.Listing = opt(50)
	l.Index = "index.html"
	if opt(15) {
		l.Index = []string{"link_out.txt", "../outside/secret.txt", "a.txt", "dlink_out/secret.txt"}[rng.Intn(4)]
	}
	l.names = []string{"a.txt", "sub", "b.txt", "deep", "c.txt", "e.txt", "x.txt", "idx", "index.html", "link_in.txt", "link_out.txt", "link_out_abs.txt", "dlink_out", "dlink_in",
		"chain1", "chain2", "up", "dangling", "loop", "evil", "odir", "secret.txt", "outside", "root", "root-evil", "rootx", "top-secret.txt", "onlyoutside-deep.txt", "rootlink", "caselink", "case_a.txt", "r.txt", "ROOT", "a.txt.gz", "b.txt.gz", "..", ".", "", "%2e%2e", "..%2f", "%2e%2e%2f", "..\\", "%5c..", "%00", "a.txt%00", "...", "....//"}
	return l, nil
}

func btoi(b bool) int {
	if b {
		return 1
	}
	return 0
}

func c17Paths(rng *rand.Rand, l *c17Layout, n int) []string {
	pre := strings.TrimSuffix(l.Prefix, "/")
	var ps []string
	add := func(p string) { ps = append(ps, p) }
	// canonical paths of every in-root file and every link
	for _, rel := range l.inFiles {
		add(pre + "/" + rel)
	}
	for i := 0; i < n; i++ {
		depth := 1 + rng.Intn(4)
		var segs []string
		for d := 0; d < depth; d++ {
			segs = append(segs, l.names[rng.Intn(len(l.names))])
		}
		p := "/" + strings.Join(segs, "/")
		switch rng.Intn(10) {
		case 0:
			p += "/"
		case 1:
			p = strings.Replace(p, "/", "//", 1)
		case 2:
			p = strings.Replace(p, "/", "\\", 1+rng.Intn(2))
		case 3:
			p = "/" + strings.Repeat("../", 1+rng.Intn(4)) + strings.TrimPrefix(p, "/")
		}
		switch rng.Intn(10) {
		case 0:
			add(pre + "x" + p) // prefix look-alike
		case 8:
			// the mount prefix glued to a dot segment: "/assets../x" is not under "/assets/"
			add(pre + ".." + p)
			add(pre + "../outside/secret.txt")
			add("/" + pre + "../outside/secret.txt")
		case 9:
			add(pre + "." + p)
			add(pre + "/v1.." + p)
			add(pre + "..%2foutside%2fsecret.txt")
		case 1:
			add(p) // without the prefix
		case 2:
			add(pre + pre + p)
		default:
			add(pre + p)
		}
	}
	return ps
}

type c17Resp struct {
	Status int
	Body   string
}

func c17Judge(l *c17Layout, how, reqPath string, rangeHdr string, rec *httptest.ResponseRecorder, r *mon.Run, mu *sync.Mutex, stats map[string]int) {
	body := rec.Body.String()
	st := rec.Code
	mu.Lock()
	stats[fmt.Sprintf("status_%d", st)]++
	mu.Unlock()
	wit := func() map[string]interface{} {
		return map[string]interface{}{"via": how, "request_path": reqPath, "range": rangeHdr, "status": st, "body": clip17(body), "layout": l}
	}
	if m := c17tok.FindString(body); m != "" {
		id := strings.Split(m, "-")[1]
		r.Violate("leak:"+c17How(l, reqPath)+":outside-file-"+id, fmt.Sprintf("%s %q returned the bytes of an outside file (%s)", how, reqPath, m), wit())
		return
	}
	if st >= 200 && st < 300 {
		ct := rec.Header().Get("Content-Type")
		if strings.HasPrefix(ct, "text/html") && strings.Contains(body, "<h1>Index of ") {
			mu.Lock()
			stats["listings"]++
			mu.Unlock()
			// a listing may only show entries of an in-root directory
			for _, on := range l.outNames {
				if strings.Contains(body, ">"+on+"<") {
					r.Violate("leak:listing-of-outside-directory", fmt.Sprintf("%s %q lists an outside entry name %s", how, reqPath, on), wit())
					return
				}
			}
			return
		}
		if body == "" && (rangeHdr != "" || strings.HasSuffix(how, "HEAD")) {
			return
		}
		ok := false
		for c := range l.inFiles {
			if body == c || (st == 206 && len(body) > 0 && strings.Contains(c, body)) {
				ok = true
				break
			}
		}
		if !ok {
			r.Violate("2xx-not-an-in-root-file", fmt.Sprintf("%s %q answered %d with bytes that are not an in-root regular file", how, reqPath, st), wit())
		} else {
			mu.Lock()
			stats["served_in_root_file"]++
			mu.Unlock()
		}
	}
}

// c17How classifies the request for the signature: did the path name a
// directory (index/listing path) or a file.
func c17How(l *c17Layout, reqPath string) string {
	p := strings.TrimPrefix(reqPath, strings.TrimSuffix(l.Prefix, "/"))
	fi, err := os.Stat(filepath.Join(l.Base, "root", filepath.FromSlash(filepath.Clean("/"+p))))
	if err == nil && fi.IsDir() {
		return "via-directory-index"
	}
	return "via-file-path"
}

func clip17(s string) string {
	if len(s) > 200 {
		return s[:200] + "…"
	}
	return s
}

func checkC17(tier string) {
	r := mon.New("C17", tier, "exploration")
	r.Rule = "PRNG-generated directory trees (in-root files, index files of 8 kinds in 4 directories, links to inside/outside files and directories, chains, link to the parent, dangling/looping links, prefix look-alike siblings, root reached through a symlink) x request paths of depth 1-4 over entry names, dot segments, encoded separators, backslashes, NULs, prefix look-alikes; three entry points (ServeHTTP with hand-built URL.Path, an http.ServeMux mounted like the CLI does, ResponseHelper.SendFile). distinct = (layout hash, path, entry point); non-trivial = the request reached the handler with a path that is not the canonical path of an in-root file"
	r.Assume("special files (FIFOs, devices) are not created; only regular files, directories and symlinks")
	nl := r.Pick(1500, 20000)
	per := r.Pick(250, 400)
	baseDir := filepath.Join(mon.BuildDir(), "fs")
	os.MkdirAll(baseDir, 0o755)
	var mu sync.Mutex
	stats := map[string]int{}
	var wg sync.WaitGroup
	sem := make(chan struct{}, 16)
	rh := web.NewResponseHelper()
	for li := 0; li < nl; li++ {
		wg.Add(1)
		sem <- struct{}{}
		go func(li int) {
			defer wg.Done()
			defer func() { <-sem }()
			rng := rand.New(rand.NewSource(r.Seed*1000003 + int64(li)))
			base := filepath.Join(baseDir, fmt.Sprintf("L%d", li))
			l, err := c17Make(rng, base)
			if err != nil {
				r.Inconclusive("cannot create layout: " + err.Error())
				return
			}
			defer os.RemoveAll(base)
			opts := []web.StaticOption{web.WithPrefix(l.Prefix), web.WithDirectoryListing(l.Listing)}
			if l.Index != "index.html" {
				opts = append(opts, web.WithIndex(l.Index))
			}
			srv, err := web.NewStaticFileServer(filepath.Join(base, l.RootVia), opts...)
			if err != nil {
				r.Inconclusive("NewStaticFileServer: " + err.Error())
				return
			}
			mux := http.NewServeMux()
			pattern := l.Prefix
			if pattern == "" || pattern[len(pattern)-1] != '/' {
				pattern += "/"
			}
			mux.Handle(pattern, srv)
			lh := mon.Hash(l.Entries)
			if li < 2 {
				r.Sample(map[string]interface{}{"layout": l})
			}
			for pi, p := range c17Paths(rng, l, per) {
				canonical := false
				for _, rel := range l.inFiles {
					if p == strings.TrimSuffix(l.Prefix, "/")+"/"+rel {
						canonical = true
					}
				}
				// (1) direct: hand-built URL.Path (what a front-end that does not clean paths would pass)
				func() {
					defer func() {
						if e := recover(); e != nil {
							r.Violate("panic:ServeHTTP", fmt.Sprintf("ServeHTTP panicked on %q: %v", p, e), map[string]interface{}{"path": p, "layout": l})
						}
					}()
					method := "GET"
					rangeHdr := ""
					if pi%11 == 0 {
						rangeHdr = "bytes=0-9"
					}
					if pi%13 == 0 {
						method = "HEAD"
					}
					req := &http.Request{Method: method, URL: &url.URL{Path: p}, Header: http.Header{}, Proto: "HTTP/1.1", ProtoMajor: 1, ProtoMinor: 1}
					if rangeHdr != "" {
						req.Header.Set("Range", rangeHdr)
					}
					if pi%3 == 0 || canonical {
						// content negotiation must not open a second, unchecked way to a file
						req.Header.Set("Accept-Encoding", []string{"gzip", "gzip, deflate, br", "br;q=1.0, gzip;q=0.8, *;q=0.1"}[pi%3])
						mu.Lock()
						stats["requests_accepting_compressed_variants"]++
						mu.Unlock()
					}
					rec := httptest.NewRecorder()
					srv.ServeHTTP(rec, req)
					c17Judge(l, "direct "+method, p, rangeHdr, rec, r, &mu, stats)
					r.Case(lh+"|d|"+p, !canonical)
					// decoded variant: what net/http hands over after unescaping the raw path
					if strings.Contains(p, "%") {
						if u, err := url.Parse("http://h" + p); err == nil {
							req2 := &http.Request{Method: "GET", URL: u, Header: http.Header{}}
							rec2 := httptest.NewRecorder()
							srv.ServeHTTP(rec2, req2)
							c17Judge(l, "direct-decoded GET", p, "", rec2, r, &mu, stats)
							r.Case(lh+"|dd|"+p, true)
						}
					}
				}()
				// (1b) the tree changes under a running server: a file that was just served is
				// replaced by a link to an outside file (and later a directory by a link to an
				// outside directory); the same URL must not start leaking
				if canonical && pi%3 == 0 {
					func() {
						rel := strings.TrimPrefix(p, strings.TrimSuffix(l.Prefix, "/")+"/")
						abs := filepath.Join(base, "root", filepath.FromSlash(rel))
						fi, err := os.Lstat(abs)
						if err != nil || !fi.Mode().IsRegular() {
							return
						}
						content, _ := os.ReadFile(abs)
						target := filepath.Join(base, "outside", "secret.txt")
						victim := abs
						if pi%2 == 1 && filepath.Dir(abs) != filepath.Join(base, "root") {
							// replace the parent directory instead: same file name exists outside? use odir
							return
						}
						os.Remove(victim)
						if os.Symlink(target, victim) != nil {
							os.WriteFile(victim, content, 0o644)
							return
						}
						defer func() {
							os.Remove(victim)
							os.WriteFile(victim, content, 0o644)
						}()
						for _, method := range []string{"GET", "HEAD"} {
							req := &http.Request{Method: method, URL: &url.URL{Path: p}, Header: http.Header{}, Proto: "HTTP/1.1", ProtoMajor: 1, ProtoMinor: 1}
							rec := httptest.NewRecorder()
							func() {
								defer func() {
									if e := recover(); e != nil {
										r.Violate("panic:ServeHTTP", fmt.Sprintf("ServeHTTP panicked on %q after the file became a link: %v", p, e), map[string]interface{}{"path": p})
									}
								}()
								srv.ServeHTTP(rec, req)
							}()
							if rec.Code >= 200 && rec.Code < 300 {
								// the only thing at this path now is a link leaving the root: nothing may be served
								r.Violate("leak:after-file-replaced-by-link:"+strings.ToLower(method), fmt.Sprintf("%s %q answers %d after the in-root file it had served before was replaced by a link pointing outside the root", method, p, rec.Code), map[string]interface{}{"path": p, "layout": l, "body": clip17(rec.Body.String())})
								return
							}
							mu.Lock()
							stats["requests_after_file_replaced_by_outside_link"]++
							mu.Unlock()
							if m := c17tok.FindString(rec.Body.String()); m != "" {
								r.Violate("leak:after-file-replaced-by-link", fmt.Sprintf("%s %q returned the bytes of an outside file (%s) after the in-root file it had served before was replaced by a link pointing outside the root", method, p, m), map[string]interface{}{"path": p, "layout": l})
								return
							}
						}
						r.Case(lh+"|relink|"+p, true)
					}()
				}
				// (2) through a ServeMux mounted the way the CLI mounts static routes
				if pi%2 == 0 {
					func() {
						defer func() {
							if e := recover(); e != nil {
								r.Violate("panic:mux", fmt.Sprintf("mux panicked on %q: %v", p, e), map[string]interface{}{"path": p})
							}
						}()
						u, err := url.Parse("http://h" + strings.ReplaceAll(p, "\\", "%5C"))
						if err != nil {
							return
						}
						req := &http.Request{Method: "GET", URL: u, Header: http.Header{}, Host: "h", RequestURI: u.RequestURI()}
						rec := httptest.NewRecorder()
						mux.ServeHTTP(rec, req)
						c17Judge(l, "mux GET", p, "", rec, r, &mu, stats)
						r.Case(lh+"|m|"+p, !canonical)
					}()
				}
				// (3) SendFile
				if pi%3 == 0 {
					func() {
						defer func() {
							if e := recover(); e != nil {
								r.Violate("panic:SendFile", fmt.Sprintf("SendFile panicked on %q: %v", p, e), map[string]interface{}{"path": p})
							}
						}()
						target := strings.TrimPrefix(p, "/")
						if pi%9 == 0 {
							target = filepath.Join(base, "outside", "secret.txt")
						} else if pi%9 == 3 {
							target = filepath.Join(base, "root", target)
						}
						rec := httptest.NewRecorder()
						req := &http.Request{Method: "GET", URL: &url.URL{Path: "/"}, Header: http.Header{}}
						err := rh.SendFile(rec, req, filepath.Join(base, "root"), target)
						if err != nil {
							rec.Code = 404 // SendFile reports refusal through its error
							rec.Body.Reset()
						}
						c17Judge(l, "SendFile", target, "", rec, r, &mu, stats)
						r.Case(lh+"|s|"+target, true)
					}()
				}
			}
		}(li)
	}
	wg.Wait()
	keys := []string{}
	for k := range stats {
		keys = append(keys, k)
	}
	sort.Strings(keys)
	for _, k := range keys {
		r.Count(k, stats[k])
	}
	if stats["served_in_root_file"] == 0 {
		r.Inconclusive("no request was ever answered with an in-root file: the workload did not reach the serving path")
	}
	r.Floor(1000)
	r.Finish()
}
