package main

// C14 — Database transactions are all-or-nothing.
//
// Fault enumeration: statement sequences x every failure position x failure kind, run
// through the Transaction code of all three drivers (Postgres/MySQL over a SQLite-backed
// *sql.DB placed in their unexported db field — the transaction logic is driver
// independent) and through BulkInsert. Oracle: table contents afterwards equal the
// "before" snapshot (failure) or "before ⊕ all statements" (success); the handle stays
// usable (SELECT 1 under a deadline, no connection left in use).

import (
	"context"
	"database/sql"
	"encoding/json"
	"errors"
	"fmt"
	"sort"
	"strings"
	"time"

	"github.com/glyphlang/glyph/pkg/database"

	"verifharness/mon"
)

func init() {
	checks["C14"] = checkC14
	workers["c14"] = c14Worker
}

type c14Stmt struct {
	Kind  string `json:"kind"` // ins upd del
	Table string `json:"table"`
	ID    int    `json:"id"`
	Val   string `json:"val"`
}

type c14Case struct {
	Driver   string    `json:"driver"`
	Stmts    []c14Stmt `json:"stmts"`
	FailPos  int       `json:"fail_pos"`  // -1 = no failure; otherwise before statement FailPos (len = after the last)
	FailKind string    `json:"fail_kind"` // error | panic-string | panic-error | panic-runtime | bad-sql | unique | cancel
	Second   *c14Case  `json:"then,omitempty"`
	Nested   bool      `json:"nested,omitempty"`
}

var c14Kinds = []string{"error", "panic-string", "panic-error", "panic-runtime", "bad-sql", "unique", "cancel", "error-busy-once", "error-locked-wrapped-once"}

type txer interface {
	Transaction(ctx context.Context, fn func(*sql.Tx) error) error
	Query(ctx context.Context, query string, args ...interface{}) (*sql.Rows, error)
	Exec(ctx context.Context, query string, args ...interface{}) (sql.Result, error)
	Stats() sql.DBStats
	BulkInsert(ctx context.Context, table string, columns []string, values [][]interface{}) error
}

func c14Open(driver string) (txer, error) {
	ctx := context.Background()
	switch driver {
	case "sqlite":
		s := database.NewSQLiteDB(&database.Config{Driver: "sqlite", Database: ":memory:"})
		if err := s.Connect(ctx); err != nil {
			return nil, err
		}
		return s, nil
	case "postgres", "mysql":
		h, err := sql.Open("sqlite", ":memory:")
		if err != nil {
			return nil, err
		}
		h.SetMaxOpenConns(1)
		h.SetMaxIdleConns(1)
		if driver == "postgres" {
			p := database.NewPostgresDB(&database.Config{Driver: "postgres"})
			return p, setUnexportedDB(p, h)
		}
		m := database.NewMySQLDB(&database.Config{Driver: "mysql"})
		return m, setUnexportedDB(m, h)
	}
	return nil, fmt.Errorf("unknown driver %s", driver)
}

func c14Setup(db txer) error {
	ctx := context.Background()
	for _, q := range []string{
		`CREATE TABLE t1 (id INTEGER PRIMARY KEY, val TEXT NOT NULL)`,
		`CREATE TABLE t2 (id INTEGER PRIMARY KEY, val TEXT NOT NULL)`,
		`INSERT INTO t1 (id, val) VALUES (1, 'a1'), (2, 'a2'), (3, 'a3')`,
		`INSERT INTO t2 (id, val) VALUES (1, 'b1'), (2, 'b2')`,
	} {
		if _, err := db.Exec(ctx, q); err != nil {
			return err
		}
	}
	return nil
}

func c14Snapshot(db txer) (map[string]string, error) {
	ctx, cancel := context.WithTimeout(context.Background(), 10*time.Second)
	defer cancel()
	out := map[string]string{}
	for _, t := range []string{"t1", "t2"} {
		rows, err := db.Query(ctx, "SELECT id, val FROM "+t+" ORDER BY id")
		if err != nil {
			return nil, err
		}
		for rows.Next() {
			var id int
			var v string
			rows.Scan(&id, &v)
			out[fmt.Sprintf("%s/%d", t, id)] = v
		}
		rows.Close()
	}
	return out, nil
}

func c14Apply(m map[string]string, stmts []c14Stmt) map[string]string {
	o := map[string]string{}
	for k, v := range m {
		o[k] = v
	}
	for _, s := range stmts {
		k := fmt.Sprintf("%s/%d", s.Table, s.ID)
		switch s.Kind {
		case "ins":
			o[k] = s.Val
		case "upd":
			if _, ok := o[k]; ok {
				o[k] = s.Val
			}
		case "del":
			delete(o, k)
		}
	}
	return o
}

func c14Equal(a, b map[string]string) bool {
	if len(a) != len(b) {
		return false
	}
	for k, v := range a {
		if b[k] != v {
			return false
		}
	}
	return true
}

func c14Fmt(m map[string]string) string {
	ks := []string{}
	for k := range m {
		ks = append(ks, k+"="+m[k])
	}
	sort.Strings(ks)
	return strings.Join(ks, " ")
}

func c14SQL(s c14Stmt) (string, []interface{}) {
	switch s.Kind {
	case "ins":
		return "INSERT INTO " + s.Table + " (id, val) VALUES (?, ?)", []interface{}{s.ID, s.Val}
	case "upd":
		return "UPDATE " + s.Table + " SET val = ? WHERE id = ?", []interface{}{s.Val, s.ID}
	default:
		return "DELETE FROM " + s.Table + " WHERE id = ?", []interface{}{s.ID}
	}
}

// c14RunTx runs one transaction and returns (returned error, recovered panic).
func c14RunTx(db txer, cs *c14Case) (retErr error, pan interface{}) {
	// A context that is never cancelled for every kind but "cancel": cancelling it on the
	// way out would make database/sql roll a leaked transaction back and hide the leak.
	ctx, cancel := context.Background(), func() {}
	if cs.FailKind == "cancel" {
		ctx, cancel = context.WithCancel(context.Background())
	}
	defer func() {
		if e := recover(); e != nil {
			pan = e
		}
	}()
	calls := 0
	retErr = db.Transaction(ctx, func(tx *sql.Tx) error {
		calls++
		if calls > 1 {
			// a Transaction that invokes its callback again (a "retry on busy") gets a callback that now succeeds without
			// doing anything: whatever the first, failed invocation wrote must still be gone
			return nil
		}
		for i := 0; i <= len(cs.Stmts); i++ {
			if i == cs.FailPos {
				switch cs.FailKind {
				case "error-busy-once":
					return errors.New("database is locked (5) (SQLITE_BUSY)")
				case "error-locked-wrapped-once":
					return fmt.Errorf("step %d: %w", i, errors.New("database table is locked: SQLITE_LOCKED"))
				case "error":
					return errors.New("callback gives up")
				case "panic-string":
					panic("callback panics")
				case "panic-error":
					panic(errors.New("callback panics with an error"))
				case "panic-runtime":
					var p *c14Stmt
					_ = p.ID // nil dereference
				case "bad-sql":
					if _, err := tx.Exec("INSERT INTO nosuchtable VALUES (1)"); err != nil {
						return err
					}
				case "unique":
					if _, err := tx.Exec("INSERT INTO t1 (id, val) VALUES (1, 'dup')"); err != nil {
						return err
					}
				case "cancel":
					cancel()
					time.Sleep(20 * time.Millisecond) // let database/sql's watcher roll the tx back
				}
			}
			if i == len(cs.Stmts) {
				break
			}
			if cs.Nested && i == 0 {
				// a transaction inside the callback on the single-connection pool: must time out, not hang
				ictx, icancel := context.WithTimeout(context.Background(), 300*time.Millisecond)
				ierr := db.Transaction(ictx, func(itx *sql.Tx) error {
					_, e := itx.Exec("INSERT INTO t2 (id, val) VALUES (777, 'nested')")
					return e
				})
				icancel()
				if ierr != nil {
					return fmt.Errorf("nested: %w", ierr)
				}
			}
			q, args := c14SQL(cs.Stmts[i])
			if _, err := tx.Exec(q, args...); err != nil {
				return err
			}
		}
		return nil
	})
	return
}

func c14Judge(w *mon.W, db txer, cs *c14Case, before map[string]string, retErr error, pan interface{}, label string) (after map[string]string, ok bool) {
	wit := map[string]interface{}{"case": cs, "returned_error": fmt.Sprint(retErr), "panic": fmt.Sprint(pan)}
	sigBase := fmt.Sprintf("%s:%s", cs.Driver, cs.FailKind)
	if cs.Nested {
		sigBase += ":nested"
	}
	// usability first: a leaked connection would make the snapshot itself hang
	uctx, ucancel := context.WithTimeout(context.Background(), 5*time.Second)
	rows, uerr := db.Query(uctx, "SELECT 1")
	if uerr == nil {
		rows.Close()
	}
	ucancel()
	if uerr != nil {
		w.Violate("unusable-after:"+sigBase, fmt.Sprintf("%s: after the transaction SELECT 1 failed: %v (connections in use: %d)", label, uerr, db.Stats().InUse), wit)
		return nil, false
	}
	if n := db.Stats().InUse; n != 0 {
		w.Violate("connection-leaked:"+sigBase, fmt.Sprintf("%s: %d connection(s) still in use after the transaction returned", label, n), wit)
		return nil, false
	}
	after, err := c14Snapshot(db)
	if err != nil {
		w.Violate("unusable-after:"+sigBase, label+": snapshot failed: "+err.Error(), wit)
		return nil, false
	}
	all := c14Apply(before, cs.Stmts)
	failed := cs.FailPos >= 0
	isPanic := strings.HasPrefix(cs.FailKind, "panic")
	wit["before"], wit["after"], wit["all_applied"] = c14Fmt(before), c14Fmt(after), c14Fmt(all)
	switch {
	case failed && isPanic && pan == nil:
		w.Violate("panic-swallowed:"+sigBase, label+": the callback panicked but Transaction returned normally", wit)
		return after, false
	case failed && !isPanic && cs.FailKind != "cancel" && retErr == nil:
		w.Violate("error-swallowed:"+sigBase, label+": the callback failed but Transaction returned nil", wit)
		return after, false
	}
	if !failed && !cs.Nested {
		if retErr != nil || pan != nil {
			w.Violate("spurious-failure:"+sigBase, fmt.Sprintf("%s: a callback that returned normally produced %v / %v", label, retErr, pan), wit)
			return after, false
		}
		if !c14Equal(after, all) {
			w.Violate("commit-incomplete:"+sigBase, label+": callback returned normally but not every statement's effect is visible", wit)
			return after, false
		}
		return after, true
	}
	// failure (or cancel, or nested): all-or-nothing, and a reported failure means nothing
	if retErr != nil || pan != nil {
		if !c14Equal(after, before) {
			w.Violate("partial-effects-after-failure:"+sigBase, label+": the transaction failed but some effects are visible", wit)
			return after, false
		}
		return after, true
	}
	if !c14Equal(after, all) && !c14Equal(after, before) {
		w.Violate("partial-effects:"+sigBase, label+": neither all nor none of the statements took effect", wit)
		return after, false
	}
	if c14Equal(after, before) && len(cs.Stmts) > 0 && !c14Equal(before, all) {
		w.Violate("success-reported-but-nothing-committed:"+sigBase, label+": Transaction returned nil but nothing was committed", wit)
		return after, false
	}
	return after, true
}

// enumeration -----------------------------------------------------------------

func c14Sequences(maxLen int) [][]c14Stmt {
	// statement alphabet with unique ids so that partial effects are identifiable
	alpha := []c14Stmt{
		{Kind: "ins", Table: "t1", ID: 10, Val: "n10"},
		{Kind: "ins", Table: "t2", ID: 20, Val: "n20"},
		{Kind: "upd", Table: "t1", ID: 2, Val: "u2"},
		{Kind: "del", Table: "t1", ID: 3},
		{Kind: "upd", Table: "t2", ID: 1, Val: "u1"},
		{Kind: "del", Table: "t2", ID: 2},
	}
	var out [][]c14Stmt
	var rec func(cur []c14Stmt, used int)
	rec = func(cur []c14Stmt, used int) {
		if len(cur) > 0 {
			out = append(out, append([]c14Stmt{}, cur...))
		}
		if len(cur) == maxLen {
			return
		}
		for i, a := range alpha {
			if used&(1<<i) != 0 {
				continue
			}
			rec(append(cur, a), used|1<<i)
		}
	}
	rec(nil, 0)
	return out
}

type c14Params struct {
	MaxLen int `json:"max_len"`
}

func c14Cases(maxLen int) []c14Case {
	var cases []c14Case
	seqs := c14Sequences(maxLen)
	// keep the enumeration tractable: all sequences up to length 2, then a fixed stride sample of longer ones
	var pick [][]c14Stmt
	for i, s := range seqs {
		if len(s) <= 2 || i%7 == 0 {
			pick = append(pick, s)
		}
	}
	for _, drv := range []string{"sqlite", "postgres", "mysql"} {
		for _, s := range pick {
			cases = append(cases, c14Case{Driver: drv, Stmts: s, FailPos: -1})
			for p := 0; p <= len(s); p++ {
				for _, k := range c14Kinds {
					cases = append(cases, c14Case{Driver: drv, Stmts: s, FailPos: p, FailKind: k})
				}
			}
		}
		// back-to-back: fail then succeed, succeed then fail, on the same handle
		for _, k := range c14Kinds {
			s := pick[len(pick)/2]
			ok := c14Case{Driver: drv, Stmts: []c14Stmt{{Kind: "ins", Table: "t1", ID: 50, Val: "n50"}, {Kind: "upd", Table: "t2", ID: 1, Val: "second"}}, FailPos: -1}
			bad := c14Case{Driver: drv, Stmts: []c14Stmt{{Kind: "ins", Table: "t1", ID: 60, Val: "n60"}, {Kind: "del", Table: "t2", ID: 1}}, FailPos: 1, FailKind: k}
			okc, badc := ok, bad
			cases = append(cases, c14Case{Driver: drv, Stmts: s, FailPos: len(s), FailKind: k, Second: &okc})
			cases = append(cases, c14Case{Driver: drv, Stmts: s, FailPos: -1, Second: &badc})
		}
		// nested transaction inside the callback
		cases = append(cases, c14Case{Driver: drv, Stmts: pick[3], FailPos: -1, Nested: true})
		cases = append(cases, c14Case{Driver: drv, Stmts: pick[len(pick)-1], FailPos: -1, Nested: true})
	}
	return cases
}

type c14Bulk struct {
	Driver string `json:"driver"`
	Rows   int    `json:"rows"`
	BadAt  int    `json:"bad_at"`   // -1 none
	BadHow string `json:"bad_how"`  // dup | null | ragged
}

func c14BulkCases(thorough bool) []c14Bulk {
	var out []c14Bulk
	sizes := []int{1, 2, 3, 7, 40, 600, 1500}
	if thorough {
		sizes = append(sizes, 5000, 17000)
	}
	for _, drv := range []string{"sqlite", "postgres", "mysql"} {
		for _, n := range sizes {
			out = append(out, c14Bulk{drv, n, -1, ""})
			for _, how := range []string{"dup", "null", "ragged"} {
				pos := []int{0, n / 2, n - 1}
				if n <= 7 {
					pos = nil
					for i := 0; i < n; i++ {
						pos = append(pos, i)
					}
				}
				seen := map[int]bool{}
				for _, p := range pos {
					if p < 0 || seen[p] {
						continue
					}
					seen[p] = true
					out = append(out, c14Bulk{drv, n, p, how})
				}
			}
		}
	}
	return out
}

func c14RunBulk(w *mon.W, b c14Bulk) {
	db, err := c14Open(b.Driver)
	if err != nil {
		w.Inconclusive("open: " + err.Error())
		return
	}
	if err := c14Setup(db); err != nil {
		w.Inconclusive("setup: " + err.Error())
		return
	}
	before, _ := c14Snapshot(db)
	var rows [][]interface{}
	expect := map[string]string{}
	for k, v := range before {
		expect[k] = v
	}
	for i := 0; i < b.Rows; i++ {
		id := 1000 + i
		row := []interface{}{id, fmt.Sprintf("bulk%d", i)}
		if i == b.BadAt {
			switch b.BadHow {
			case "dup":
				row[0] = 1 // primary key of an existing row
			case "null":
				row[1] = nil
			case "ragged":
				row = row[:1]
			}
		}
		rows = append(rows, row)
		expect[fmt.Sprintf("t1/%d", id)] = fmt.Sprintf("bulk%d", i)
	}
	var berr error
	var pan interface{}
	w.Watch(fmt.Sprintf("BulkInsert %+v", b), 60*time.Second, func() {
		defer func() { pan = recover() }()
		berr = db.BulkInsert(context.Background(), "t1", []string{"id", "val"}, rows)
	})
	wit := map[string]interface{}{"case": b, "error": fmt.Sprint(berr), "panic": fmt.Sprint(pan)}
	if pan != nil {
		w.Violate("bulk:panic:"+b.Driver, fmt.Sprintf("BulkInsert panicked: %v", pan), wit)
	}
	after, serr := c14Snapshot(db)
	if serr != nil {
		w.Violate("bulk:unusable-after:"+b.Driver, "snapshot after BulkInsert failed: "+serr.Error(), wit)
		return
	}
	inserted := len(after) - len(before)
	wit["rows_inserted"] = inserted
	switch {
	case b.BadAt >= 0 && berr == nil:
		w.Violate("bulk:bad-row-accepted:"+b.Driver+":"+b.BadHow, "BulkInsert with a bad row returned nil", wit)
	case berr != nil && !c14Equal(after, before):
		w.Violate("bulk:partial-rows-after-failure:"+b.Driver+":"+b.BadHow, fmt.Sprintf("BulkInsert failed but %d of %d rows were left behind", inserted, b.Rows), wit)
	case berr == nil && !c14Equal(after, expect):
		w.Violate("bulk:success-but-rows-missing:"+b.Driver, fmt.Sprintf("BulkInsert succeeded but only %d of %d rows are present", inserted, b.Rows), wit)
	}
	if n := db.Stats().InUse; n != 0 {
		w.Violate("bulk:connection-leaked:"+b.Driver, fmt.Sprintf("%d connection(s) in use after BulkInsert", n), wit)
	}
}

func c14Worker(in, out string) {
	w := mon.OpenWorker(in, out)
	var p c14Params
	json.Unmarshal(w.Params, &p)
	cases := c14Cases(p.MaxLen)
	bulks := c14BulkCases(w.Thorough())
	for i := w.From; i < w.To; i++ {
		w.Begin(i)
		if i >= len(cases) {
			b := bulks[i-len(cases)]
			c14RunBulk(w, b)
			w.Case(mon.Hash(b), b.Rows > 1)
			w.Count("bulk_cases", 1)
			continue
		}
		cs := cases[i]
		db, err := c14Open(cs.Driver)
		if err != nil {
			w.Inconclusive("open: " + err.Error())
			continue
		}
		if err := c14Setup(db); err != nil {
			w.Inconclusive("setup: " + err.Error())
			continue
		}
		before, _ := c14Snapshot(db)
		var retErr error
		var pan interface{}
		w.Watch(fmt.Sprintf("Transaction case %d %s fail=%s@%d nested=%v", i, cs.Driver, cs.FailKind, cs.FailPos, cs.Nested), 30*time.Second, func() {
			retErr, pan = c14RunTx(db, &cs)
		})
		after, ok := c14Judge(w, db, &cs, before, retErr, pan, "first transaction")
		if ok && cs.Second != nil {
			w.Watch(fmt.Sprintf("second transaction of case %d", i), 30*time.Second, func() {
				retErr, pan = c14RunTx(db, cs.Second)
			})
			sc := *cs.Second
			sc.Driver = cs.Driver
			c14Judge(w, db, &sc, after, retErr, pan, "second transaction (after "+cs.FailKind+")")
		}
		w.Case(mon.Hash(cs), cs.FailPos >= 0 || cs.Nested || cs.Second != nil)
		w.Count("fault_kind:"+cs.FailKind, 1)
		w.Mark("fault_points", fmt.Sprintf("%s/len%d/pos%d/%s", cs.Driver, len(cs.Stmts), cs.FailPos, cs.FailKind))
		if i%397 == 0 {
			w.Sample(cs)
		}
	}
	w.Done()
}

func checkC14(tier string) {
	r := mon.New("C14", tier, "fault_enumeration")
	maxLen := r.Pick(3, 5)
	r.Rule = fmt.Sprintf("enumerated: statement sequences (INSERT/UPDATE/DELETE over two tables, unique ids) up to length %d (all of length <=2, every 7th longer one) x every failure position 0..len x 9 failure kinds (error return, 3 panic kinds, failing SQL, constraint violation, context cancelled, two busy/locked-looking errors from a callback that would succeed if it were invoked again) x 3 drivers, plus back-to-back pairs, nested transactions, and BulkInsert with a bad row (duplicate key / NULL / ragged) at each position for 7-9 batch sizes; non-trivial = a failure is injected, or nested / back-to-back", maxLen)
	r.Assume("Postgres/MySQL Transaction and BulkInsert code runs over a SQLite-backed *sql.DB put into the unexported db field; server-side behaviour of real PostgreSQL/MySQL is out of reach")
	ncases := len(c14Cases(maxLen)) + len(c14BulkCases(r.Thorough()))
	r.Set("enumerated_cases", ncases)
	r.Set("exhaustive", true)
	r.RunBatch(mon.Batch{Worker: "c14", N: ncases, Chunk: (ncases + 31) / 32, Parallel: 16, Params: c14Params{MaxLen: maxLen}, Timeout: 30 * time.Minute,
		OnDeath: func(i int, co mon.ChildOut, hang *mon.Rec) bool {
			if hang != nil {
				site := ""
				for _, fn := range []string{"database.(*SQLiteDB).Transaction", "database.(*PostgresDB).Transaction", "database.(*MySQLDB).Transaction", "BulkInsert", "database/sql.(*DB).conn"} {
					if strings.Contains(hang.Stacks[0], fn) && strings.Contains(hang.Stacks[1], fn) {
						site = fn
						break
					}
				}
				if site != "" {
					r.Violate("hang:"+site, "operation did not return within its watchdog (two goroutine dumps 3 s apart show it in "+site+"): "+hang.Desc, map[string]interface{}{"case_index": i, "desc": hang.Desc})
				} else {
					r.Inconclusive("watchdog fired without a database frame in both dumps: " + hang.Desc)
				}
				return true
			}
			r.Violate("crash:"+co.Death, "worker died: "+mon.PanicExcerpt(co.Tail, 10), map[string]interface{}{"case_index": i})
			return true
		}})
	r.Floor(100)
	r.Finish()
}
