package main

// C09 — Async blocks are race-free, deterministic and settle once.
//
// (a) race detector + plain-build crash monitor over programs whose parent keeps
//     assigning and declaring variables while async blocks run (sustained overlap);
// (b) schedule-perturbed determinism of await-only programs in both engines, against
//     results computed independently (async = deferred computation over the values
//     captured at the spawn), with GOMAXPROCS in {1,4,16} and repeated runs;
// (c) settle-once histories on the Future API (many settlers, many awaiters);
// (d) All / Race / Any contracts with gated futures whose settle order is controlled;
// (e) goroutine count back to the baseline afterwards.

import (
	"encoding/json"
	"errors"
	"fmt"
	"math/rand"
	"os"
	"path/filepath"
	"reflect"
	"runtime"
	"strings"
	"sync"
	"time"

	"github.com/glyphlang/glyph/pkg/compiler"
	"github.com/glyphlang/glyph/pkg/interpreter"

	"verifharness/mon"
)

func init() {
	checks["C09"] = checkC09
	workers["c09"] = c09Worker
}

type c09Params struct {
	Part string `json:"part"`
}

// ---- (b) await-only programs with independently computed results ----

type c09Prog struct {
	Src    string      `json:"source"`
	Expect interface{} `json:"expect"`
	Kind   string      `json:"kind"`
	// Pre: a program run (and expected to fail) before every run but the first. What one request's blocks leave behind
	// must not show in the next request's blocks.
	Pre string `json:"pre,omitempty"`
}

func c09Gen(rng *rand.Rand) c09Prog {
	a, b := int64(rng.Intn(9)+1), int64(rng.Intn(9)+1)
	k := int64(2 + rng.Intn(4))
	lim := int64(1 + rng.Intn(6))
	thr := int64(rng.Intn(12))
	switch rng.Intn(12) {
	case 11: // a block that produces no value, run after a request whose block failed in the middle of an expression
		pre := []string{
			fmt.Sprintf("@ GET /t {\n  $ a = %d\n  $ z = 0\n  $ f = async {\n    > [%d, %d, a / z]\n  }\n  > {r: await f}\n}\n", a, 7000+b, 8000+k),
			fmt.Sprintf("@ GET /t {\n  $ a = %d\n  $ z = 0\n  $ f = async {\n    > {k: %d, v: %d + a / z}\n  }\n  > {r: await f}\n}\n", a, 7000+b, 9000+k),
			fmt.Sprintf("@ GET /t {\n  $ a = %d\n  $ z = 0\n  $ f = async {\n    $ t = %d * (a + (%d - a / z))\n    > t\n  }\n  > {r: await f}\n}\n", a, 7000+b, 6000+k),
		}[rng.Intn(3)]
		src := fmt.Sprintf("@ GET /t {\n  $ a = %d\n  $ f = async {\n    $ y = a + %d\n  }\n  $ g = async {\n    if a > 100 {\n      > 1\n    }\n  }\n  $ r = await f\n  $ q = await g\n  > {r: r, q: q, a: a}\n}\n", a, b)
		return c09Prog{Src: src, Expect: "SAME-EVERY-TIME", Kind: "block-without-value-after-failed-block", Pre: pre}
	case 9, 10: // for-in loops inside two sibling blocks and in the parent, all running at once
		n := 24 + int(lim)*4
		var elems []string
		sum := int64(0)
		for i := 1; i <= n; i++ {
			elems = append(elems, fmt.Sprint(i))
			sum += int64(i)
		}
		xs := "[" + strings.Join(elems, ", ") + "]"
		src := fmt.Sprintf("@ GET /t {\n  $ xs = %s\n  $ f1 = async {\n    $ s = 0\n    for x in xs {\n      for y in xs {\n        s = s + x * %d\n      }\n    }\n    > s\n  }\n  $ f2 = async {\n    $ t = 0\n    for u in xs {\n      for v in xs {\n        t = t + v + %d\n      }\n    }\n    > t\n  }\n  $ p = 0\n  for z in xs {\n    for w in xs {\n      p = p + z\n    }\n  }\n  $ r2 = await f2\n  $ r1 = await f1\n  > {r1: r1, r2: r2, p: p}\n}\n", xs, a, b)
		nn := int64(n)
		return c09Prog{Src: src, Expect: map[string]interface{}{"r1": sum * nn * a, "r2": sum*nn + nn*nn*b, "p": sum * nn}, Kind: "for-loops-in-sibling-blocks-and-parent"}
	case 6: // block spawned inside an if body; the parent then assigns the enclosing variable
		src := fmt.Sprintf("@ GET /t {\n  $ a = %d\n  $ f = async {\n    > 0\n  }\n  if a > 0 {\n    f = async {\n      $ i = 0\n      while i < %d {\n        i = i + 1\n      }\n      > a * %d\n    }\n    a = a + 100\n  }\n  a = a + 1000\n  $ r = await f\n  > {r: r, a: a}\n}\n", a, 50+lim*40, k)
		return c09Prog{Src: src, Expect: map[string]interface{}{"r": a * k, "a": a + 1100}, Kind: "spawn-in-if"}
	case 7: // blocks spawned in a loop body, each sees the values of its own iteration
		src := fmt.Sprintf("@ GET /t {\n  $ base = %d\n  $ fs = []\n  for i in [1, 2, 3] {\n    $ f = async {\n      $ j = 0\n      while j < %d {\n        j = j + 1\n      }\n      > base * 10 + i\n    }\n    fs = fs + [f]\n    base = base + 1\n  }\n  base = base + 500\n  $ f0 = fs[0]\n  $ f1 = fs[1]\n  $ f2 = fs[2]\n  $ r2 = await f2\n  $ r0 = await f0\n  $ r1 = await f1\n  > {r0: r0, r1: r1, r2: r2, base: base}\n}\n", a, 30+lim*30)
		return c09Prog{Src: src, Expect: map[string]interface{}{"r0": a*10 + 1, "r1": (a+1)*10 + 2, "r2": (a+2)*10 + 3, "base": a + 503}, Kind: "spawn-in-loop"}
	case 8: // block spawned inside a while body nested in an if; the enclosing counter moves on
		src := fmt.Sprintf("@ GET /t {\n  $ n = %d\n  $ w = 0\n  $ f = async {\n    > 0\n  }\n  if n > 0 {\n    while w < 2 {\n      w = w + 1\n      if w == 1 {\n        f = async {\n          $ j = 0\n          while j < %d {\n            j = j + 1\n          }\n          > n * 100 + w\n        }\n      }\n      n = n + 7\n    }\n  }\n  > {r: await f, n: n, w: w}\n}\n", a, 40+lim*30)
		return c09Prog{Src: src, Expect: map[string]interface{}{"r": a*100 + 1, "n": a + 14, "w": int64(2)}, Kind: "spawn-in-nested-while"}
	case 0: // arithmetic over captured values; parent reassigns the captured variable afterwards
		src := fmt.Sprintf("@ GET /t {\n  $ a = %d\n  $ b = %d\n  $ f = async {\n    > a * %d + b\n  }\n  $ c = a + b\n  $ r = await f\n  > {r: r, c: c}\n}\n", a, b, k)
		return c09Prog{Src: src, Expect: map[string]interface{}{"r": a*k + b, "c": a + b}, Kind: "arith"}
	case 1: // control flow inside the block
		var r int64
		t := a + b
		if t > thr {
			r = t * 2
		} else {
			r = t
		}
		src := fmt.Sprintf("@ GET /t {\n  $ a = %d\n  $ b = %d\n  $ f = async {\n    $ t = a + b\n    if t > %d {\n      > t * 2\n    }\n    > t\n  }\n  > {r: await f}\n}\n", a, b, thr)
		return c09Prog{Src: src, Expect: map[string]interface{}{"r": r}, Kind: "if-in-block"}
	case 2: // loop inside the block
		s := int64(0)
		for i := int64(0); i < lim; i++ {
			s += (i + 1) * a
		}
		src := fmt.Sprintf("@ GET /t {\n  $ a = %d\n  $ f = async {\n    $ s = 0\n    $ i = 0\n    while i < %d {\n      i = i + 1\n      s = s + i * a\n    }\n    > s\n  }\n  $ z = a * 100\n  > {r: await f, z: z}\n}\n", a, lim)
		return c09Prog{Src: src, Expect: map[string]interface{}{"r": s, "z": a * 100}, Kind: "while-in-block"}
	case 3: // several futures awaited in another order than spawned, one awaited twice
		src := fmt.Sprintf("@ GET /t {\n  $ a = %d\n  $ b = %d\n  $ f1 = async {\n    > a + 1\n  }\n  $ f2 = async {\n    > b * 2\n  }\n  $ f3 = async {\n    > [a, b]\n  }\n  $ r3 = await f3\n  $ r2 = await f2\n  $ r1 = await f1\n  $ r1b = await f1\n  > {r1: r1, r2: r2, r3: r3, again: r1b}\n}\n", a, b)
		return c09Prog{Src: src, Expect: map[string]interface{}{"r1": a + 1, "r2": b * 2, "r3": []interface{}{a, b}, "again": a + 1}, Kind: "multi"}
	case 4: // nested blocks
		src := fmt.Sprintf("@ GET /t {\n  $ a = %d\n  $ f = async {\n    $ g = async {\n      > a * %d\n    }\n    $ inner = await g\n    > inner + 1\n  }\n  > {r: await f}\n}\n", a, k)
		return c09Prog{Src: src, Expect: map[string]interface{}{"r": a*k + 1}, Kind: "nested"}
	default: // a block that fails: await raises its error every time -> the route fails
		src := fmt.Sprintf("@ GET /t {\n  $ a = %d\n  $ z = 0\n  $ f = async {\n    > a / z\n  }\n  $ r = await f\n  > {r: r}\n}\n", a)
		return c09Prog{Src: src, Expect: "ERROR", Kind: "error-in-block"}
	}
}

func c09Check(w *mon.W, p c09Prog, engine string, idx int) {
	mod, err := parseModule(p.Src)
	if err != nil {
		w.Violate("parse-rejects-async-program", err.Error(), p)
		return
	}
	var outs []engOut
	for run := 0; run < 6; run++ {
		runtime.GOMAXPROCS([]int{1, 4, 16, 2, 1, 16}[run])
		var o engOut
		if p.Pre != "" && run > 0 {
			if pmod, perr := parseModule(p.Pre); perr == nil {
				w.Watch(fmt.Sprintf("async program %d on %s (failing predecessor, run %d)", idx, engine, run), 30*time.Second, func() {
					if engine == "interpreter" {
						runInterp(nil, pmod, "/t")
					} else if bc, cerr := compiler.NewCompilerWithOptLevel(compiler.OptBasic).CompileRoute(firstRoute(pmod)); cerr == nil {
						runVM(bc, nil, 2000000)
					}
				})
				w.Count("failing_predecessors_run", 1)
			}
		}
		w.Watch(fmt.Sprintf("async program %d on %s (run %d)", idx, engine, run), 30*time.Second, func() {
			if engine == "interpreter" {
				o = runInterp(nil, mod, "/t")
			} else {
				bc, cerr := compiler.NewCompilerWithOptLevel(compiler.OptBasic).CompileRoute(firstRoute(mod))
				if cerr != nil {
					o = engOut{Kind: "compile-error", Err: cerr.Error()}
					return
				}
				o = runVM(bc, nil, 2000000)
			}
		})
		outs = append(outs, o)
	}
	runtime.GOMAXPROCS(16)
	if outs[0].Kind == "compile-error" {
		w.Count("vm_compile_rejected", 1)
		return
	}
	wit := map[string]interface{}{"program": p, "engine": engine, "runs": outs}
	for _, o := range outs[1:] {
		if !sameEng(outs[0], o) {
			w.Violate("result-depends-on-schedule:"+engine+":"+p.Kind, fmt.Sprintf("%s: runs of one await-only program differ: %s vs %s", engine, c01Show(outs[0]), c01Show(o)), wit)
			return
		}
	}
	want, _ := canon(p.Expect)
	got := outs[0]
	switch {
	case p.Expect == "SAME-EVERY-TIME":
		// what a block without `>` yields is not pinned here; that it is the same on every run is (checked above)
		if got.Kind == "panic" {
			w.Violate("engine-panic:"+engine+":"+p.Kind, engine+" panicked: "+got.Err, wit)
		}
	case p.Expect == "ERROR":
		if got.Kind != "error" {
			w.Violate("failed-block-not-raised-by-await:"+engine, fmt.Sprintf("%s: the block fails (division by zero) but the route gives %s", engine, c01Show(got)), wit)
		}
	case got.Kind == "panic":
		w.Violate("engine-panic:"+engine+":"+p.Kind, engine+" panicked: "+got.Err, wit)
	case got.Kind != "value" || !reflect.DeepEqual(got.Val, want):
		w.Violate("wrong-async-result:"+engine+":"+p.Kind, fmt.Sprintf("%s gives %s, expected %v", engine, c01Show(got), p.Expect), wit)
	}
}

// ---- (a) sustained-overlap programs ----

func c09RacySrc(rng *rand.Rand) string {
	n := 1500 + rng.Intn(2000)
	decls := ""
	for i := 0; i < 40; i++ {
		decls += fmt.Sprintf("  $ d%d = k + %d\n", i, i)
	}
	return fmt.Sprintf(`@ GET /t {
  $ base = %d
  $ k = 0
  $ f = async {
    $ s = 0
    $ i = 0
    while i < %d {
      i = i + 1
      s = s + base
    }
    > s
  }
  $ g = async {
    $ t = 0
    $ j = 0
    while j < %d {
      j = j + 1
      t = t + base + 1
    }
    > t
  }
  while k < %d {
    k = k + 1
  }
%s  $ rf = await f
  $ rg = await g
  > {rf: rf, rg: rg, k: k}
}
`, 1+rng.Intn(5), n, n, n, decls)
}

// ---- worker ----

func c09Worker(in, out string) {
	w := mon.OpenWorker(in, out)
	var p c09Params
	json.Unmarshal(w.Params, &p)
	base := runtime.NumGoroutine()
	for i := w.From; i < w.To; i++ {
		w.Begin(i)
		rng := w.Rand("c09-"+p.Part, i)
		switch p.Part {
		case "programs":
			pr := c09Gen(rng)
			c09Check(w, pr, "interpreter", i)
			c09Check(w, pr, "vm", i)
			w.Case(mon.Hash(pr.Src), true)
			w.Count("kind:"+pr.Kind, 1)
			if i%300 == 0 {
				w.Sample(pr)
			}
		case "racy":
			src := c09RacySrc(rng)
			mod, err := parseModule(src)
			if err != nil {
				w.Violate("parse-rejects-async-program", err.Error(), src)
				continue
			}
			var o engOut
			w.Watch(fmt.Sprintf("overlap program %d", i), 60*time.Second, func() { o = runInterp(nil, mod, "/t") })
			if o.Kind != "value" {
				w.Violate("overlap-program-fails:interpreter:"+o.Kind, "a program whose blocks only read a variable the parent never writes failed: "+o.Err, map[string]interface{}{"source": src})
			}
			w.Case(mon.Hash(src), true)
			w.Count("overlap_programs", 1)
		case "futures":
			c09Futures(w, rng, i)
			w.Case(fmt.Sprintf("fut-%d", i), true)
		case "combinators":
			c09Combinators(w, rng, i)
			w.Case(fmt.Sprintf("comb-%d", i), true)
		}
	}
	// (e) goroutines return to the baseline
	deadline := 200
	for ; deadline > 0 && runtime.NumGoroutine() > base+2; deadline-- {
		time.Sleep(10 * time.Millisecond)
	}
	if n := runtime.NumGoroutine(); n > base+2 {
		w.Violate("goroutines-left-behind:"+p.Part, fmt.Sprintf("%d goroutines remain after all futures settled (baseline %d)", n, base), map[string]interface{}{"part": p.Part, "stacks": clipN(c09Stacks(), 3000)})
	}
	w.Done()
}

func c09Stacks() string {
	buf := make([]byte, 1<<18)
	n := runtime.Stack(buf, true)
	var keep []string
	for _, g := range strings.Split(string(buf[:n]), "\n\n") {
		if strings.Contains(g, "glyph/pkg") {
			keep = append(keep, g)
		}
	}
	return strings.Join(keep, "\n\n")
}

// (c) settle-once: many settlers with unique values, many awaiters; every observation
// after the first settle must equal it.
func c09Futures(w *mon.W, rng *rand.Rand, idx int) {
	f := interpreter.NewFuture()
	type obs struct {
		val interface{}
		err string
	}
	var mu sync.Mutex
	var seen []obs
	var wg sync.WaitGroup
	start := make(chan struct{})
	for g := 0; g < 16; g++ {
		wg.Add(1)
		go func(g int) {
			defer wg.Done()
			<-start
			switch g % 3 {
			case 0:
				f.Resolve(fmt.Sprintf("v%d", g))
			case 1:
				f.Reject(fmt.Errorf("e%d", g))
			default:
				f.Cancel()
			}
		}(g)
	}
	for g := 0; g < 16; g++ {
		wg.Add(1)
		go func(g int) {
			defer wg.Done()
			<-start
			var v interface{}
			var err error
			switch g % 3 {
			case 0:
				v, err = f.Await()
			case 1:
				v, err = f.AwaitWithTimeout(20 * time.Second)
			default:
				for f.IsPending() {
					runtime.Gosched()
				}
				v, err = f.Await()
			}
			o := obs{val: v}
			if err != nil {
				o.err = err.Error()
			}
			mu.Lock()
			seen = append(seen, o)
			mu.Unlock()
		}(g)
	}
	w.Watch(fmt.Sprintf("future history %d", idx), 40*time.Second, func() {
		close(start)
		wg.Wait()
	})
	v2, e2 := f.Await()
	final := obs{val: v2}
	if e2 != nil {
		final.err = e2.Error()
	}
	for _, o := range seen {
		if o != final {
			w.Violate("future-settled-twice-or-awaiters-disagree", fmt.Sprintf("one future was observed as %+v and as %+v", o, final), map[string]interface{}{"history": idx})
			return
		}
	}
	st := f.State()
	if (final.err == "") != (st == interpreter.FutureResolved) {
		w.Violate("future-state-disagrees-with-await", fmt.Sprintf("State()=%v but Await gives %+v", st, final), nil)
	}
	w.Count("future_observations", len(seen))
}

// (d) combinators with gated futures
func c09Min(a, b int) int {
	if a < b {
		return a
	}
	return b
}

func c09Combinators(w *mon.W, rng *rand.Rand, idx int) {
	n := 2 + rng.Intn(4)
	if idx%3 == 0 {
		// many inputs still pending when the first one settles: combinators that cancel or
		// collect the others do that work concurrently with settling their own result
		n = []int{16, 64, 400}[rng.Intn(3)]
	}
	mk := func() ([]*interpreter.Future, []chan struct{}) {
		fs := make([]*interpreter.Future, n)
		gates := make([]chan struct{}, n)
		for i := range fs {
			gates[i] = make(chan struct{})
		}
		return fs, gates
	}
	outcome := make([]bool, n) // true = resolves
	for i := range outcome {
		outcome[i] = rng.Intn(3) != 0
	}
	spawn := func(fs []*interpreter.Future, gates []chan struct{}) {
		for i := range fs {
			i := i
			fs[i] = interpreter.RunAsync(func() (interface{}, error) {
				<-gates[i]
				if outcome[i] {
					return fmt.Sprintf("val%d", i), nil
				}
				return nil, fmt.Errorf("err%d", i)
			})
		}
	}
	order := rng.Perm(n)
	release := func(gates []chan struct{}, waitFor *interpreter.Future) {
		for k, i := range order {
			close(gates[i])
			if k == 0 && waitFor != nil {
				// let the first released future settle before any other is released
				select {
				case <-waitFor.Done():
				case <-time.After(10 * time.Second):
				}
			} else if n <= 8 {
				time.Sleep(time.Millisecond)
			}
		}
	}
	wit := map[string]interface{}{"inputs": n, "outcomes_resolve": outcome, "release_order": order}
	if n > 8 {
		wit = map[string]interface{}{"inputs": n, "first_released": order[0], "first_resolves": outcome[order[0]]}
	}
	w.Mark("combinator_input_counts", fmt.Sprint(n))
	// All: order-preserving all-or-error
	fs, gates := mk()
	spawn(fs, gates)
	all := interpreter.All(fs...)
	release(gates, nil)
	v, err := all.AwaitWithTimeout(20 * time.Second)
	allOK := true
	firstErr := -1
	for i, ok := range outcome {
		if !ok {
			allOK = false
			if firstErr < 0 {
				firstErr = i
			}
		}
	}
	if allOK {
		want := make([]interface{}, n)
		for i := range want {
			want[i] = fmt.Sprintf("val%d", i)
		}
		if err != nil || !reflect.DeepEqual(v, want) {
			w.Violate("all:not-order-preserving", fmt.Sprintf("All of %d resolving futures released in order %v gives %v, %v; expected the values in input order", n, order, v, err), wit)
		}
	} else if err == nil {
		w.Violate("all:error-swallowed", fmt.Sprintf("All returned %v although input %d rejects", v, firstErr), wit)
	} else if !strings.HasPrefix(err.Error(), "err") && !strings.Contains(err.Error(), "cancel") {
		w.Violate("all:unexpected-error", err.Error(), wit)
	} else {
		// the outcome of All is a function of its inputs' outcomes, not of the order they settle in: it reports the
		// rejection with the lowest index, and the inputs in front of that one keep their own results
		if err.Error() != fmt.Sprintf("err%d", firstErr) {
			w.Violate("all:error-depends-on-settle-order", fmt.Sprintf("All over %d inputs of which input %d is the first (by position) to reject reports %q; released in order %v", n, firstErr, err.Error(), order[:c09Min(len(order), 12)]), wit)
		}
		for i := 0; i < firstErr && i < 64; i++ {
			iv, ierr := fs[i].AwaitWithTimeout(10 * time.Second)
			if ierr != nil || iv != fmt.Sprintf("val%d", i) {
				w.Violate("all:earlier-input-lost-its-result", fmt.Sprintf("input %d (in front of the first rejecting input %d) resolves with val%d, but another awaiter of it gets %v, %v after All settled", i, firstErr, i, iv, ierr), wit)
				break
			}
		}
		w.Count("all_rejections_checked_for_position_and_earlier_inputs", 1)
	}
	// Race: outcome of the first settled
	fs, gates = mk()
	spawn(fs, gates)
	race := interpreter.Race(fs...)
	release(gates, race)
	v, err = race.AwaitWithTimeout(20 * time.Second)
	first := order[0]
	if outcome[first] {
		if err != nil || v != fmt.Sprintf("val%d", first) {
			w.Violate("race:not-first-settled", fmt.Sprintf("Race: future %d settled first (alone) with val%d, Race gives %v, %v", first, first, v, err), wit)
		}
	} else if err == nil || err.Error() != fmt.Sprintf("err%d", first) {
		w.Violate("race:not-first-settled", fmt.Sprintf("Race: future %d rejected first (alone), Race gives %v, %v", first, v, err), wit)
	}
	// Any: first success; rejects only when all rejected
	fs, gates = mk()
	spawn(fs, gates)
	anyF := interpreter.Any(fs...)
	// release one by one, each settling before the next is released
	firstSuccess := -1
	for _, i := range order {
		close(gates[i])
		select {
		case <-fs[i].Done():
		case <-time.After(10 * time.Second):
		}
		if outcome[i] && firstSuccess < 0 {
			firstSuccess = i
			// no other future is released until Any itself has settled: the expectation then
			// does not depend on how fast Any's internal goroutines are scheduled
			select {
			case <-anyF.Done():
			case <-time.After(10 * time.Second):
			}
		}
	}
	v, err = anyF.AwaitWithTimeout(20 * time.Second)
	if firstSuccess >= 0 {
		if err != nil || v != fmt.Sprintf("val%d", firstSuccess) {
			w.Violate("any:not-first-success", fmt.Sprintf("Any: first success was future %d, Any gives %v, %v", firstSuccess, v, err), wit)
		}
	} else if err == nil {
		w.Violate("any:resolves-although-all-rejected", fmt.Sprint(v), wit)
	}
	w.Count("combinator_rounds", 1)
}

func checkC09(tier string) {
	r := mon.New("C09", tier, "exploration")
	r.Rule = "(a) programs with two async blocks looping 1500-3500 times over a captured variable while the parent loops assigning a variable and then declares 40 new ones, interpreter, plain build (fatal concurrent-map detection) and race build; (b) 6 families of await-only programs (arithmetic over captured values, if / while inside a block, several futures awaited out of order and twice, nested blocks, failing block) x both engines x 6 runs with GOMAXPROCS in {1,4,16,2,1,16}, compared with independently computed results; (c) future histories: 16 concurrent settlers (Resolve/Reject/Cancel with unique values) x 16 awaiters (Await, AwaitWithTimeout, polling); (d) All/Race/Any over 2-5 gated futures with PRNG outcomes and release orders; (e) goroutine count back to baseline. distinct = program / history index; every case non-trivial"
	onDeath := func(part string) func(int, mon.ChildOut, *mon.Rec) bool {
		return func(i int, co mon.ChildOut, hang *mon.Rec) bool {
			if hang != nil {
				r.Violate("does-not-settle:"+part, hang.Desc, map[string]interface{}{"case": i, "stacks": clipN(hang.Stacks[1], 2500)})
				return true
			}
			cls := co.Death
			r.Violate("process-death:"+part+":"+cls, fmt.Sprintf("%s case %d killed the process (%s): %s", part, i, cls, clipN(mon.PanicExcerpt(co.Tail, 12), 800)), map[string]interface{}{"case": i})
			return true
		}
	}
	np := r.Pick(600, 30000)
	r.RunBatch(mon.Batch{Worker: "c09", Tag: "programs", N: np, Chunk: (np + 15) / 16, Parallel: 16, Params: c09Params{Part: "programs"}, Timeout: 40 * time.Minute, OnDeath: onDeath("programs")})
	nf := r.Pick(400, 30000)
	r.RunBatch(mon.Batch{Worker: "c09", Tag: "futures", N: nf, Chunk: (nf + 7) / 8, Parallel: 8, Params: c09Params{Part: "futures"}, Timeout: 40 * time.Minute, OnDeath: onDeath("futures")})
	nc := r.Pick(300, 20000)
	r.RunBatch(mon.Batch{Worker: "c09", Tag: "combinators", N: nc, Chunk: (nc + 7) / 8, Parallel: 8, Params: c09Params{Part: "combinators"}, Timeout: 40 * time.Minute, OnDeath: onDeath("combinators")})
	nr := r.Pick(48, 1500)
	r.RunBatch(mon.Batch{Worker: "c09", Tag: "racy-plain", N: nr, Chunk: (nr + 7) / 8, Parallel: 8, Params: c09Params{Part: "racy"}, Timeout: 40 * time.Minute, OnDeath: onDeath("overlap")})
	if raceBin, err := mon.BuildSelf("vcheck.race", "-race"); err == nil {
		logp := filepath.Join(mon.BuildDir(), "race", "C09")
		os.MkdirAll(filepath.Dir(logp), 0o755)
		old, _ := filepath.Glob(logp + "*")
		for _, f := range old {
			os.Remove(f)
		}
		for _, part := range []string{"racy", "futures", "combinators"} {
			n := r.Pick(24, 600)
			r.RunBatch(mon.Batch{Worker: "c09", Tag: "race-" + part, Bin: raceBin, N: n, Chunk: (n + 7) / 8, Parallel: 8, Params: c09Params{Part: part}, Timeout: 40 * time.Minute, OnDeath: onDeath("race-" + part), Env: []string{"GORACE=halt_on_error=0 log_path=" + logp}})
		}
		blocks, total := mon.ParseRaceLogs(logp)
		r.Set("race_reports_total", total)
		r.Set("race_reports_distinct_in_repo", len(blocks))
		for _, b := range blocks {
			r.Violate("race:"+b.Key, "data race: "+b.Entry[0]+" vs "+b.Entry[1], map[string]interface{}{"report": clipN(b.Text, 3000)})
		}
	} else {
		r.Inconclusive("race build failed: " + err.Error())
	}
	r.Floor(500)
	r.Finish()
}

var _ = errors.New
