package main

// C04 — Faults in user programs are contained.
//
// Containment monitor at the HTTP boundary (CLI wiring, both modes, one module per case):
// no dropped connection, no hang, 5xx bodies generic, no Go error text / stack / path in any
// body, no 2xx for an evaluation that fails at library level, and the canary route still
// answers afterwards. Enumerated operator x shape matrix, builtin x arity x shape matrix,
// statement positions, response builders x status codes, extremes, non-terminating
// programs, hostile requests, plus ill-typed random programs.

import (
	"encoding/json"
	"fmt"
	"regexp"
	"strings"

	"github.com/glyphlang/glyph/pkg/compiler"

	"verifharness/gen"
	"verifharness/mon"
)

func init() { checks["C04"] = checkC04 }

var c04Shapes = []struct{ name, src string }{
	{"int", "7"}, {"float", "2.5"}, {"str", `"s"`}, {"bool", "true"}, {"null", "null"}, {"array", "[1, 2]"}, {"object", "{a: 1}"}, {"emptystr", `""`}, {"nested", "[[1], {b: [2]}]"},
}

var c04BinOps = []string{"+", "-", "*", "/", "%", "==", "!=", "<", "<=", ">", ">=", "&&", "||"}

var c04Builtins = []string{"time.now", "now", "Ok", "Err", "upper", "lower", "trim", "split", "join", "contains", "replace", "substring", "length", "startsWith", "endsWith", "indexOf", "charAt",
	"parseInt", "parseFloat", "toString", "abs", "min", "max", "randomInt", "generateId", "append", "set", "remove", "keys", "map", "filter", "reduce", "find", "some", "every", "sort", "reverse", "flat", "slice",
	"text", "html", "blob", "redirect"}

type c04Case struct {
	Family string `json:"family"`
	Detail string `json:"detail"`
	Src    string `json:"source"`
	Req    HReq   `json:"request"`
	WatchS int    `json:"watch_s,omitempty"`
	NonTerm bool  `json:"non_terminating,omitempty"`
	Pre     []HReq `json:"pre,omitempty"` // set-up requests issued before the hostile one
}

func c04Route(body string) string {
	return "@ GET /t {\n" + body + "}\n\n@ GET /__alive {\n  > {alive: true}\n}\n"
}

func c04Cases(r *mon.Run) []c04Case {
	var cs []c04Case
	add := func(fam, detail, body string) {
		cs = append(cs, c04Case{Family: fam, Detail: detail, Src: c04Route(body), Req: HReq{M: "GET", P: "/t"}})
	}
	// binary operators x shape pairs (operands through variables so that nothing is folded at compile time)
	for _, op := range c04BinOps {
		for _, a := range c04Shapes {
			for _, b := range c04Shapes {
				add("binop", op+":"+a.name+","+b.name, fmt.Sprintf("  $ a = %s\n  $ b = %s\n  > {x: a %s b}\n", a.src, b.src, op))
			}
		}
	}
	for _, op := range []string{"!", "-"} {
		for _, a := range c04Shapes {
			add("unop", op+":"+a.name, fmt.Sprintf("  $ a = %s\n  > {x: %sa}\n", a.src, op))
		}
	}
	// provider calls with hostile arguments against records that hold arrays / objects: the
	// call may fail, but the provider must stay usable — the canary of this family writes to
	// and reads from all three in-memory providers afterwards
	provMod := func(expr string) string {
		return "@ POST /seed {\n  % db: Database\n  % redis: Redis\n  % mongo: MongoDB\n  $ r = db.items.create({id: \"r1\", tags: [1, 2], meta: {a: 1}, n: 5})\n  $ s = redis.set(\"k\", \"v\")\n  $ c = mongo.Collection(\"c\")\n  $ i = c.InsertOne({k: \"m1\", tags: [1, 2], meta: {a: 1}})\n  > {ok: true}\n}\n\n" +
			"@ GET /t {\n  % db: Database\n  % redis: Redis\n  % mongo: MongoDB\n  $ c = mongo.Collection(\"c\")\n  > {x: " + expr + "}\n}\n\n" +
			"@ GET /__alive {\n  % db: Database\n  % redis: Redis\n  % mongo: MongoDB\n  $ r = db.items.create({id: \"canary\", n: 1})\n  $ s = redis.set(\"canary\", \"1\")\n  $ c = mongo.Collection(\"c\")\n  $ i = c.InsertOne({k: \"canary\"})\n  > {alive: true, n: db.items.length(), g: redis.get(\"canary\"), m: c.CountDocuments({})}\n}\n"
	}
	hostile := []string{"[1, 2]", "{a: 1}", "null", "[[1]]", "{a: [1]}", "7", "\"r1\"", "2.5", "true"}
	for _, a := range hostile {
		for _, call := range []string{"db.items.count(\"tags\", %s)", "db.items.count(\"meta\", %s)", "db.items.filter(\"tags\", %s)", "db.items.filter(\"meta\", %s)", "db.items.countWhere(\"tags\", %s, \"n\", 5)",
			"db.items.countWhere(\"n\", 5, \"meta\", %s)", "db.items.get(%s)", "db.items.update(%s, {n: 2})", "db.items.update(\"r1\", %s)", "db.items.delete(%s)", "db.items.create(%s)", "db.items.count(%s, 1)", "db.items.filter(%s, %s)",
			"redis.set(\"k\", %s)", "redis.get(%s)", "redis.del(%s)", "redis.incr(%s)", "redis.hset(\"h\", \"f\", %s)", "redis.lpush(\"l\", %s)", "redis.sadd(\"s\", %s)", "redis.expire(\"k\", %s)",
			"c.Find(%s)", "c.FindOne({tags: %s})", "c.UpdateOne({meta: %s}, {x: 1})", "c.UpdateOne({k: \"m1\"}, %s)", "c.DeleteOne(%s)", "c.InsertOne(%s)", "c.CountDocuments({meta: %s})"} {
			expr := strings.ReplaceAll(call, "%s", a)
			cs = append(cs, c04Case{Family: "provider-call-then-canary", Detail: expr, Src: provMod(expr), Req: HReq{M: "GET", P: "/t"}, Pre: []HReq{{M: "POST", P: "/seed", B: sp("{}")}}})
		}
	}
	// values that are not plain data: a function reference, a future, the request objects, a
	// query key given twice (a Go []string inside the engine) — in every operator position
	extra := []struct{ name, src string }{{"fnref", "fnref"}, {"future", "async {\n    > 1\n  }"}, {"multiq", "query.rep"}, {"headers", "headers"}, {"query", "query"}, {"fnref2", "fnref2"}}
	addX := func(fam, detail, body string) {
		cs = append(cs, c04Case{Family: fam, Detail: detail, Src: "! fnref(x: int): int {\n  > x\n}\n\n! fnref2(x: int): int {\n  > x + 1\n}\n\n" + c04Route(body), Req: HReq{M: "GET", P: "/t?rep=1&rep=2&one=1", H: map[string][]string{"X-Two": {"a", "b"}}}})
	}
	all := append(append([]struct{ name, src string }{}, c04Shapes...), extra...)
	for _, op := range c04BinOps {
		for _, a := range extra {
			for _, b := range all {
				addX("binop-special-values", op+":"+a.name+","+b.name, fmt.Sprintf("  $ a = %s\n  $ b = %s\n  > {x: a %s b}\n", a.src, b.src, op))
				if a.name != b.name {
					addX("binop-special-values", op+":"+b.name+","+a.name, fmt.Sprintf("  $ a = %s\n  $ b = %s\n  > {x: a %s b}\n", b.src, a.src, op))
				}
			}
		}
	}
	for _, a := range extra {
		for _, op := range []string{"!", "-"} {
			addX("unop-special-values", op+":"+a.name, fmt.Sprintf("  $ a = %s\n  > {x: %sa}\n", a.src, op))
		}
		for _, b := range all {
			addX("index-special-values", a.name+"["+b.name+"]", fmt.Sprintf("  $ a = %s\n  $ b = %s\n  > {x: a[b]}\n", a.src, b.src))
			addX("index-special-values", b.name+"["+a.name+"]", fmt.Sprintf("  $ a = %s\n  $ b = %s\n  > {x: a[b]}\n", b.src, a.src))
		}
		addX("stmt-special-values", "if:"+a.name, fmt.Sprintf("  $ a = %s\n  if a {\n    > {x: 1}\n  }\n  > {x: 2}\n", a.src))
		addX("stmt-special-values", "for:"+a.name, fmt.Sprintf("  $ a = %s\n  for it in a {\n    $ t = it\n  }\n  > {x: 2}\n", a.src))
		addX("stmt-special-values", "switch:"+a.name, fmt.Sprintf("  $ a = %s\n  switch a {\n    case 7 {\n      > {x: 1}\n    }\n  }\n  > {x: 2}\n", a.src))
		addX("stmt-special-values", "match:"+a.name, fmt.Sprintf("  $ a = %s\n  $ m = match a {\n    7 => 1\n    _ => 3\n  }\n  > {x: m}\n", a.src))
		addX("stmt-special-values", "return:"+a.name, fmt.Sprintf("  $ a = %s\n  > {x: a, y: [a]}\n", a.src))
	}
	for _, a := range c04Shapes {
		for _, b := range c04Shapes {
			add("index", a.name+"["+b.name+"]", fmt.Sprintf("  $ a = %s\n  $ b = %s\n  > {x: a[b]}\n", a.src, b.src))
		}
		add("field", a.name+".f", fmt.Sprintf("  $ a = %s\n  > {x: a.f}\n", a.src))
		add("field", a.name+".f.g", fmt.Sprintf("  $ a = %s\n  > {x: a.f.g}\n", a.src))
		add("call-non-callable", a.name, fmt.Sprintf("  $ a = %s\n  > {x: a(1)}\n", a.src))
		// statement positions
		add("stmt-if", a.name, fmt.Sprintf("  $ a = %s\n  if a {\n    > {x: 1}\n  }\n  > {x: 2}\n", a.src))
		add("stmt-while", a.name, fmt.Sprintf("  $ a = %s\n  while a {\n    break\n  }\n  > {x: 2}\n", a.src))
		add("stmt-for", a.name, fmt.Sprintf("  $ a = %s\n  for it in a {\n    $ t = it\n  }\n  > {x: 2}\n", a.src))
		add("stmt-for-kv", a.name, fmt.Sprintf("  $ a = %s\n  for k, v in a {\n    $ t = v\n  }\n  > {x: 2}\n", a.src))
		add("stmt-switch", a.name, fmt.Sprintf("  $ a = %s\n  switch a {\n    case 7 {\n      > {x: 1}\n    }\n    case \"s\" {\n      > {x: 3}\n    }\n  }\n  > {x: 2}\n", a.src))
		add("stmt-guard", a.name, fmt.Sprintf("  $ a = %s\n  ? (a) :: 400 \"g\"\n  > {x: 2}\n", a.src))
		add("stmt-match", a.name, fmt.Sprintf("  $ a = %s\n  $ m = match a {\n    7 => 1\n    n when n > 3 => 2\n    [h, ...rest] => 4\n    {a} => 5\n    _ => 3\n  }\n  > {x: m}\n", a.src))
		add("stmt-return-shape", a.name, fmt.Sprintf("  $ a = %s\n  > a\n", a.src))
		add("stmt-index-assign", a.name, fmt.Sprintf("  $ a = %s\n  a[0] = 1\n  > {x: a}\n", a.src))
		add("stmt-await", a.name, fmt.Sprintf("  $ a = %s\n  > {x: await a}\n", a.src))
	}
	// builtins x arity x shapes
	for _, fn := range c04Builtins {
		add("builtin-0", fn, fmt.Sprintf("  > {x: %s()}\n", fn))
		for _, a := range c04Shapes {
			add("builtin-1", fn+":"+a.name, fmt.Sprintf("  $ a = %s\n  > {x: %s(a)}\n", a.src, fn))
			for _, b := range c04Shapes {
				add("builtin-2", fn+":"+a.name+","+b.name, fmt.Sprintf("  $ a = %s\n  $ b = %s\n  > {x: %s(a, b)}\n", a.src, b.src, fn))
			}
		}
		rng := r.Rand("b3-" + fn)
		for k := 0; k < 12; k++ {
			a, b, c := c04Shapes[rng.Intn(9)], c04Shapes[rng.Intn(9)], c04Shapes[rng.Intn(9)]
			add("builtin-3", fn+":"+a.name+","+b.name+","+c.name, fmt.Sprintf("  $ a = %s\n  $ b = %s\n  $ c = %s\n  > {x: %s(a, b, c)}\n", a.src, b.src, c.src, fn))
			add("builtin-4", fn+":"+a.name+","+b.name+","+c.name+",int", fmt.Sprintf("  $ a = %s\n  $ b = %s\n  $ c = %s\n  > {x: %s(a, b, c, 1)}\n", a.src, b.src, c.src, fn))
		}
	}
	// response builders x status codes
	big := "9223372036854775807"
	for _, st := range []string{"0 - 1", "0", "99", "100", "101", "199", "200", "204", "304", "599", "600", "1000", "99999", "2147483648", big, "2.5", `"200"`, "null", "true"} {
		add("response-status", "text:"+st, fmt.Sprintf("  $ s = %s\n  > text(\"body\", s)\n", st))
		add("response-status", "html:"+st, fmt.Sprintf("  $ s = %s\n  > html(\"<b>x</b>\", s)\n", st))
		add("response-status", "blob:"+st, fmt.Sprintf("  $ s = %s\n  > blob(\"data\", \"application/octet-stream\", s)\n", st))
		add("response-status", "redirect:"+st, fmt.Sprintf("  $ s = %s\n  > redirect(\"/elsewhere\", s)\n", st))
		add("response-status", "return-status:"+st, fmt.Sprintf("  > {x: 1} :: %s\n", strings.Trim(st, `"`)))
	}
	for _, a := range c04Shapes {
		add("response-arg", "text:"+a.name, fmt.Sprintf("  $ a = %s\n  > text(a)\n", a.src))
		add("response-arg", "redirect:"+a.name, fmt.Sprintf("  $ a = %s\n  > redirect(a)\n", a.src))
		add("response-arg", "blob:"+a.name, fmt.Sprintf("  $ a = %s\n  > blob(a, a)\n", a.src))
	}
	add("response-arg", "redirect-crlf", "  > redirect(\"/a\\r\\nSet-Cookie: x=1\")\n")
	add("response-arg", "blob-bad-content-type", "  > blob(\"d\", \"text/plain\\r\\nX: y\")\n")
	// extremes
	min := "(0 - " + big + " - 1)"
	for _, e := range []struct{ d, body string }{
		{"randomInt-overflowing-width", fmt.Sprintf("  > {x: randomInt(%s, %s)}\n", min, big)},
		{"randomInt-full-positive", fmt.Sprintf("  > {x: randomInt(0, %s)}\n", big)},
		{"randomInt-equal", "  > {x: randomInt(5, 5)}\n"},
		{"randomInt-reversed", "  > {x: randomInt(5, 1)}\n"},
		{"abs-minint", fmt.Sprintf("  > {x: abs(%s)}\n", min)},
		{"neg-minint", fmt.Sprintf("  $ m = %s\n  > {x: -m}\n", min)},
		{"minint-div-minus-one", fmt.Sprintf("  $ m = %s\n  $ d = 0 - 1\n  > {x: m / d, y: m %% d}\n", min)},
		{"int-overflow-mul", fmt.Sprintf("  $ m = %s\n  > {x: m * m, y: m + m}\n", big)},
		{"div-zero-int", "  $ z = 0\n  > {x: 1 / z}\n"}, {"mod-zero-int", "  $ z = 0\n  > {x: 1 % z}\n"},
		{"div-zero-float", "  $ z = 0.0\n  > {x: 1.5 / z}\n"}, {"mod-zero-float", "  $ z = 0.0\n  > {x: 1.5 % z}\n"},
		{"float-overflow-to-inf", "  $ f = 1.0e308\n  > {x: f * 10.0}\n"},
		{"nan-result", "  $ f = 1.0e308\n  $ i = f * 10.0\n  > {x: i - i}\n"},
		{"substring-neg", "  > {x: substring(\"abc\", 0 - 1, 2)}\n"}, {"substring-past-end", "  > {x: substring(\"abc\", 1, 99)}\n"}, {"substring-reversed", "  > {x: substring(\"abc\", 2, 1)}\n"},
		{"substring-huge", fmt.Sprintf("  > {x: substring(\"abc\", 0, %s)}\n", big)}, {"substring-multibyte", "  > {x: substring(\"日本語テキスト日本語テ\", 0, 30)}\n"}, {"substring-multibyte-bytes-vs-chars", "  > {x: substring(\"日本語テキスト日本語テキ\", 0, 36)}\n"},
		{"substring-multibyte-long", "  $ s = \"日本語テキスト日本語テキスト日本語テキスト\"\n  > {x: substring(s, 2, 60), y: substring(s, 20, 22), z: charAt(s, 40)}\n"},
		{"slice-neg", "  > {x: slice([1, 2, 3], 0 - 1, 2)}\n"}, {"slice-past-end", "  > {x: slice([1, 2, 3], 1, 99)}\n"}, {"slice-huge", fmt.Sprintf("  > {x: slice([1, 2, 3], 0, %s)}\n", big)}, {"slice-reversed", "  > {x: slice([1, 2, 3], 2, 1)}\n"},
		{"charAt-neg", "  > {x: charAt(\"abc\", 0 - 1)}\n"}, {"charAt-len", "  > {x: charAt(\"abc\", 3)}\n"}, {"charAt-huge", fmt.Sprintf("  > {x: charAt(\"abc\", %s)}\n", big)},
		{"index-neg", "  $ a = [1, 2]\n  $ i = 0 - 1\n  > {x: a[i]}\n"}, {"index-len", "  $ a = [1, 2]\n  > {x: a[2]}\n"}, {"index-huge", fmt.Sprintf("  $ a = [1, 2]\n  $ i = %s\n  > {x: a[i]}\n", big)}, {"index-float", "  $ a = [1, 2]\n  > {x: a[0.5]}\n"},
		{"split-empty-sep", "  > {x: split(\"abc\", \"\")}\n"}, {"replace-empty", "  > {x: replace(\"abc\", \"\", \"x\")}\n"}, {"join-non-strings", "  > {x: join([1, null, [2]], \",\")}\n"},
		{"parseInt-garbage", "  > {x: parseInt(\"12x\"), y: parseInt(\"\"), z: parseInt(\"99999999999999999999\")}\n"}, {"parseFloat-garbage", "  > {x: parseFloat(\"1e999\"), y: parseFloat(\"nan\")}\n"},
		{"sort-mixed", "  > {x: sort([3, \"a\", null, [1], {b: 2}, 1.5])}\n"}, {"flat-deep", "  > {x: flat([[1, [2, [3]]], 4])}\n"}, {"reverse-empty", "  > {x: reverse([])}\n"},
		{"map-non-function", "  > {x: map([1, 2], 5)}\n"}, {"filter-non-function", "  > {x: filter([1, 2], \"f\")}\n"}, {"reduce-non-function", "  > {x: reduce([1, 2], null, 0)}\n"},
		{"keys-of-array", "  > {x: keys([1, 2])}\n"}, {"set-on-array", "  > {x: set([1], \"k\", 2)}\n"}, {"remove-on-int", "  > {x: remove(5, 0)}\n"}, {"append-non-array", "  > {x: append(5, 1)}\n"},
		{"deep-nesting-literal", "  > {x: " + strings.Repeat("[", 200) + "1" + strings.Repeat("]", 200) + "}\n"},
		{"long-chain", "  $ a = 1\n  > {x: a" + strings.Repeat(" + a", 600) + "}\n"},
		{"undefined-variable", "  > {x: nosuch}\n"}, {"undefined-function", "  > {x: nosuch(1)}\n"}, {"undefined-method", "  $ a = {b: 1}\n  > {x: a.nosuch(1)}\n"},
		{"string-times-int", "  $ s = \"ab\"\n  > {x: s * 1000000000}\n"},
		{"huge-array-literal-index", "  $ a = [1]\n  > {x: a[1000000000]}\n"},
		{"array-eq-array", "  $ a = [1]\n  $ b = [1]\n  > {x: a == b, y: a != b}\n"}, {"object-eq-object", "  $ a = {k: [1]}\n  $ b = {k: [1]}\n  > {x: a == b}\n"},
	} {
		add("extreme", e.d, e.body)
	}
	// results JSON cannot carry (NaN, +-Inf; from arithmetic, from parseFloat, from a float query parameter): the
	// evaluation succeeds, the response cannot be produced — that is a failed request, never a 2xx
	for _, q := range []string{"NaN", "Inf", "-Inf", "%2BInf", "1e308", "-1e308", "nan", "infinity"} {
		for _, e := range []struct{ d, body string }{
			{"echo", "  ? factor: float = 1.0\n  > {x: factor}\n"}, {"scaled", "  ? factor: float = 1.0\n  > {x: factor * 10.0}\n"},
			{"in-array", "  ? factor: float = 1.0\n  > [1, factor * 10.0]\n"}, {"bare", "  ? factor: float = 1.0\n  > factor * 100.0\n"},
			{"with-status", "  ? factor: float = 1.0\n  > {x: factor * 10.0} :: 201\n"},
		} {
			cs = append(cs, c04Case{Family: "unencodable-result", Detail: e.d + ":" + q, Src: c04Route(e.body), Req: HReq{M: "GET", P: "/t?factor=" + q}})
		}
	}
	// non-terminating programs: must end in an error within the watchdog
	nt := func(d, src string) {
		cs = append(cs, c04Case{Family: "non-terminating", Detail: d, Src: src + "\n@ GET /__alive {\n  > {alive: true}\n}\n", Req: HReq{M: "GET", P: "/t"}, WatchS: 25, NonTerm: true})
	}
	nt("while-true-empty", "@ GET /t {\n  while true {\n  }\n  > {x: 1}\n}\n")
	nt("while-true-body", "@ GET /t {\n  $ n = 0\n  while true {\n    n = n + 1\n  }\n  > {x: n}\n}\n")
	nt("while-true-continue", "@ GET /t {\n  $ n = 0\n  while true {\n    n = n + 1\n    if n > 0 {\n      continue\n    }\n  }\n  > {x: n}\n}\n")
	nt("while-true-nested-continue", "@ GET /t {\n  $ n = 0\n  while n >= 0 {\n    if true {\n      if n == n {\n        continue\n      }\n    }\n    n = n + 1\n  }\n  > {x: n}\n}\n")
	nt("while-cond-never-false", "@ GET /t {\n  $ n = 1\n  while n > 0 {\n    n = n + 1\n  }\n  > {x: n}\n}\n")
	nt("recursion-unbounded", "! f(n: int!): int {\n  > f(n + 1)\n}\n\n@ GET /t {\n  > {x: f(0)}\n}\n")
	nt("recursion-mutual", "! f(n: int!): int {\n  > g(n + 1)\n}\n\n! g(n: int!): int {\n  > f(n + 1)\n}\n\n@ GET /t {\n  > {x: f(0)}\n}\n")
	nt("recursion-in-expression", "! f(n: int!): int {\n  > 1 + f(n) + f(n)\n}\n\n@ GET /t {\n  > {x: f(0)}\n}\n")
	nt("nested-while-true", "@ GET /t {\n  while true {\n    while true {\n      $ t = 1\n    }\n  }\n  > {x: 1}\n}\n")
	nt("map-callback-recursion", "! f(n: int!): int {\n  > length(map([n], f))\n}\n\n@ GET /t {\n  > {x: f(0)}\n}\n")
	// hostile requests against an echoing POST route
	echo := "@ POST /t {\n  > {i: input, q: query}\n}\n\n@ GET /t {\n  > {q: query, h: headers}\n}\n\n@ GET /t/:p {\n  > {p: p}\n}\n\n@ GET /__alive {\n  > {alive: true}\n}\n"
	hreq := func(d string, rq HReq) {
		cs = append(cs, c04Case{Family: "hostile-request", Detail: d, Src: echo, Req: rq, WatchS: 30})
	}
	hreq("deep-json-array", HReq{M: "POST", P: "/t", B: sp(strings.Repeat("[", 20000) + strings.Repeat("]", 20000))})
	hreq("deep-json-object", HReq{M: "POST", P: "/t", B: sp(strings.Repeat(`{"a":`, 5000) + "1" + strings.Repeat("}", 5000))})
	hreq("huge-json-string", HReq{M: "POST", P: "/t", B: sp(`{"a":"` + strings.Repeat("x", 2<<20) + `"}`)})
	hreq("invalid-utf8-body", HReq{M: "POST", P: "/t", B: sp("{\"a\":\"\xff\xfe\"}")})
	hreq("huge-number", HReq{M: "POST", P: "/t", B: sp(`{"a":1e999999}`)})
	hreq("dup-keys", HReq{M: "POST", P: "/t", B: sp(`{"a":1,"a":{"a":2}}`)})
	hreq("huge-query", HReq{M: "GET", P: "/t?" + strings.Repeat("k=v&", 100000)})
	hreq("query-bad-escapes", HReq{M: "GET", P: "/t?a=%zz&%=1&b=%"})
	hreq("path-nul", HReq{M: "GET", P: "/t/a%00b"})
	hreq("path-invalid-utf8", HReq{M: "GET", P: "/t/%ff%fe"})
	hreq("path-long", HReq{M: "GET", P: "/t/" + strings.Repeat("a", 100000)})
	hreq("header-huge", HReq{M: "GET", P: "/t", H: map[string][]string{"X-Big": {strings.Repeat("h", 500000)}}})
	hreq("wrong-content-type-json", HReq{M: "POST", P: "/t", B: sp(`{"a":1}`), H: map[string][]string{"Content-Type": {"application/jsonx; \x00"}}})
	return cs
}

var c04Leaks = []*regexp.Regexp{
	regexp.MustCompile(`goroutine \d+ \[`), regexp.MustCompile(`\.go:\d+`), regexp.MustCompile(`runtime error`), regexp.MustCompile(`(?i)\bpanic\b`),
	regexp.MustCompile(`/root/|/repo/|/usr/|/home/`), regexp.MustCompile(`interface \{\}`), regexp.MustCompile(`reflect\.`), regexp.MustCompile(`%!\w?\(`), regexp.MustCompile(`0x[0-9a-f]{6,}`),
	regexp.MustCompile(`\[\]interface`), regexp.MustCompile(`map\[string\]`), regexp.MustCompile(`\*?(interpreter|vm|ast|compiler)\.[A-Z]\w+`), regexp.MustCompile(`int64|float64`),
}

var c04NumRe = regexp.MustCompile(`[0-9]+`)

func c04Norm(s string) string {
	s = c04NumRe.ReplaceAllString(s, "N")
	if len(s) > 70 {
		s = s[:70]
	}
	return strings.Map(func(r rune) rune {
		if r == ' ' || r == ':' || r == '"' {
			return '-'
		}
		return r
	}, s)
}

func checkC04(tier string) {
	r := mon.New("C04", tier, "exploration")
	r.Rule = "one module per case, served in compiled and interpreted mode through the CLI wiring: enumerated 13 binary operators x 9x9 operand shapes, 2 unary x 9, index 9x9, field/call/statement positions (if/while/for/for-kv/switch/guard/match/return/index-assign/await) x 9 shapes, 43 builtins x arity 0..4 x shape tuples (all 1- and 2-argument tuples, sampled 3-4), response builders x 19 status values, ~60 extreme inputs, 11 non-terminating programs, 13 hostile requests; plus PRNG-generated ill-typed programs (40% ill-typed nodes). distinct = (family, detail, mode); non-trivial = every case except the alive probes (each case is a distinct ill-typed or extreme evaluation)"
	r.Assume("bounded work is decided by a 25 s watchdog per request (normal requests take < 5 ms) with two goroutine dumps; finite-but-enormous loops are not generated")
	cases := c04Cases(r)
	// random ill-typed programs
	nrand := r.Pick(6000, 400000)
	for i := 0; i < nrand; i++ {
		rng := r.Rand(fmt.Sprintf("hostile-%d", i))
		f := gen.FullInterp()
		f.IllTyped = 40
		f.LoopVarShadow = true
		f.StrOrder = true
		g := gen.New(rng, f)
		p := g.Program(2 + rng.Intn(5))
		pattern, req := p.RoutePath("/t")
		cases = append(cases, c04Case{Family: "random-ill-typed", Detail: fmt.Sprint(i), Src: p.Source(pattern) + "\n@ GET /__alive {\n  > {alive: true}\n}\n", Req: HReq{M: "GET", P: req}})
	}
	r.Set("enumerated_cases", len(cases)-nrand)
	var jobs []HJob
	for i, c := range cases {
		for mode := 0; mode < 2; mode++ {
			jobs = append(jobs, HJob{ID: i*2 + mode, Src: c.Src, Interp: mode == 1, Pre: c.Pre, Reqs: []HReq{c.Req, {M: "GET", P: "/__alive"}}, WatchS: c.WatchS})
		}
	}
	res, err := httpRun(r, jobs, HRunOpts{Tag: "c04", Timeout: 40 * 60 * 1e9, MemKB: 8 << 20})
	if err != nil {
		r.Inconclusive("cannot build the HTTP worker: " + err.Error())
		r.Finish()
	}
	// A hang verdict is a wall-clock verdict. Every hung job is run once more, nearly alone (four children, nothing else of this
	// check running) and with four times the watchdog: only a hang that repeats there is reported. A program bounded by
	// an iteration limit takes seconds alone and can take longer than the watchdog on a machine that is oversubscribed
	// several times over; an unbounded one hangs again.
	var again []HJob
	for _, j := range jobs {
		if o := res[j.ID]; o != nil && o.Ev == "hang" {
			jj := j
			if jj.WatchS == 0 {
				jj.WatchS = 15
			}
			jj.WatchS *= 4
			again = append(again, jj)
		}
	}
	if len(again) > 0 && len(again) <= 64 {
		res2, err2 := httpRun(r, again, HRunOpts{Tag: "c04-hang-retry", Parallel: 4, Timeout: 3 * 60 * 60 * 1e9, MemKB: 8 << 20})
		if err2 == nil {
			for _, j := range again {
				if o2 := res2[j.ID]; o2 != nil && o2.Ev != "hang" && o2.Died == "" {
					res[j.ID] = o2
					r.Count("hang_not_reproduced_when_run_alone", 1)
				} else {
					r.Count("hang_reproduced_when_run_alone", 1)
				}
			}
		}
	}
	fams := map[string]int{}
	statusHist := map[string]int{}
	for i, c := range cases {
		for mode := 0; mode < 2; mode++ {
			mn := []string{"compiled", "interpreted"}[mode]
			out := res[i*2+mode]
			key := fmt.Sprintf("%s|%s|%s", c.Family, c.Detail, mn)
			wit := map[string]interface{}{"family": c.Family, "detail": c.Detail, "mode": mn, "source": clipN(c.Src, 1500), "request": c.Req.M + " " + clipN(c.Req.P, 120)}
			if out == nil {
				r.Inconclusive("no result for " + key)
				continue
			}
			if out.Died != "" {
				r.Violate(fmt.Sprintf("process-died:%s:%s:%s", mn, c.Family, out.Died), fmt.Sprintf("%s %s: the server process died (%s): %s", c.Family, c.Detail, out.Died, clipN(out.Death, 300)), wit)
				r.Case(key, true)
				continue
			}
			if out.Ev == "hang" {
				site := c04HangSite(out.Stacks)
				wit["stack_site"] = site
				r.Violate(fmt.Sprintf("hang:%s:%s:%s", mn, c.Family, c04HangDetail(c)), fmt.Sprintf("%s %s (%s mode): %s; both goroutine dumps show %s", c.Family, c.Detail, mn, out.Hang, site), wit)
				r.Case(key, true)
				continue
			}
			if out.ParseErr != "" || out.SetupErr != "" {
				if strings.Contains(out.SetupErr, "PANIC") || strings.Contains(out.ParseErr, "PANIC") {
					r.Violate("startup-panic:"+mn+":"+c.Family, "panic while loading the module: "+out.SetupErr+out.ParseErr, wit)
				}
				r.Count("startup_refused:"+mn, 1)
				continue
			}
			r.Case(key, true)
			fams[c.Family]++
			if len(out.Resps) < 2 {
				r.Inconclusive("missing responses for " + key)
				continue
			}
			rs, alive := out.Resps[0], out.Resps[1]
			wit["status"], wit["body"] = rs.S, clipN(rs.B, 300)
			statusHist[fmt.Sprintf("%s:%dxx", mn, rs.S/100)]++
			if rs.Unsent != "" {
				r.Count("request_not_sendable", 1)
				continue
			}
			if rs.Dropped {
				r.Violate(fmt.Sprintf("dropped:%s:%s", mn, c04Norm(rs.Panic)), fmt.Sprintf("%s %s (%s mode): connection dropped, handler panicked: %s", c.Family, c.Detail, mn, clipN(rs.Panic, 200)), wit)
				continue
			}
			if rs.S >= 500 && c.Family != "response-status" { // a status the program chose itself is a value, not a failure
				if !c04Generic(rs.B) {
					r.Violate("non-generic-5xx-body:"+mn, fmt.Sprintf("%s %s: 5xx body is %s", c.Family, c.Detail, clipN(rs.B, 160)), wit)
				}
			}
			if rs.S < 100 || rs.S > 999 {
				r.Violate(fmt.Sprintf("invalid-status-line:%s:%s", mn, c.Family), fmt.Sprintf("%s %s: status %d", c.Family, c.Detail, rs.S), wit)
			}
			if c.Family != "hostile-request" || rs.S >= 500 {
				for _, re := range c04Leaks {
					if m := re.FindString(rs.B); m != "" && !strings.Contains(c.Src, m) && !strings.Contains(c.Req.P, m) {
						r.Violate(fmt.Sprintf("leak:%s:%s:%s", mn, re.String(), c.Family), fmt.Sprintf("%s %s (%s mode): body carries Go-level text %q: %s", c.Family, c.Detail, mn, m, clipN(rs.B, 200)), wit)
						break
					}
				}
			}
			if rs.S >= 200 && rs.S < 300 && c04Generic(rs.B) && !strings.Contains(c.Src, "Internal server error") {
				r.Violate("2xx-carrying-the-generic-error-body:"+mn+":"+c.Family, fmt.Sprintf("%s %s (%s mode): the server reports an internal error in the body of a %d", c.Family, c.Detail, mn, rs.S), wit)
			}
			if c.Family == "unencodable-result" && rs.S >= 200 && rs.S < 300 && rs.CT != "" && strings.Contains(rs.CT, "json") {
				var any interface{}
				if json.Unmarshal([]byte(rs.B), &any) != nil {
					r.Violate("2xx-with-undecodable-json:"+mn, fmt.Sprintf("%s %s: %d with body %s", c.Family, c.Detail, rs.S, clipN(rs.B, 80)), wit)
				}
			}
			if c.NonTerm && rs.S >= 200 && rs.S < 300 {
				r.Violate("non-terminating-program-answers-2xx:"+mn+":"+c.Detail, fmt.Sprintf("%s answered %d %s", c.Detail, rs.S, clipN(rs.B, 80)), wit)
			}
			// library level, same engine: a Go panic escaping the engine is a violation in itself;
			// an engine error must not be answered 2xx
			if c.Family != "hostile-request" && !c.NonTerm {
				lib := c04Library(c, mode == 1)
				if strings.HasPrefix(lib, "panic:") {
					r.Violate("engine-panic:"+mn+":"+c04Norm(lib), fmt.Sprintf("%s %s: the %s engine panicked at library level: %s", c.Family, c.Detail, mn, clipN(lib, 200)), wit)
				}
				if rs.S >= 200 && rs.S < 300 && c.Family != "response-status" && lib == "error" {
					r.Violate("2xx-for-failed-evaluation:"+mn+":"+c.Family, fmt.Sprintf("%s %s: the engine reports an error for this program but the client got %d %s", c.Family, c.Detail, rs.S, clipN(rs.B, 100)), wit)
				}
			}
			if alive.Dropped || alive.S != 200 || !strings.Contains(alive.B, "alive") {
				r.Violate("canary-failed-after:"+mn+":"+c.Family, fmt.Sprintf("after %s %s the canary route answered %d dropped=%v", c.Family, c.Detail, alive.S, alive.Dropped), wit)
			}
		}
		if i == 5 || i == 3000 {
			r.Sample(map[string]interface{}{"family": c.Family, "detail": c.Detail, "source": c.Src})
		}
	}
	r.Set("cases_by_family", fams)
	r.Set("status_classes", statusHist)
	r.Floor(5000)
	r.Finish()
}

func c04Generic(body string) bool {
	b := strings.TrimSpace(body)
	return b == `{"error":"Internal server error"}` || b == `{"code":500,"error":true,"message":"Internal server error"}` || strings.EqualFold(b, "internal server error")
}

func c04HangDetail(c c04Case) string {
	if c.NonTerm {
		return c.Detail
	}
	return "terminating-program"
}

func c04HangSite(stacks []string) string {
	if len(stacks) < 2 {
		return "?"
	}
	for _, fn := range []string{"vm.(*VM).runLoop", "interpreter.(*Interpreter).executeWhile", "interpreter.(*Interpreter).executeFor", "interpreter.(*Interpreter).executeFunction", "interpreter.(*Interpreter).EvaluateExpression", "encoding/json", "parser.(*Parser)"} {
		if strings.Contains(stacks[0], fn) && strings.Contains(stacks[1], fn) {
			return fn
		}
	}
	return "unidentified"
}

// c04Library evaluates the case at library level on one engine: "value", "error" or "?".
func c04Library(c c04Case, interp bool) string {
	mod, err := parseModule(c.Src)
	if err != nil || firstRoute(mod) == nil {
		return "?"
	}
	if strings.Contains(c.Src, "% db:") {
		return "?" // providers are injected by the CLI wiring, not by this driver
	}
	if interp {
		o := runInterp(nil, mod, c.Req.P)
		if o.Kind == "panic" {
			return "panic:" + o.Err
		}
		if o.Kind == "error" {
			return "error"
		}
		return "value"
	}
	if strings.Contains(firstRoute(mod).Path, ":") {
		return "?" // path parameters are bound by the HTTP handler, not by this driver
	}
	if strings.Contains(c.Src, "query") || strings.Contains(c.Src, "headers") || firstRoute(mod).QueryParams != nil {
		return "?" // ... and so are the request objects and declared query parameters
	}
	bc, err := compiler.NewCompilerWithOptLevel(compiler.OptBasic).CompileRoute(firstRoute(mod))
	if err != nil {
		return "?"
	}
	o := runVM(bc, nil, 2000000)
	if o.Kind == "panic" {
		return "panic:" + o.Err
	}
	if o.Kind == "error" {
		return "error"
	}
	return "value"
}
