package main

// C16 — WebSocket rooms stay consistent under concurrency.
//
// History monitor with real WebSocket clients (gorilla dialer over loopback against the
// server built by websocket.NewServer(cfg), the CLI's constructor) and server-side handles
// (hub.GetConnections). Operations are issued from 8 goroutines; every frame has a unique
// id; all calls are logged with call/return times from one monotonic clock. Oracles:
// process death (send on closed channel, concurrent map write), hub progress (marker
// broadcast under a watchdog with goroutine dumps), quiescent invariants (connection's own
// room view == room membership; disconnected connections in no room; limits), wrong
// deliveries (a room frame received by a client that was not a member at any time between
// the send call and the receipt), and the race detector.

import (
	"encoding/json"
	"fmt"
	"math/rand"
	"net/http"
	"net/http/httptest"
	"os"
	"path/filepath"
	"runtime"
	"strings"
	"sync"
	"sync/atomic"
	"time"

	gws "github.com/gorilla/websocket"

	"github.com/glyphlang/glyph/pkg/websocket"

	"verifharness/mon"
)

func init() {
	checks["C16"] = checkC16
	workers["c16"] = c16Worker
}

type c16Client struct {
	idx     int
	ws      *gws.Conn
	id      string
	srv     *websocket.Connection
	mu      sync.Mutex
	wmu     sync.Mutex // gorilla connections allow one concurrent writer
	frames  []c16Frame
	closed  atomic.Bool
	closedT atomic.Int64
	done    chan struct{}
}

type c16Bracket struct {
	client *c16Client
	tag    string
	room   string
}

type c16Frame struct {
	msg string
	t   int64
}

type c16Member struct {
	client   int
	room     string
	joinCall int64
	joinRet  int64 // 0 = the join has not returned yet
	leaveRet int64 // 0 = still (possibly) a member
}

type c16Send struct {
	id   string
	room string // "" = hub-wide
	call int64
}

type c16World struct {
	w        *mon.W
	round    int
	base     time.Time
	srv      *websocket.Server
	hub      *websocket.Hub
	ts       *httptest.Server
	clients  []*c16Client
	mu       sync.Mutex
	members  []c16Member
	sends    map[string]c16Send
	brackets []c16Bracket
	disc     sync.Map // connection id -> its disconnect handler has run
	nextMsg  atomic.Int64
	maxConn  int
	maxRoom  int
	cfgDesc  string
	connIDs  chan string
	ops      atomic.Int64
	liveN    atomic.Int64 // clients not yet closed; closes stop when only two are left
	strategy string
}

func (x *c16World) now() int64 { return int64(time.Since(x.base)) }

// mayClose marks c closed if at least two other clients stay alive (so that later phases
// still have members, receivers and a quiescence witness).
func (x *c16World) mayClose(c *c16Client) bool {
	for {
		n := x.liveN.Load()
		if n <= 2 {
			return false
		}
		if c.closed.Load() {
			return false
		}
		if x.liveN.CompareAndSwap(n, n-1) {
			if c.closed.Swap(true) {
				x.liveN.Add(1)
				return false
			}
			c.closedT.Store(x.now())
			return true
		}
	}
}

func (x *c16World) dial(idx int) (*c16Client, error) {
	url := "ws" + strings.TrimPrefix(x.ts.URL, "http") + "/ws"
	ws, _, err := gws.DefaultDialer.Dial(url, nil)
	if err != nil {
		return nil, err
	}
	c := &c16Client{idx: idx, ws: ws, done: make(chan struct{})}
	// the server tells every connection its id in the first frame (OnConnect handler)
	ws.SetReadDeadline(time.Now().Add(5 * time.Second))
	_, first, err := ws.ReadMessage()
	if err != nil {
		ws.Close()
		return nil, fmt.Errorf("no hello frame: %w", err)
	}
	ws.SetReadDeadline(time.Time{})
	if !strings.HasPrefix(string(first), "hello:") {
		ws.Close()
		return nil, fmt.Errorf("unexpected first frame %q", first)
	}
	c.id = strings.TrimPrefix(string(first), "hello:")
	if sc, ok := x.hub.GetConnection(c.id); ok {
		c.srv = sc
	}
	go func() {
		defer close(c.done)
		for {
			_, b, err := ws.ReadMessage()
			if err != nil {
				return
			}
			t := x.now()
			c.mu.Lock()
			// the write pump batches queued messages into one frame, separated by newlines
			for _, part := range strings.Split(string(b), "\n") {
				c.frames = append(c.frames, c16Frame{part, t})
			}
			c.mu.Unlock()
		}
	}()
	return c, nil
}

func c16Worker(in, out string) {
	w := mon.OpenWorker(in, out)
	for i := w.From; i < w.To; i++ {
		w.Begin(i)
		// the whole round is watched as well: a wedged hub can park the driver itself (a dial that is never
		// registered, a server-side Close waiting for the hub) at a step that has no watchdog of its own
		w.Watch(fmt.Sprintf("round %d does not finish", i), 240*time.Second, func() { c16Round(w, i) })
	}
	w.Done()
}

func c16Round(w *mon.W, round int) {
	rng := w.Rand("c16", round)
	x := &c16World{w: w, round: round, base: time.Now(), sends: map[string]c16Send{}}
	x.maxConn = []int{3, 5, 10000}[rng.Intn(3)]
	x.maxRoom = []int{1, 2, 1000}[rng.Intn(3)]
	cfg := websocket.DefaultConfig()
	cfg.MaxConnectionsPerHub = x.maxConn
	cfg.MaxConnectionsPerRoom = x.maxRoom
	cfg.MessageQueueSize = []int{4, 64, 256}[rng.Intn(3)]
	cfg.MessageQueueStrategy = []websocket.QueueStrategy{websocket.QueueStrategyDropOldest, websocket.QueueStrategyDropNewest, websocket.QueueStrategyBlock}[round%3]
	cfg.WriteWait = 3 * time.Second
	x.strategy = string(cfg.MessageQueueStrategy)
	x.cfgDesc = fmt.Sprintf("MaxConnectionsPerHub=%d MaxConnectionsPerRoom=%d MessageQueueSize=%d MessageQueueStrategy=%s WriteWait=3s", x.maxConn, x.maxRoom, cfg.MessageQueueSize, cfg.MessageQueueStrategy)
	x.srv = websocket.NewServer(cfg)
	x.hub = x.srv.GetHub()
	// event handlers query the hub the way `ws.get_connection_count()` / `ws.get_rooms()` in an `on connect` or
	// `on disconnect` block do: a handler invoked with a hub lock held would wait for itself
	x.srv.OnConnect(func(c *websocket.Connection) error {
		c.Send([]byte("hello:" + c.ID))
		if x.hub.GetConnectionCount() < 0 {
			return nil
		}
		x.hub.GetConnection(c.ID)
		w.Count("hub_queries_from_connect_handlers", 1)
		return nil
	})
	x.srv.OnDisconnect(func(c *websocket.Connection) error {
		n := x.hub.GetConnectionCount()
		for _, o := range x.hub.GetConnections() {
			_ = o.GetRooms()
		}
		if _, still := x.hub.GetConnection(c.ID); still && n == 0 {
			return nil
		}
		_ = x.hub.GetRoomManager().GetRoomNames()
		_ = c.GetRooms()
		w.Count("hub_queries_from_disconnect_handlers", 1)
		x.disc.Store(c.ID, true) // the hub has finished unregistering c (handlers run last)
		return nil
	})
	// handlers that act from inside the hub loop (this is where compiled `on message` blocks run)
	x.srv.OnMessage(websocket.MessageTypeText, func(ctx *websocket.MessageContext) error {
		// this runs inside the hub loop, like a compiled `on message { ... }` block
		cmd, _ := ctx.Message.Data.(string)
		switch {
		case cmd == "close-me":
			w.Count("close_from_inside_the_hub_loop", 1)
			return ctx.Conn.Close()
		case strings.HasPrefix(cmd, "join:"):
			ctx.Conn.JoinRoom(strings.TrimPrefix(cmd, "join:"))
		case strings.HasPrefix(cmd, "leave:"):
			ctx.Conn.LeaveRoom(strings.TrimPrefix(cmd, "leave:"))
		case cmd == "echo":
			ctx.Conn.Send([]byte("echo"))
		case cmd == "stats":
			// a message handler reading hub and room state (ws.get_connection_count(), ws.get_rooms(), room sizes)
			n := x.hub.GetConnectionCount()
			for _, name := range x.hub.GetRoomManager().GetRoomNames() {
				if rm, ok := x.hub.GetRoomManager().GetRoom(name); ok {
					n += rm.Size()
				}
			}
			w.Count("hub_queries_from_message_handlers", 1)
			ctx.Conn.Send([]byte(fmt.Sprintf("stats:%d", n)))
		}
		return nil
	})
	mux := http.NewServeMux()
	mux.HandleFunc("/ws", x.srv.HandleWebSocket)
	x.ts = httptest.NewServer(mux)
	defer x.ts.Close()
	wit := func(extra map[string]interface{}) map[string]interface{} {
		m := map[string]interface{}{"round": round, "config": x.cfgDesc}
		for k, v := range extra {
			m[k] = v
		}
		return m
	}
	refusedAtStart := 0
	nclients := 2 + rng.Intn(7)
	for i := 0; i < nclients; i++ {
		c, err := x.dial(i)
		if err != nil {
			// a refused connection beyond the hub limit is legal
			w.Count("dial_refused", 1)
			refusedAtStart++
			continue
		}
		x.clients = append(x.clients, c)
	}
	defer func() {
		for _, c := range x.clients {
			c.ws.Close()
		}
		done := make(chan struct{})
		go func() { x.srv.Shutdown(); close(done) }()
		if refusedAtStart > 0 {
			// the write pump of a connection the hub refused only ends at its next heartbeat
			// tick (30 s by default), and Shutdown waits for it: slow, but not a deadlock
			return
		}
		select {
		case <-done:
		case <-time.After(20 * time.Second):
			w.Violate("shutdown-does-not-return", "Server.Shutdown did not return within 20 s after all clients closed", wit(nil))
		}
	}()
	if len(x.clients) > x.maxConn {
		w.Violate("connection-limit-exceeded:accepted", fmt.Sprintf("%d clients completed the handshake with MaxConnectionsPerHub=%d", len(x.clients), x.maxConn), wit(nil))
	}
	if n := x.hub.GetConnectionCount(); n > x.maxConn {
		w.Violate("connection-limit-exceeded:registered", fmt.Sprintf("hub holds %d connections with MaxConnectionsPerHub=%d", n, x.maxConn), wit(nil))
	}
	if len(x.clients) == 0 {
		return
	}
	x.liveN.Store(int64(len(x.clients)))
	rooms := []string{"r1", "r2", "r3"}[:1+rng.Intn(3)]
	rm := x.hub.GetRoomManager()
	for phase := 0; phase < 3; phase++ {
		// join storm: all live clients join the same brand-new room at the same instant
		// (first-join of a room is where the room object is created)
		for k := 0; k < 12; k++ {
			fresh := fmt.Sprintf("fresh-%d-%d", phase, k)
			var storm []*c16Client
			for _, c := range x.clients {
				if c.srv != nil && !c.closed.Load() {
					storm = append(storm, c)
				}
			}
			var sw sync.WaitGroup
			var gate atomic.Bool
			for _, c := range storm {
				sw.Add(1)
				go func(c *c16Client) {
					defer sw.Done()
					for !gate.Load() {
					}
					c.srv.JoinRoom(fresh)
				}(c)
			}
			gate.Store(true)
			sw.Wait()
			x.ops.Add(int64(len(storm)))
			room, exists := rm.GetRoom(fresh)
			members := 0
			for _, c := range storm {
				own := c.srv.IsInRoom(fresh)
				in := exists && room.Has(c.srv)
				if in {
					members++
				}
				if own != in && !c.closed.Load() {
					w.Violate("membership-views-disagree:after-simultaneous-first-join", fmt.Sprintf("%d clients joined the new room %s at once; afterwards client %d has IsInRoom=%v but room.Has=%v", len(storm), fresh, c.idx, own, in), wit(map[string]interface{}{"room": fresh}))
				}
			}
			if members > x.maxRoom {
				w.Violate("room-limit-exceeded", fmt.Sprintf("room %s has %d members with MaxConnectionsPerRoom=%d", fresh, members, x.maxRoom), wit(map[string]interface{}{"room": fresh}))
			}
			for _, c := range storm {
				c.srv.LeaveRoom(fresh)
			}
		}
		// last-leave storm: the only member of a room leaves while another connection joins it
		// (a room object that is dropped when it empties must not swallow the joiner)
		{
			var live []*c16Client
			for _, c := range x.clients {
				if c.srv != nil && !c.closed.Load() {
					live = append(live, c)
				}
			}
			if len(live) >= 2 {
				room := fmt.Sprintf("lastleave-%d", phase)
				a, b := live[phase%len(live)], live[(phase+1)%len(live)]
				var sw sync.WaitGroup
				var stop atomic.Bool
				sw.Add(2)
				go func() { // the member that keeps emptying the room
					defer sw.Done()
					for i := 0; i < 400 && !stop.Load(); i++ {
						a.srv.JoinRoom(room)
						a.srv.LeaveRoom(room)
					}
				}()
				go func() { // the joiner: after its own join returned, the views must agree about it
					defer sw.Done()
					for i := 0; i < 400 && !stop.Load(); i++ {
						b.srv.JoinRoom(room)
						r2, exists := rm.GetRoom(room)
						in := exists && r2.Has(b.srv)
						own := b.srv.IsInRoom(room)
						if own != in {
							// re-read once: a refusal (room full) undoes the join in two steps
							r2, exists = rm.GetRoom(room)
							in = exists && r2.Has(b.srv)
							own = b.srv.IsInRoom(room)
						}
						w.Count("last_leave_vs_join_checks", 1)
						if own != in {
							w.Violate("membership-views-disagree:join-racing-last-leave", fmt.Sprintf("client %d joined room %s while its only other member (client %d) kept joining and leaving; after its JoinRoom returned IsInRoom=%v, room known to the manager=%v, room.Has=%v", b.idx, room, a.idx, own, exists, in), wit(map[string]interface{}{"room": room}))
							stop.Store(true)
							return
						}
						b.srv.LeaveRoom(room)
					}
				}()
				sw.Wait()
				x.ops.Add(1600)
				a.srv.LeaveRoom(room)
				b.srv.LeaveRoom(room)
			}
		}
		// re-join of a full room by one of its members: the room is filled to its limit, every member joins it once
		// more (a client re-sending join_room, a handler calling ws.join twice), a non-member tries too. Whatever the
		// room answers, both views must still agree for everybody. Sequential: no interleaving is needed for this.
		{
			room := fmt.Sprintf("rejoin-%d", phase)
			var in, all []*c16Client
			for _, c := range x.clients {
				if c.srv == nil || c.closed.Load() {
					continue
				}
				all = append(all, c)
				c.srv.JoinRoom(room)
			}
			for _, c := range all {
				c.srv.JoinRoom(room) // members again, refused ones again
				if c.srv.IsInRoom(room) {
					in = append(in, c)
				}
			}
			r3, exists := rm.GetRoom(room)
			for _, c := range all {
				own := c.srv.IsInRoom(room)
				has := exists && r3.Has(c.srv)
				w.Count("rejoin_views_compared", 1)
				if own != has {
					// a connection the hub is dropping right now changes both views one after the other: look again
					time.Sleep(60 * time.Millisecond)
					r3, exists = rm.GetRoom(room)
					own = c.srv.IsInRoom(room)
					has = exists && r3.Has(c.srv)
				}
				if _, registered := x.hub.GetConnection(c.srv.ID); own != has && registered && !c.closed.Load() {
					w.Violate("membership-views-disagree:after-rejoining-a-room", fmt.Sprintf("client %d joined room %s twice (MaxConnectionsPerRoom=%d, %d clients tried): conn.IsInRoom=%v but room.Has(conn)=%v", c.idx, room, x.maxRoom, len(all), own, has), wit(map[string]interface{}{"room": room}))
					break
				}
			}
			for _, c := range all {
				c.srv.LeaveRoom(room)
			}
			_ = in
			x.ops.Add(int64(3 * len(all)))
		}
		// leave-then-send order: a connection brackets each stay in a room with two frames sent to itself, [ before the
		// JoinRoom call and ] after LeaveRoom returned, while another goroutine broadcasts to that room without pause
		// (from outside the hub loop, like an HTTP route does). Frames to one connection keep their order, and a room frame
		// is queued only while the connection is a member, so no room frame may arrive between a ] and the next [.
		{
			var live []*c16Client
			for _, c := range x.clients {
				if c.srv != nil && !c.closed.Load() {
					live = append(live, c)
				}
			}
			if len(live) >= 1 {
				lv := live[(phase+2)%len(live)]
				room := fmt.Sprintf("bracket-%d", phase)
				tag := fmt.Sprintf("bk%d.%d", round, phase)
				var stop atomic.Bool
				var bw sync.WaitGroup
				bw.Add(1)
				go func() {
					defer bw.Done()
					for k := 0; !stop.Load() && k < 200000; k++ {
						rm.BroadcastToRoom(room, []byte(fmt.Sprintf("%s|hb|%d", tag, k)), nil)
					}
				}()
				sound := true // every bracket frame was accepted into the queue
				for j := 0; j < 150 && !lv.closed.Load(); j++ {
					if lv.srv.Send([]byte(fmt.Sprintf("%s|[|%d", tag, j))) != nil {
						sound = false
					}
					lv.srv.JoinRoom(room)
					if j%3 == 0 {
						runtime.Gosched()
					}
					lv.srv.LeaveRoom(room)
					if lv.srv.Send([]byte(fmt.Sprintf("%s|]|%d", tag, j))) != nil {
						sound = false
					}
				}
				stop.Store(true)
				bw.Wait()
				lv.srv.LeaveRoom(room)
				x.ops.Add(450)
				if sound && x.strategy == string(websocket.QueueStrategyBlock) {
					// drop_oldest may evict a bracket frame later and drop_newest discards one silently (Send returns nil): only
					// the block strategy keeps every frame it accepted, in order
					x.brackets = append(x.brackets, c16Bracket{client: lv, tag: tag, room: room})
					w.Count("leave_then_send_order_brackets_judged", 150)
				} else {
					w.Count("leave_then_send_order_brackets_not_judged", 150)
				}
			}
		}
		var wg sync.WaitGroup
		seeds := make([]int64, 8)
		for g := range seeds {
			seeds[g] = rng.Int63()
		}
		w.Watch(fmt.Sprintf("round %d phase %d operations (%s)", round, phase, x.cfgDesc), 40*time.Second, func() {
			for g := 0; g < 8; g++ {
				wg.Add(1)
				go func(g int) {
					defer wg.Done()
					r := rand.New(rand.NewSource(seeds[g]))
					for k := 0; k < 30; k++ {
						c := x.clients[r.Intn(len(x.clients))]
						room := rooms[r.Intn(len(rooms))]
						x.ops.Add(1)
						switch p := r.Intn(100); {
						case p < 22:
							if c.srv != nil && !c.closed.Load() {
								x.mu.Lock()
								x.members = append(x.members, c16Member{client: c.idx, room: room, joinCall: x.now()})
								mi := len(x.members) - 1
								x.mu.Unlock()
								c.srv.JoinRoom(room)
								x.mu.Lock()
								x.members[mi].joinRet = x.now()
								x.mu.Unlock()
							}
						case p < 36:
							if c.srv != nil {
								lcall := x.now()
								c.srv.LeaveRoom(room)
								t := x.now()
								x.mu.Lock()
								for i := range x.members {
									m := &x.members[i]
									// only a join that had returned before this leave started is certainly undone by it
									if m.client == c.idx && m.room == room && m.leaveRet == 0 && m.joinRet != 0 && m.joinRet < lcall {
										m.leaveRet = t
									}
								}
								x.mu.Unlock()
							}
						case p < 52:
							id := fmt.Sprintf("m%d|room=%s|", x.nextMsg.Add(1), room)
							x.mu.Lock()
							x.sends[id] = c16Send{id, room, x.now()}
							x.mu.Unlock()
							if r.Intn(2) == 0 {
								x.hub.BroadcastToRoom(room, []byte(id), nil)
							} else {
								rm.BroadcastToRoom(room, []byte(id), nil)
							}
						case p < 60:
							id := fmt.Sprintf("m%d|room=|", x.nextMsg.Add(1))
							x.mu.Lock()
							x.sends[id] = c16Send{id, "", x.now()}
							x.mu.Unlock()
							x.hub.Broadcast([]byte(id))
						case p < 78:
							if c.srv != nil {
								id := fmt.Sprintf("m%d|direct=%d|", x.nextMsg.Add(1), c.idx)
								c.srv.Send([]byte(id)) // may race with a disconnect of c: must not crash
							}
						case p < 84:
							what := []string{"hi", "echo", "close-me", "leave:" + room, "stats"}[r.Intn(5)]
							if what == "close-me" {
								if !x.mayClose(c) {
									break
								}
							}
							c.wmu.Lock()
							c.ws.WriteMessage(gws.TextMessage, []byte(`{"type":"text","data":"`+what+`"}`))
							c.wmu.Unlock()
						case p < 90:
							if x.mayClose(c) {
								c.ws.Close()
							}
						case p < 94:
							if c.srv != nil && x.mayClose(c) {
								go c.srv.Close() // server-side close (blocks until the hub takes the unregister)
							}
						case p < 96:
							// burst of hub-wide broadcasts: fills send queues, exercises the slow-consumer path
							for b := 0; b < 300; b++ {
								x.hub.Broadcast([]byte("burst"))
							}
						default:
							_ = x.hub.GetConnectionCount()
							_ = rm.GetRoomSize(room)
						}
					}
				}(g)
			}
			wg.Wait()
		})
		x.quiesce(fmt.Sprintf("phase %d", phase))
		time.Sleep(50 * time.Millisecond)
		x.invariants(phase, rooms, wit)
	}
	x.churn(rng, wit)
	if round%3 != 1 {
		x.stalled(rng, wit)
	}
	x.deliveries(wit)
	w.Count("operations", int(x.ops.Load()))
	w.Case(fmt.Sprintf("round-%d", round), x.ops.Load() >= 100)
	if round%50 == 0 {
		w.Sample(map[string]interface{}{"config": x.cfgDesc, "clients": len(x.clients), "rooms": rooms, "operations": x.ops.Load()})
	}
}

// quiesce: a marker broadcast must reach every live client (bounded progress of the hub loop).
func (x *c16World) quiesce(label string) {
	w := x.w
	marker := fmt.Sprintf("marker-%d-%s-%d", x.round, strings.ReplaceAll(label, " ", "_"), x.nextMsg.Add(1))
	var live []*c16Client
	for _, c := range x.clients {
		if !c.closed.Load() {
			live = append(live, c)
		}
	}
	w.Watch(fmt.Sprintf("round %d %s: hub progress (marker broadcast) (%s)", x.round, label, x.cfgDesc), 30*time.Second, func() {
		deadline := time.Now().Add(25 * time.Second)
		for attempt := 0; ; attempt++ {
			x.hub.Broadcast([]byte(marker))
			time.Sleep(30 * time.Millisecond)
			all := true
			for _, c := range live {
				got := false
				c.mu.Lock()
				for _, f := range c.frames {
					if f.msg == marker {
						got = true
					}
				}
				c.mu.Unlock()
				select {
				case <-c.done: // the server dropped it (slow consumer): legal
					got = true
				default:
				}
				if !got {
					all = false
				}
			}
			if all || time.Now().After(deadline) {
				if !all {
					time.Sleep(20 * time.Second) // let the watchdog take its dumps
				}
				return
			}
		}
	})
}

// dialRaw: a client whose frames are not read (a stalled consumer) unless read is set.
func (x *c16World) dialRaw() (*gws.Conn, *websocket.Connection, error) {
	url := "ws" + strings.TrimPrefix(x.ts.URL, "http") + "/ws"
	ws, _, err := gws.DefaultDialer.Dial(url, nil)
	if err != nil {
		return nil, nil, err
	}
	ws.SetReadDeadline(time.Now().Add(5 * time.Second))
	_, first, err := ws.ReadMessage()
	if err != nil || !strings.HasPrefix(string(first), "hello:") {
		ws.Close()
		return nil, nil, fmt.Errorf("no hello frame")
	}
	ws.SetReadDeadline(time.Time{})
	sc, ok := x.hub.GetConnection(strings.TrimPrefix(string(first), "hello:"))
	if !ok {
		ws.Close()
		return nil, nil, fmt.Errorf("connection not registered")
	}
	return ws, sc, nil
}

// churn: a JoinRoom issued from another goroutine races with the disconnect of the same
// connection (client-side close or server-side Close). Whatever the order, once the hub has
// unregistered the connection neither view may list it as a member.
func (x *c16World) churn(rng *rand.Rand, wit func(map[string]interface{}) map[string]interface{}) {
	rm := x.hub.GetRoomManager()
	if x.hub.GetConnectionCount() >= x.maxConn {
		return
	}
	type churned struct {
		sc         *websocket.Connection
		room       string
		serverSide bool
	}
	var pending []churned
	for k := 0; k < 24; k++ {
		ws, sc, err := x.dialRaw()
		if err != nil {
			x.w.Count("churn_dial_refused", 1)
			break
		}
		go func() { // drain, so that the close handshake completes
			for {
				if _, _, err := ws.ReadMessage(); err != nil {
					return
				}
			}
		}()
		room := fmt.Sprintf("churn-%d", k)
		serverSide := rng.Intn(3) == 0
		spin := rng.Intn(4000)
		var wg sync.WaitGroup
		var gate atomic.Bool
		wg.Add(2)
		go func() {
			defer wg.Done()
			for !gate.Load() {
			}
			if serverSide {
				sc.Close()
			} else {
				ws.Close()
			}
		}()
		go func() {
			defer wg.Done()
			for !gate.Load() {
			}
			for i := 0; i < spin; i++ {
				_ = gate.Load()
			}
			sc.JoinRoom(room)
		}()
		gate.Store(true)
		wg.Wait()
		ws.Close()
		// bounded wait until the hub has unregistered the connection *completely*: its disconnect handler (the last
		// step of the unregistration) has run. The registry losing the id is only the first step, and the marker
		// broadcast below proves nothing when no other client is alive to receive it.
		gone := false
		for i := 0; i < 10000; i++ {
			if _, done := x.disc.Load(sc.ID); done {
				gone = true
				break
			}
			time.Sleep(time.Millisecond)
		}
		x.ops.Add(2)
		x.w.Count("churn_join_vs_disconnect_races", 1)
		if !gone {
			// never registered (hub full) or still on its way after 10 s: not judged
			x.w.Count("churn_connections_not_judged", 1)
			continue
		}
		pending = append(pending, churned{sc, room, serverSide})
	}
	// The hub handles its queue in order: once a marker broadcast issued now has been
	// delivered, every unregister above has been handled completely.
	x.quiesce("after churn")
	for _, p := range pending {
		room2, exists := rm.GetRoom(p.room)
		inRoom := exists && room2.Has(p.sc)
		own := p.sc.IsInRoom(p.room)
		x.w.Count("membership_views_compared", 1)
		if inRoom || own {
			which := "connection-view"
			if inRoom {
				which = "room-view"
				x.w.Count("churn_ghost_members", 1)
			}
			x.w.Violate("disconnected-connection-still-in-room:"+which, fmt.Sprintf("a JoinRoom(%s) raced with the disconnect of the same connection (server-side close: %v); after the hub had unregistered it completely, IsInRoom=%v and room.Has=%v (room size %d)", p.room, p.serverSide, own, inRoom, rm.GetRoomSize(p.room)),
				wit(map[string]interface{}{"scenario": "join racing with disconnect", "room": p.room}))
			return
		}
	}
}

// stalled: a consumer that stops reading. A Send from another goroutine fills the queue;
// with the block strategy it waits for room. When the stalled client then disconnects, the
// waiting sender must come back and the hub must keep serving everybody else.
func (x *c16World) stalled(rng *rand.Rand, wit func(map[string]interface{}) map[string]interface{}) {
	if x.hub.GetConnectionCount() >= x.maxConn {
		return
	}
	ws, sc, err := x.dialRaw()
	if err != nil {
		return
	}
	payload := []byte(strings.Repeat("x", 32*1024))
	var lastCall atomic.Int64
	var sent atomic.Int64
	done := make(chan struct{})
	stop := make(chan struct{})
	go func() {
		defer close(done)
		for i := 0; i < 4000; i++ {
			select {
			case <-stop:
				return
			default:
			}
			lastCall.Store(time.Now().UnixNano())
			if err := sc.Send(payload); err != nil {
				return
			}
			lastCall.Store(0)
			sent.Add(1)
		}
	}()
	// wait until a Send has been waiting for 300 ms (block strategy) or the loop ended
	blocked := false
	for i := 0; i < 400; i++ {
		select {
		case <-done:
			i = 400
		default:
		}
		if t := lastCall.Load(); t != 0 && time.Now().UnixNano()-t > int64(300*time.Millisecond) {
			blocked = true
			break
		}
		time.Sleep(10 * time.Millisecond)
	}
	if blocked {
		x.w.Count("stalled_consumer_sender_was_waiting", 1)
	}
	x.w.Count("stalled_consumer_scenarios", 1)
	close(stop)
	ws.Close() // the stalled client goes away
	x.ops.Add(sent.Load())
	x.w.Watch(fmt.Sprintf("round %d: sender waiting on a stalled consumer that disconnected (%s)", x.round, x.cfgDesc), 25*time.Second, func() {
		select {
		case <-done:
		case <-time.After(22 * time.Second):
			time.Sleep(20 * time.Second)
		}
	})
	x.quiesce("after stalled consumer")
}

func (x *c16World) invariants(phase int, rooms []string, wit func(map[string]interface{}) map[string]interface{}) {
	rm := x.hub.GetRoomManager()
	if n := x.hub.GetConnectionCount(); n > x.maxConn {
		x.w.Violate("connection-limit-exceeded:registered", fmt.Sprintf("hub holds %d connections with MaxConnectionsPerHub=%d", n, x.maxConn), wit(nil))
	}
	for _, r := range rooms {
		if n := rm.GetRoomSize(r); n > x.maxRoom {
			x.w.Violate("room-limit-exceeded", fmt.Sprintf("room %s has %d members with MaxConnectionsPerRoom=%d", r, n, x.maxRoom), wit(map[string]interface{}{"room": r, "phase": phase}))
		}
	}
	for _, c := range x.clients {
		if c.srv == nil {
			continue
		}
		_, registered := x.hub.GetConnection(c.id)
		for _, r := range rooms {
			own := c.srv.IsInRoom(r)
			room, exists := rm.GetRoom(r)
			inRoom := exists && room.Has(c.srv)
			x.w.Count("membership_views_compared", 1)
			if c.closed.Load() && !registered {
				if own || inRoom {
					which := "connection-view"
					if inRoom {
						which = "room-view"
					}
					x.w.Violate("disconnected-connection-still-in-room:"+which, fmt.Sprintf("client %d disconnected, yet IsInRoom(%s)=%v and room.Has=%v", c.idx, r, own, inRoom), wit(map[string]interface{}{"phase": phase, "room": r}))
				}
				continue
			}
			if !c.closed.Load() && own != inRoom {
				kind := "connection-says-member-room-says-no"
				if inRoom {
					kind = "room-says-member-connection-says-no"
				}
				x.w.Violate("membership-views-disagree:"+kind, fmt.Sprintf("at quiescence client %d: conn.IsInRoom(%s)=%v but room.Has(conn)=%v", c.idx, r, own, inRoom), wit(map[string]interface{}{"phase": phase, "room": r, "room_size": rm.GetRoomSize(r)}))
			}
		}
	}
}

// deliveries: a room frame may only be received by a client that was a member of that room
// at some instant between the send call and the receipt; nothing is received after the
// client's disconnect was complete (frames are read by the client itself, so this is vacuous
// for closed sockets and checked through the room views above).
func (x *c16World) deliveries(wit func(map[string]interface{}) map[string]interface{}) {
	x.mu.Lock()
	defer x.mu.Unlock()
	for _, bk := range x.brackets {
		bk.client.mu.Lock()
		frames := append([]c16Frame{}, bk.client.frames...)
		bk.client.mu.Unlock()
		outside := true // before the first [ and after every ]
		lastClose := ""
		for _, f := range frames {
			if !strings.HasPrefix(f.msg, bk.tag+"|") {
				continue
			}
			switch {
			case strings.HasPrefix(f.msg, bk.tag+"|[|"):
				outside = false
			case strings.HasPrefix(f.msg, bk.tag+"|]|"):
				outside = true
				lastClose = f.msg
			case outside:
				x.w.Violate("room-frame-queued-after-leave-returned", fmt.Sprintf("client %d received the room frame %s after %q, i.e. it was queued after LeaveRoom(%s) had returned and before the next JoinRoom was called", bk.client.idx, f.msg, lastClose, bk.room), wit(map[string]interface{}{"room": bk.room}))
				return
			}
		}
	}
	for _, c := range x.clients {
		c.mu.Lock()
		frames := append([]c16Frame{}, c.frames...)
		c.mu.Unlock()
		for _, f := range frames {
			s, ok := x.sends[f.msg]
			if !ok {
				if strings.Contains(f.msg, "|direct=") && !strings.Contains(f.msg, fmt.Sprintf("|direct=%d|", c.idx)) {
					x.w.Violate("direct-frame-delivered-to-another-connection", fmt.Sprintf("client %d received %s", c.idx, f.msg), wit(nil))
				}
				continue
			}
			x.w.Count("frames_checked", 1)
			if s.room == "" {
				continue
			}
			member := false
			for _, m := range x.members {
				if m.client != c.idx || m.room != s.room {
					continue
				}
				end := m.leaveRet
				if end == 0 {
					end = 1 << 62
				}
				if m.joinCall <= f.t && end >= s.call {
					member = true
					break
				}
			}
			if !member {
				x.w.Violate("room-frame-delivered-to-non-member", fmt.Sprintf("client %d received %s (sent at %dns, received at %dns) but was not a member of room %s at any time in between", c.idx, f.msg, s.call, f.t, s.room), wit(nil))
				return
			}
		}
	}
}

var c16Hangs atomic.Int64

func checkC16(tier string) {
	r := mon.New("C16", tier, "exploration")
	r.Rule = "rounds of 2-8 real WebSocket clients against websocket.NewServer(cfg) with MaxConnectionsPerHub in {3,5,10000}, MaxConnectionsPerRoom in {1,2,1000}, queue size in {4,64,256}; 3 phases x 8 goroutines x 30 operations (join, leave, hub- and manager-level room broadcast, hub broadcast, direct send, client message, client close, server-side close, reads) on 1-3 rooms; after each phase a marker broadcast establishes quiescence and the invariants are evaluated; distinct = round; non-trivial = >= 100 operations"
	r.Assume("dropped frames are legal (back-pressure), so only wrong deliveries are refuted; membership views are compared only at quiescence; liveness is bounded progress (30-40 s watchdogs with two goroutine dumps)")
	onDeath := func(kind string) func(int, mon.ChildOut, *mon.Rec) bool {
		return func(i int, co mon.ChildOut, hang *mon.Rec) bool {
			if hang != nil {
				site := "unidentified"
				for _, fn := range []string{"websocket.(*Connection).Close", "websocket.(*Hub).Run", "websocket.(*Connection).Send", "websocket.(*Hub).Shutdown", "websocket.(*Room).Broadcast"} {
					if strings.Contains(hang.Stacks[0], fn) && strings.Contains(hang.Stacks[1], fn) {
						site = fn
						break
					}
				}
				r.Violate("no-progress:"+site, "the hub made no progress: "+hang.Desc+"; both goroutine dumps (3 s apart) show a goroutine parked in "+site, map[string]interface{}{"round": i, "stacks": clipN(c16Relevant(hang.Stacks[1]), 3000)})
				// a tree that wedges in most rounds: two witnesses per build are enough, the rest would only burn watchdog time
				return c16Hangs.Add(1) <= 2
			}
			cls := co.Death
			ex := mon.PanicExcerpt(co.Tail, 16)
			if strings.Contains(ex, "send on closed channel") {
				cls = "send-on-closed-channel"
			} else if strings.Contains(ex, "close of closed channel") {
				cls = "close-of-closed-channel"
			} else if strings.Contains(ex, "concurrent map") {
				cls = "concurrent-map-access"
			}
			r.Violate("process-death:"+cls, fmt.Sprintf("round %d (%s build) killed the process: %s", i, kind, clipN(ex, 900)), map[string]interface{}{"round": i})
			return true
		}
	}
	n := r.Pick(96, 3000)
	r.RunBatch(mon.Batch{Worker: "c16", N: n, Chunk: (n + 15) / 16, Parallel: 16, Timeout: 40 * time.Minute, OnDeath: onDeath("plain")})
	if raceBin, err := mon.BuildSelf("vcheck.race", "-race"); err == nil {
		logp := filepath.Join(mon.BuildDir(), "race", "C16")
		os.MkdirAll(filepath.Dir(logp), 0o755)
		old, _ := filepath.Glob(logp + "*")
		for _, f := range old {
			os.Remove(f)
		}
		nr := r.Pick(48, 1000)
		r.RunBatch(mon.Batch{Worker: "c16", Tag: "race", Bin: raceBin, N: nr, Chunk: (nr + 7) / 8, Parallel: 8, Timeout: 40 * time.Minute, OnDeath: onDeath("race"), Env: []string{"GORACE=halt_on_error=0 log_path=" + logp}})
		blocks, total := mon.ParseRaceLogs(logp)
		r.Set("race_reports_total", total)
		r.Set("race_reports_distinct_in_repo", len(blocks))
		for _, b := range blocks {
			r.Violate("race:"+b.Key, "data race in pkg/websocket: "+b.Entry[0]+" vs "+b.Entry[1], map[string]interface{}{"report": clipN(b.Text, 3000)})
		}
	} else {
		r.Inconclusive("race build failed: " + err.Error())
	}
	if r.Counter("membership_views_compared") < 100 {
		r.Inconclusive("too few quiescent membership comparisons")
	}
	r.Floor(20)
	r.Finish()
}

func c16Relevant(stack string) string {
	var out []string
	for _, g := range strings.Split(stack, "\n\n") {
		if strings.Contains(g, "pkg/websocket") {
			out = append(out, g)
		}
	}
	return strings.Join(out, "\n\n")
}

var _ = json.Marshal
