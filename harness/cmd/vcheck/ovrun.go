package main

// Generic parent side for overlay test workers that read JSONL jobs ({"id":n,...}) from
// VERIF_JOBS and write {"ev":"begin","id":n} / {"ev":"result","id":n,...} / {"ev":"done"}
// to VERIF_OUT (the protocol of overlays/cmdglyph_worker_test.go).

import (
	"encoding/json"
	"fmt"
	"os"
	"path/filepath"
	"sync"
	"time"

	"verifharness/mon"
)

type ovJob struct {
	ID  int
	Raw interface{}
}

type ovRes struct {
	Raw   json.RawMessage
	Died  string // classification when the worker process ended while running this job
	Death string
}

type ovOpts struct {
	Bin      string
	TestRun  string // e.g. ^TestVerifDevWorker$
	Tag      string
	Parallel int
	Timeout  time.Duration
	Env      []string
	MemKB    int64
}

func ovRun(r *mon.Run, jobs []ovJob, o ovOpts) map[int]*ovRes {
	if o.Parallel <= 0 {
		o.Parallel = 16
	}
	if o.Timeout == 0 {
		o.Timeout = 20 * time.Minute
	}
	dir := filepath.Join(mon.BuildDir(), "run", r.Prop)
	os.MkdirAll(dir, 0o755)
	tmp := filepath.Join(mon.BuildDir(), "tmp")
	os.MkdirAll(tmp, 0o755)
	res := map[int]*ovRes{}
	var mu sync.Mutex
	chunks := make([][]ovJob, o.Parallel)
	for i, j := range jobs {
		chunks[i%o.Parallel] = append(chunks[i%o.Parallel], j)
	}
	var wg sync.WaitGroup
	for ci, chunk := range chunks {
		if len(chunk) == 0 {
			continue
		}
		wg.Add(1)
		go func(ci int, chunk []ovJob) {
			defer wg.Done()
			rest := chunk
			for attempt := 0; len(rest) > 0 && attempt < 40; attempt++ {
				base := filepath.Join(dir, fmt.Sprintf("%s-%d-%d", o.Tag, ci, attempt))
				jw, err := mon.NewJSONLWriter(base + ".jobs")
				if err != nil {
					return
				}
				for _, j := range rest {
					jw.Write(j.Raw)
				}
				jw.Close()
				os.Remove(base + ".out")
				co := mon.Child{Bin: o.Bin, Args: []string{"-test.run", o.TestRun, "-test.timeout", "0"},
					Env:     append([]string{"VERIF_JOBS=" + base + ".jobs", "VERIF_OUT=" + base + ".out", "VERIF_TMP=" + tmp}, o.Env...),
					Timeout: o.Timeout, MemKB: o.MemKB, Log: base + ".log", Dir: tmp}.Run()
				lastBegin := -1
				doneIDs := map[int]bool{}
				finished := false
				mon.ReadJSONL(base+".out", func(raw []byte) {
					var probe struct {
						Ev string `json:"ev"`
						ID int    `json:"id"`
					}
					if json.Unmarshal(raw, &probe) != nil {
						return
					}
					switch probe.Ev {
					case "begin":
						lastBegin = probe.ID
					case "result":
						cp := append(json.RawMessage(nil), raw...)
						mu.Lock()
						res[probe.ID] = &ovRes{Raw: cp}
						mu.Unlock()
						doneIDs[probe.ID] = true
					case "done":
						finished = true
					}
				})
				if finished {
					os.Remove(base + ".jobs")
					os.Remove(base + ".out")
					os.Remove(base + ".log")
					return
				}
				if lastBegin >= 0 && !doneIDs[lastBegin] {
					mu.Lock()
					res[lastBegin] = &ovRes{Died: co.Death, Death: mon.PanicExcerpt(co.Tail, 16)}
					mu.Unlock()
					doneIDs[lastBegin] = true
				} else if lastBegin < 0 {
					r.Inconclusive(fmt.Sprintf("%s worker ended before its first job (%s): %s", o.Tag, co.Death, mon.PanicExcerpt(co.Tail, 8)))
					return
				}
				var next []ovJob
				for _, j := range rest {
					if !doneIDs[j.ID] {
						next = append(next, j)
					}
				}
				rest = next
			}
		}(ci, chunk)
	}
	wg.Wait()
	return res
}
