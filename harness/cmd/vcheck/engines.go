package main

// Direct (library-level) drivers of the two engines, used by C01/C03/C04/C10/C15.

import (
	"encoding/json"
	"fmt"
	"reflect"

	"github.com/glyphlang/glyph/pkg/ast"
	"github.com/glyphlang/glyph/pkg/compiler"
	"github.com/glyphlang/glyph/pkg/interpreter"
	"github.com/glyphlang/glyph/pkg/parser"
	"github.com/glyphlang/glyph/pkg/vm"

	"verifharness/ref"
)

func parseModule(src string) (mod *ast.Module, err error) {
	defer func() {
		if e := recover(); e != nil {
			err = fmt.Errorf("PANIC in lexer/parser: %v", e)
		}
	}()
	lx := parser.NewLexer(src)
	toks, err := lx.Tokenize()
	if err != nil {
		return nil, err
	}
	return parser.NewParser(toks).Parse()
}

func firstRoute(mod *ast.Module) *ast.Route {
	for _, it := range mod.Items {
		if r, ok := it.(*ast.Route); ok {
			return r
		}
	}
	return nil
}

// canon converts an engine value to its JSON-decoded normal form (what a client sees).
func canon(v interface{}) (interface{}, error) {
	b, err := json.Marshal(v)
	if err != nil {
		return nil, err
	}
	var out interface{}
	if err := json.Unmarshal(b, &out); err != nil {
		return nil, err
	}
	return out, nil
}

type engOut struct {
	Kind   string      `json:"kind"` // value | error | status | panic | unencodable
	Val    interface{} `json:"val,omitempty"`
	Status int         `json:"status,omitempty"`
	Err    string      `json:"err,omitempty"`
}

func sameOutcome(a engOut, r ref.Outcome) bool {
	if r.Kind == "status" && r.Status == 200 {
		r.Kind = "value" // an explicit :: 200 is indistinguishable from a plain return
	}
	if a.Kind == "status" && a.Status == 200 {
		a.Kind = "value"
	}
	if a.Kind == "unencodable" {
		// the value holds a non-finite float (overflow to +Inf, NaN): JSON cannot carry it. The
		// outcomes agree when the reference value cannot be encoded either.
		_, err := canon(r.Val)
		return (r.Kind == "value" || r.Kind == "status") && err != nil
	}
	if a.Kind != r.Kind {
		return false
	}
	switch a.Kind {
	case "error":
		return true
	case "status":
		if a.Status != r.Status {
			return false
		}
	}
	rv, err := canon(r.Val)
	if err != nil {
		return false
	}
	return reflect.DeepEqual(a.Val, rv)
}

func sameEng(a, b engOut) bool {
	if a.Kind != b.Kind {
		return false
	}
	if a.Kind == "error" || a.Kind == "panic" {
		return true
	}
	return a.Status == b.Status && reflect.DeepEqual(a.Val, b.Val)
}

// interpRouteOverride selects a route other than the first one (single-threaded drivers only).
var interpRouteOverride *ast.Route

// runInterp executes the first route of mod on interp (a fresh one when nil).
func runInterp(interp *interpreter.Interpreter, mod *ast.Module, reqPath string) (out engOut) {
	defer func() {
		if e := recover(); e != nil {
			out = engOut{Kind: "panic", Err: fmt.Sprint(e)}
		}
	}()
	if interp == nil {
		interp = interpreter.NewInterpreter()
		if err := interp.LoadModule(*mod); err != nil {
			return engOut{Kind: "error", Err: "load: " + err.Error()}
		}
	}
	rt := firstRoute(mod)
	if interpRouteOverride != nil {
		rt = interpRouteOverride
	}
	resp, err := interp.ExecuteRoute(rt, &interpreter.Request{Path: reqPath, Method: "GET", Headers: map[string]string{}})
	if err != nil {
		return engOut{Kind: "error", Err: err.Error()}
	}
	v, cerr := canon(resp.Body)
	if cerr != nil {
		return engOut{Kind: "unencodable", Err: cerr.Error()}
	}
	if resp.StatusCode != 200 && resp.StatusCode != 0 {
		return engOut{Kind: "status", Val: v, Status: resp.StatusCode}
	}
	return engOut{Kind: "value", Val: v}
}

func newLoadedInterp(mod *ast.Module) (*interpreter.Interpreter, error) {
	interp := interpreter.NewInterpreter()
	if err := interp.LoadModule(*mod); err != nil {
		return nil, err
	}
	return interp, nil
}

// vmValueToGo converts a VM value to plain Go data.
func vmValueToGo(v vm.Value) interface{} {
	switch x := v.(type) {
	case vm.IntValue:
		return x.Val
	case vm.FloatValue:
		return x.Val
	case vm.StringValue:
		return x.Val
	case vm.BoolValue:
		return x.Val
	case vm.NullValue:
		return nil
	case vm.ArrayValue:
		out := make([]interface{}, len(x.Val))
		for i, e := range x.Val {
			out[i] = vmValueToGo(e)
		}
		return out
	case vm.ObjectValue:
		out := map[string]interface{}{}
		for k, e := range x.Val {
			out[k] = vmValueToGo(e)
		}
		return out
	case nil:
		return nil
	}
	return fmt.Sprintf("<%T>", v)
}

// runVM executes bytecode on a fresh VM with the given locals and a step limit.
func runVM(bc []byte, locals map[string]vm.Value, maxSteps int) (out engOut) {
	defer func() {
		if e := recover(); e != nil {
			out = engOut{Kind: "panic", Err: fmt.Sprint(e)}
		}
	}()
	m := vm.NewVM()
	if maxSteps > 0 {
		m.SetMaxSteps(maxSteps)
	}
	for k, v := range locals {
		m.SetLocal(k, v)
	}
	res, err := m.Execute(bc)
	if err != nil {
		return engOut{Kind: "error", Err: err.Error()}
	}
	g := vmValueToGo(res)
	// unwrap the compiler's status marker
	if o, ok := g.(map[string]interface{}); ok {
		if st, ok := o[compiler.StatusKey]; ok {
			if n, ok := st.(int64); ok {
				v, _ := canon(o[compiler.BodyKey])
				return engOut{Kind: "status", Val: v, Status: int(n)}
			}
		}
	}
	v, cerr := canon(g)
	if cerr != nil {
		return engOut{Kind: "unencodable", Err: cerr.Error()}
	}
	return engOut{Kind: "value", Val: v}
}
