package main

// C15 — JIT tiering and caching are invisible.
//
// History monitor: PRNG histories of CompileRoute / RecordExecution / CompileRouteWithTypes /
// RecordDeoptimization / CheckAdaptiveRecompilation / GetUnit / InvalidateCache / ClearCache /
// threshold changes over 3 route names x 3 definitions each. Every bytecode the JIT hands
// out is executed on several bindings of the free variables and must behave like a fresh
// OptNone compilation of the route's *current* definition; each definition carries its own
// marker constant, so stale code is identified directly. Concurrent phases (definitions
// change only at quiescent points) run plain and under the race detector.

import (
	"encoding/json"
	"fmt"
	"math/rand"
	"os"
	"path/filepath"
	"sync"
	"time"

	"github.com/glyphlang/glyph/pkg/ast"
	"github.com/glyphlang/glyph/pkg/compiler"
	"github.com/glyphlang/glyph/pkg/jit"
	"github.com/glyphlang/glyph/pkg/vm"

	"verifharness/gen"
	"verifharness/mon"
)

func init() {
	checks["C15"] = checkC15
	workers["c15"] = c15Worker
}

type c15Def struct {
	prog    *gen.Prog
	pattern string
	src     string
	ptr     bool
	marker  int
	base    []byte
}

func (d *c15Def) route() *ast.Route {
	if d.ptr {
		return c03Route(astStmts(d.prog.Body, astForm{ptr: true}), d.pattern)
	}
	mod, _ := parseModule(d.src)
	return firstRoute(mod)
}

func c15AddMarker(ss []*gen.Stmt, marker int) {
	for _, s := range ss {
		if (s.K == "ret" || s.K == "retst") && s.E != nil && s.E.K == "obj" {
			s.E.Keys = append(s.E.Keys, "definition")
			s.E.A = append(s.E.A, &gen.Expr{K: "int", I: int64(marker)})
		}
		c15AddMarker(s.Body, marker)
		c15AddMarker(s.Else, marker)
		if s.ElseIf != nil {
			c15AddMarker([]*gen.Stmt{s.ElseIf}, marker)
		}
		for _, c := range s.Cases {
			c15AddMarker(c.Body, marker)
		}
	}
}

func c15MakeDef(rng *rand.Rand, marker int) *c15Def {
	for {
		g := gen.New(rng, c03SafeFeatures())
		p := g.Program(1 + rng.Intn(5))
		c15AddMarker(p.Body, marker)
		pattern, _ := p.RoutePath("/t")
		d := &c15Def{prog: p, pattern: pattern, src: p.Source(pattern), marker: marker, ptr: rng.Intn(2) == 0 && buildable(p)}
		mod, err := parseModule(d.src)
		if err != nil || firstRoute(mod) == nil {
			continue
		}
		bc, err := c03Compile(compiler.OptNone, d.route())
		if err != nil {
			continue
		}
		d.base = bc
		return d
	}
}

type c15State struct {
	w       *mon.W
	j       *jit.JITCompiler
	defs    map[string][]*c15Def
	cur     map[string]int
	assigns []c03Assign
	hist    []string
	mu      sync.Mutex
	// hasUnit[name]: CompileRoute was called for name since its last InvalidateCache / ClearCache (sequential histories only)
	hasUnit    map[string]bool
	typedHeavy bool
}

func (s *c15State) log(f string, a ...interface{}) {
	s.mu.Lock()
	s.hist = append(s.hist, fmt.Sprintf(f, a...))
	if len(s.hist) > 400 {
		s.hist = s.hist[len(s.hist)-400:]
	}
	s.mu.Unlock()
}

// verify executes bc and compares it with the baseline of the current definition of name.
func (s *c15State) verify(name, api string, bc []byte, curIdx int) bool {
	d := s.defs[name][curIdx]
	for ai, a := range s.assigns {
		want := runVM(d.base, a, 400000)
		got := runVM(bc, a, 400000)
		if !c03Same(want, got) {
			s.mu.Lock()
			h := append([]string{}, s.hist...)
			s.mu.Unlock()
			sig := "behaviour-differs-from-current-definition:" + api
			if gm, ok := got.Val.(map[string]interface{}); ok {
				if m, ok := gm["definition"].(float64); ok && int(m) != d.marker {
					sig = "stale-definition-served:" + api
				}
			}
			s.w.Violate(sig, fmt.Sprintf("%s(%s) handed out bytecode that gives %s; a fresh baseline compilation of the current definition (#%d) gives %s", api, name, c01Show(got), d.marker, c01Show(want)),
				map[string]interface{}{"route": name, "current_definition_source": d.src, "assignment_index": ai, "free_variables": c03Show(a), "history_tail": h})
			return false
		}
	}
	return true
}

var c15TypeMaps = []map[string]string{
	{"fi": "int"}, {"fi": "int", "fj": "int"}, {"ff": "float"}, {"fs": "string"}, {"fi": "float"}, {"fb": "bool", "fi": "int"}, {}, {"fa": "array"},
}

func (s *c15State) op(rng *rand.Rand, names []string, allowDefine bool) bool {
	name := names[rng.Intn(len(names))]
	cur := s.cur[name]
	d := s.defs[name][cur]
	p := rng.Intn(100)
	if s.typedHeavy && p >= 10 && p < 40 && rng.Intn(100) < 85 {
		p = 60 // typed-heavy histories: routes mostly known to the JIT through their specialisations only
	}
	switch {
	case p < 10 && allowDefine:
		// the definition changes; the caller invalidates the name
		nxt := rng.Intn(len(s.defs[name]))
		s.cur[name] = nxt
		way := rng.Intn(3)
		if s.hasUnit != nil && !s.hasUnit[name] && rng.Intn(2) == 0 {
			way = 3
		}
		if way < 3 && rng.Intn(4) == 0 {
			// an edit that does not compile comes first (the hot-reload flow: broken save, then the corrected one): the
			// name is retired, the broken definition is offered and refused, and the failure must not outlive the
			// invalidation that follows
			if way == 2 {
				s.j.ClearCache()
			} else {
				s.j.InvalidateCache(name)
			}
			broken := &ast.Route{Method: ast.Get, Path: d.route().Path, Body: []ast.Statement{&ast.ReturnStatement{Value: &ast.VariableExpr{Name: "nowhere_defined"}}}}
			_, berr := s.j.CompileRoute(name, broken)
			s.log("define %s := <definition that does not compile> ; CompileRoute err=%v", name, berr)
			if berr != nil {
				s.w.Count("broken_definitions_refused_before_a_redefinition", 1)
			}
		}
		switch way {
		case 0, 1:
			s.j.InvalidateCache(name)
			s.log("define %s := #%d ; InvalidateCache(%s)", name, s.defs[name][nxt].marker, name)
			if s.hasUnit != nil {
				s.hasUnit[name] = false
			}
		case 2:
			s.j.ClearCache()
			s.log("define %s := #%d ; ClearCache()", name, s.defs[name][nxt].marker)
			for n := range s.hasUnit {
				s.hasUnit[n] = false
			}
		default:
			// the route is known only through its specialisations (no CompileRoute since the last invalidation):
			// a deoptimisation is then what retires its code
			s.j.RecordDeoptimization(name, "type guard failed", map[string]string{"fi": "string"})
			s.log("define %s := #%d ; RecordDeoptimization(%s) [no baseline unit]", name, s.defs[name][nxt].marker, name)
			s.w.Count("redefinitions_retired_by_deoptimisation", 1)
		}
	case p < 40:
		if s.hasUnit != nil {
			s.hasUnit[name] = true
		}
		bc, err := s.j.CompileRoute(name, d.route())
		s.log("CompileRoute(%s, #%d) err=%v", name, d.marker, err)
		if err != nil {
			s.w.Violate("jit-rejects-compilable-route:CompileRoute", "CompileRoute failed on a route the compiler accepts: "+err.Error(), map[string]interface{}{"source": d.src})
			return false
		}
		s.w.Count("bytecodes_verified", 1)
		return s.verify(name, "CompileRoute", bc, cur)
	case p < 58:
		k := 1 + rng.Intn(6)
		for i := 0; i < k; i++ {
			s.j.RecordExecution(name, time.Duration(1+rng.Intn(5000))*time.Microsecond)
		}
		s.log("RecordExecution(%s) x%d", name, k)
	case p < 72:
		tm := c15TypeMaps[rng.Intn(len(c15TypeMaps))]
		bc, err := s.j.CompileRouteWithTypes(name, d.route(), tm)
		s.log("CompileRouteWithTypes(%s, #%d, %v) err=%v", name, d.marker, tm, err)
		if err != nil {
			s.w.Violate("jit-rejects-compilable-route:CompileRouteWithTypes", "CompileRouteWithTypes failed: "+err.Error(), map[string]interface{}{"source": d.src})
			return false
		}
		s.w.Count("bytecodes_verified", 1)
		return s.verify(name, "CompileRouteWithTypes", bc, cur)
	case p < 78:
		s.j.RecordDeoptimization(name, "type mismatch", map[string]string{"fi": "string"})
		s.log("RecordDeoptimization(%s)", name)
	case p < 84:
		did, err := s.j.CheckAdaptiveRecompilation(name, d.route())
		s.log("CheckAdaptiveRecompilation(%s, #%d) = %v, %v", name, d.marker, did, err)
	case p < 92:
		if u, ok := s.j.GetUnit(name); ok {
			s.log("GetUnit(%s) tier=%d", name, u.Tier)
			s.w.Mark("tiers_seen", fmt.Sprint(int(u.Tier)))
			s.w.Count("bytecodes_verified", 1)
			return s.verify(name, "GetUnit", u.Bytecode, cur)
		}
	case p < 96:
		t := []int{1, 2, 5}[rng.Intn(3)]
		s.j.SetHotPathThreshold(t)
		s.log("SetHotPathThreshold(%d)", t)
	default:
		s.j.SetRecompileWindow(0)
		s.log("SetRecompileWindow(0)")
	}
	return true
}

type c15Params struct {
	Concurrent bool `json:"concurrent"`
}

func c15Worker(in, out string) {
	w := mon.OpenWorker(in, out)
	var p c15Params
	json.Unmarshal(w.Params, &p)
	for i := w.From; i < w.To; i++ {
		w.Begin(i)
		rng := w.Rand("c15", i)
		s := &c15State{w: w, j: jit.NewJITCompilerWithConfig([]int{1, 2, 5}[rng.Intn(3)], 0), defs: map[string][]*c15Def{}, cur: map[string]int{}}
		names := []string{"alpha", "beta", "gamma"}
		marker := 100
		for _, n := range names {
			for k := 0; k < 3; k++ {
				marker++
				s.defs[n] = append(s.defs[n], c15MakeDef(rng, marker))
			}
		}
		s.assigns = c03Assignments(rng, s.defs["alpha"][0].prog.Free)[:2]
		if !p.Concurrent {
			s.hasUnit = map[string]bool{}
			s.typedHeavy = rng.Intn(3) == 0
			n := 20 + rng.Intn(180)
			for k := 0; k < n; k++ {
				if !s.op(rng, names, true) {
					break
				}
			}
			w.Case(fmt.Sprintf("seq-%d-%d", i, n), n >= 20)
			if i%400 == 0 {
				w.Sample(map[string]interface{}{"history_tail": s.hist[max0(len(s.hist)-12):]})
			}
			continue
		}
		for k := 0; k < 3; k++ {
			c15RedefineDuringTierUp(w, rng, i)
		}
		// concurrent: phases; definitions change only between phases
		for phase := 0; phase < 4; phase++ {
			if phase > 0 {
				for _, n := range names[:2] {
					s.cur[n] = rng.Intn(3)
					s.j.InvalidateCache(n)
					s.log("phase %d: define %s := #%d ; InvalidateCache", phase, n, s.defs[n][s.cur[n]].marker)
				}
			}
			var wg sync.WaitGroup
			for g := 0; g < 8; g++ {
				wg.Add(1)
				gr := rand.New(rand.NewSource(rng.Int63()))
				go func() {
					defer wg.Done()
					for k := 0; k < 25; k++ {
						if !s.op(gr, names[:2], false) {
							return
						}
					}
				}()
			}
			wg.Wait()
		}
		w.Case(fmt.Sprintf("conc-%d", i), true)
	}
	w.Done()
}

// c15RedefineDuringTierUp: a cache hit that decides to promote the route is still inside its
// recompilation (the old definition is large, so that takes a while) when another goroutine
// invalidates the route and compiles its new definition. If that compile returned the new
// code, no sequential order of the three calls leaves old code in the cache (a hit never
// replaces a unit by another definition), so once everything has returned CompileRoute must
// keep handing out the new code.
func c15RedefineDuringTierUp(w *mon.W, rng *rand.Rand, idx int) {
	lit := func(n int64) ast.Expr { return &ast.LiteralExpr{Value: ast.IntLiteral{Value: n}} }
	oldM, newM := int64(1000+rng.Intn(1000)), int64(5000+rng.Intn(1000))
	nst := 600 + rng.Intn(1800)
	body := make([]ast.Statement, 0, nst+1)
	for i := 0; i < nst; i++ {
		body = append(body, &ast.AssignStatement{Target: fmt.Sprintf("v%d", i), Value: &ast.BinaryOpExpr{Op: ast.Add, Left: &ast.BinaryOpExpr{Op: ast.Mul, Left: lit(int64(i)), Right: lit(3)}, Right: lit(1)}})
	}
	body = append(body, &ast.ReturnStatement{Value: lit(oldM)})
	oldRoute := &ast.Route{Method: ast.Get, Path: "/redef", Body: body}
	newRoute := &ast.Route{Method: ast.Get, Path: "/redef", Body: []ast.Statement{&ast.ReturnStatement{Value: lit(newM)}}}
	run := func(bc []byte) string {
		o := runVM(bc, nil, 4000000)
		return c01Show(o)
	}
	const name = "redef"
	thr := []int{4, 10, 20}[rng.Intn(3)]
	j := jit.NewJITCompilerWithConfig(thr, 0)
	if _, err := j.CompileRoute(name, oldRoute); err != nil {
		return
	}
	for i := 0; i < thr/2; i++ {
		j.RecordExecution(name, time.Microsecond)
	}
	hits := j.GetStats().CacheHits
	done := make(chan struct{})
	go func() {
		defer close(done)
		j.CompileRoute(name, oldRoute)
	}()
	reached := false
	for i := 0; i < 200000; i++ {
		if j.GetStats().CacheHits != hits {
			reached = true
			break
		}
		if i%50 == 49 {
			time.Sleep(20 * time.Microsecond)
		}
	}
	for k := rng.Intn(2000); k > 0; k-- { // vary where inside the recompilation the redefinition lands
		_ = j.GetStats()
	}
	j.InvalidateCache(name)
	bc, err := j.CompileRoute(name, newRoute)
	<-done
	w.Count("redefine_during_tier_up_rounds", 1)
	if !reached || err != nil {
		w.Count("redefine_during_tier_up_not_overlapping", 1)
		return
	}
	want := run(func() []byte { b, _ := compiler.NewCompilerWithOptLevel(compiler.OptNone).CompileRoute(newRoute); return b }())
	if run(bc) != want {
		w.Count("redefine_during_tier_up_ambiguous(order: old compile between invalidate and new compile)", 1)
		j.InvalidateCache(name)
		return
	}
	for k := 0; k < 3; k++ {
		b2, err := j.CompileRoute(name, newRoute)
		if err != nil {
			return
		}
		if got := run(b2); got != want {
			w.Violate("stale-after-invalidate:recompilation-in-flight", fmt.Sprintf("a tier-up recompilation of the old definition (answers %d) was in flight while the route was invalidated and its new definition (answers %d) compiled and handed out; afterwards CompileRoute serves %s", oldM, newM, got),
				map[string]interface{}{"old_definition_statements": nst, "hot_threshold": thr, "round": idx, "recompilations": j.GetStats().Recompilations})
			return
		}
	}
}

func max0(n int) int {
	if n < 0 {
		return 0
	}
	return n
}

func checkC15(tier string) {
	r := mon.New("C15", tier, "translation_validation")
	r.Rule = "PRNG histories (20-200 operations) over 3 route names x 3 marked definitions each (generated programs over free variables, parsed or pointer-form ASTs) of CompileRoute / RecordExecution x k / CompileRouteWithTypes (8 type maps, so the 5-entry specialisation eviction happens) / RecordDeoptimization / CheckAdaptiveRecompilation / GetUnit / SetHotPathThreshold {1,2,5} / SetRecompileWindow(0) / definition change followed by InvalidateCache or ClearCache; every handed-out bytecode executed on 2 bindings and compared with the OptNone compilation of the current definition; concurrent variant: 4 phases x 8 goroutines x 25 operations on 2 names, also under the race detector. distinct = history index; non-trivial = >= 20 operations"
	onDeath := func(i int, co mon.ChildOut, hang *mon.Rec) bool {
		r.Violate("worker-died:"+co.Death, mon.PanicExcerpt(co.Tail, 12), map[string]interface{}{"history": i})
		return true
	}
	n := r.Pick(3000, 60000)
	r.RunBatch(mon.Batch{Worker: "c15", N: n, Chunk: (n + 15) / 16, Parallel: 16, Params: c15Params{}, Timeout: 40 * time.Minute, MemKB: 8 << 20, OnDeath: onDeath})
	nc := r.Pick(160, 4000)
	r.RunBatch(mon.Batch{Worker: "c15", Tag: "conc", N: nc, Chunk: (nc + 7) / 8, Parallel: 8, Params: c15Params{Concurrent: true}, Timeout: 40 * time.Minute, MemKB: 8 << 20, OnDeath: onDeath})
	if raceBin, err := mon.BuildSelf("vcheck.race", "-race"); err == nil {
		logp := filepath.Join(mon.BuildDir(), "race", "C15")
		os.MkdirAll(filepath.Dir(logp), 0o755)
		old, _ := filepath.Glob(logp + "*")
		for _, f := range old {
			os.Remove(f)
		}
		nr := r.Pick(48, 1500)
		r.RunBatch(mon.Batch{Worker: "c15", Tag: "race", Bin: raceBin, N: nr, Chunk: (nr + 7) / 8, Parallel: 8, Params: c15Params{Concurrent: true}, Timeout: 40 * time.Minute, OnDeath: onDeath, Env: []string{"GORACE=halt_on_error=0 log_path=" + logp}})
		blocks, total := mon.ParseRaceLogs(logp)
		r.Set("race_reports_total", total)
		r.Set("race_reports_distinct_in_repo", len(blocks))
		for _, b := range blocks {
			r.Violate("race:"+b.Key, "data race in the JIT: "+b.Entry[0]+" vs "+b.Entry[1], map[string]interface{}{"report": clipN(b.Text, 3000)})
		}
	} else {
		r.Inconclusive("race build failed: " + err.Error())
	}
	if r.Counter("bytecodes_verified") < 1000 {
		r.Inconclusive("fewer than 1000 handed-out bytecodes were executed")
	}
	r.Floor(200)
	r.Finish()
}

var _ vm.Value
