package main

// C03 — Optimisation never changes behaviour.
//
// Differential monitor VM-vs-VM: the bytecode compiled at OptBasic / OptAggressive and at
// every JIT tier must behave like the OptNone compilation of the same AST, for several
// assignments of runtime values to the free variables. ASTs come from the parser (value
// form) and are built through the library API in value, pointer and mixed form.

import (
	"encoding/json"
	"fmt"
	"math"
	"math/rand"
	"os"
	"strings"
	"time"

	"github.com/glyphlang/glyph/pkg/ast"
	"github.com/glyphlang/glyph/pkg/compiler"
	"github.com/glyphlang/glyph/pkg/jit"
	"github.com/glyphlang/glyph/pkg/vm"

	"verifharness/gen"
	"verifharness/mon"
)

func init() {
	checks["C03"] = checkC03
	workers["c03"] = c03Worker
}

// c03SafeFeatures keeps out the shapes behind the recorded optimizer findings (algebraic
// identities, self operands, reassignment feeding propagation/CSE/LICM, status returns),
// so that any disagreement on a pointer-form AST built from it is a new defect.
func c03SafeFeatures() gen.Features {
	f := c03Features()
	f.NoAssign, f.NoLitIdentity, f.NoSelfOp = true, true, true
	f.StatusReturn = false
	return f
}

func c03Features() gen.Features {
	f := c02Core()
	f.Match = false
	f.FreeVars = true
	f.LogicRhsMayFail = true // VM-vs-VM: both sides evaluate both operands; folding must not change that
	f.EqIntFloat = true
	f.SwapTwin = true
	f.StrOrder = true
	f.IllTyped = 6
	return f
}

type c03Assign map[string]vm.Value

func c03Val(rng *rand.Rand, kind string) vm.Value {
	switch kind {
	case "int":
		return vm.IntValue{Val: []int64{0, 1, -1, 2, 7, -13, 100, math.MaxInt64, math.MinInt64}[rng.Intn(9)]}
	case "float":
		return vm.FloatValue{Val: []float64{0, 1, -1, 0.5, 2.25, -7.75, math.Inf(1), math.NaN(), math.Copysign(0, -1)}[rng.Intn(9)]}
	case "str":
		return vm.StringValue{Val: []string{"", "a", "ab", "Hello", "0", "naïve"}[rng.Intn(6)]}
	case "bool":
		return vm.BoolValue{Val: rng.Intn(2) == 0}
	case "arr":
		n := rng.Intn(4)
		a := vm.ArrayValue{}
		for i := 0; i < n; i++ {
			a.Val = append(a.Val, vm.IntValue{Val: int64(rng.Intn(9) - 3)})
		}
		return a
	case "obj":
		return vm.ObjectValue{Val: map[string]vm.Value{"a": vm.IntValue{Val: int64(rng.Intn(9))}, "s": vm.StringValue{Val: "s"}}}
	}
	return vm.NullValue{}
}

// c03Assignments: one well-typed assignment, one at the extremes, one with shapes
// swapped (so that folded expressions like x*0 meet non-numbers).
func c03Assignments(rng *rand.Rand, free []string) []c03Assign {
	kindOf := map[string]string{"fi": "int", "fj": "int", "ff": "float", "fs": "str", "fb": "bool", "fa": "arr", "fo": "obj"}
	var out []c03Assign
	for k := 0; k < 3; k++ {
		a := c03Assign{}
		for _, f := range free {
			kind := kindOf[f]
			if k == 2 && rng.Intn(2) == 0 {
				kind = []string{"int", "float", "str", "bool", "arr", "obj", "null"}[rng.Intn(7)]
			}
			a[f] = c03Val(rng, kind)
		}
		out = append(out, a)
	}
	return out
}

func c03Route(body []ast.Statement, path string) *ast.Route {
	return &ast.Route{Path: path, Method: ast.Get, Body: body}
}

func c03Compile(level compiler.OptimizationLevel, rt *ast.Route) (bc []byte, err error) {
	defer func() {
		if e := recover(); e != nil {
			err = fmt.Errorf("PANIC in compiler: %v", e)
		}
	}()
	return compiler.NewCompilerWithOptLevel(level).CompileRoute(rt)
}

func c03Show(v c03Assign) map[string]interface{} {
	o := map[string]interface{}{}
	for k, x := range v {
		o[k] = fmt.Sprintf("%T %v", x, vmValueToGo(x))
	}
	return o
}

// c03Check compiles mk() at each level (a fresh AST each time) and compares behaviour.
func c03Check(w *mon.W, label, form, src string, pattern string, free []string, mk func() []ast.Statement, rng *rand.Rand, sigExtra string) {
	base, err0 := c03Compile(compiler.OptNone, c03Route(mk(), pattern))
	assigns := c03Assignments(rng, free)
	wit := func(extra map[string]interface{}) map[string]interface{} {
		m := map[string]interface{}{"family": label, "ast_form": form, "source": src}
		for k, v := range extra {
			m[k] = v
		}
		return m
	}
	type lv struct {
		name string
		bc   []byte
		err  error
	}
	var lvls []lv
	for _, l := range []struct {
		n string
		l compiler.OptimizationLevel
	}{{"O1-basic", compiler.OptBasic}, {"O3-aggressive", compiler.OptAggressive}} {
		bc, err := c03Compile(l.l, c03Route(mk(), pattern))
		lvls = append(lvls, lv{l.n, bc, err})
	}
	// JIT tiers
	func() {
		defer func() {
			if e := recover(); e != nil {
				w.Violate("jit-panic:"+form, fmt.Sprintf("the JIT panicked: %v", e), wit(nil))
			}
		}()
		j := jit.NewJITCompilerWithConfig(2, 0)
		rt := c03Route(mk(), pattern)
		for round := 0; round < 4; round++ {
			bc, err := j.CompileRoute("r", rt)
			tier := "?"
			if u, ok := j.GetUnit("r"); ok {
				tier = fmt.Sprint(int(u.Tier))
			}
			lvls = append(lvls, lv{"jit-round" + fmt.Sprint(round) + "-tier" + tier, bc, err})
			w.Mark("jit_tiers", tier)
			for k := 0; k < 3; k++ {
				j.RecordExecution("r", time.Microsecond)
			}
		}
	}()
	for _, l := range lvls {
		if (err0 != nil) != (l.err != nil) {
			if err0 != nil && strings.Contains(err0.Error(), "PANIC") || l.err != nil && strings.Contains(l.err.Error(), "PANIC") {
				w.Violate("compiler-panic:"+l.name+":"+form, fmt.Sprintf("compiler panic: O0=%v %s=%v", err0, l.name, l.err), wit(nil))
			} else {
				w.Violate("accept-reject-asymmetry:"+l.name+":"+form+sigExtra, fmt.Sprintf(label+": "+"O0 compile error=%v but %s compile error=%v", err0, l.name, l.err), wit(nil))
			}
			return
		}
	}
	if err0 != nil {
		w.Count("discarded_compile_rejected_at_every_level", 1)
		return
	}
	for ai, a := range assigns {
		ref := runVM(base, a, 400000)
		w.Count("baseline_"+ref.Kind, 1)
		for _, l := range lvls {
			got := runVM(l.bc, a, 400000)
			if !c03Same(ref, got) {
				sig := fmt.Sprintf("behaviour-differs:%s:%s:O0=%s,opt=%s%s", strings.SplitN(l.name, "-round", 2)[0], form, ref.Kind, got.Kind, sigExtra)
				w.Violate(sig, fmt.Sprintf("%s (%s AST): O0 gives %s, %s gives %s", label, form, c01Show(ref), l.name, c01Show(got)),
					wit(map[string]interface{}{"level": l.name, "free_variables": c03Show(a), "assignment_index": ai, "O0": ref, "optimised": got}))
				return
			}
		}
	}
}

func c03Same(a, b engOut) bool {
	if a.Kind != b.Kind {
		return false
	}
	if a.Kind == "error" || a.Kind == "panic" || a.Kind == "unencodable" {
		return true
	}
	if a.Status != b.Status {
		return false
	}
	ja, _ := json.Marshal(a.Val)
	jb, _ := json.Marshal(b.Val)
	return string(ja) == string(jb)
}

// directed pointer-form families: one per optimizer rewrite
func c03Directed() []struct {
	name string
	p    *gen.Prog
} {
	I := func(n int64) *gen.Expr { return &gen.Expr{K: "int", I: n} }
	B := func(b bool) *gen.Expr { return &gen.Expr{K: "bool", B: b} }
	F := func(f float64) *gen.Expr { return &gen.Expr{K: "float", F: f} }
	S := func(s string) *gen.Expr { return &gen.Expr{K: "str", S: s} }
	V := func(n string) *gen.Expr { return &gen.Expr{K: "var", S: n} }
	bin := func(op string, a, b *gen.Expr) *gen.Expr { return &gen.Expr{K: "bin", Op: op, A: []*gen.Expr{a, b}} }
	ret := func(e *gen.Expr) *gen.Stmt { return &gen.Stmt{K: "ret", E: e} }
	decl := func(n string, e *gen.Expr) *gen.Stmt { return &gen.Stmt{K: "decl", Name: n, E: e} }
	asg := func(n string, e *gen.Expr) *gen.Stmt { return &gen.Stmt{K: "assign", Name: n, E: e} }
	iff := func(c *gen.Expr, body ...*gen.Stmt) *gen.Stmt { return &gen.Stmt{K: "if", E: c, Body: body} }
	free := []string{"fi", "ff", "fs", "fb", "fa", "fo", "fj"}
	mk := func(name string, ss ...*gen.Stmt) struct {
		name string
		p    *gen.Prog
	} {
		return struct {
			name string
			p    *gen.Prog
		}{name, &gen.Prog{Free: free, Body: ss}}
	}
	out := []struct {
		name string
		p    *gen.Prog
	}{
		mk("const-prop-across-branch", decl("x", I(1)), iff(V("fb"), asg("x", I(2))), ret(V("x"))),
		mk("const-prop-across-else", decl("x", I(1)), &gen.Stmt{K: "if", E: V("fb"), Body: []*gen.Stmt{decl("t", I(0))}, Else: []*gen.Stmt{asg("x", I(5))}}, ret(bin("+", V("x"), I(1)))),
		mk("copy-prop-then-overwrite-source", decl("a", V("fi")), decl("b", V("a")), asg("a", I(99)), ret(bin("+", V("b"), V("a")))),
		mk("copy-prop-reassign-then-overwrite-source", asg("fi", V("fj")), asg("fj", I(8)), ret(V("fi"))),
		mk("loop-body-always-returns-zero-trip-for", &gen.Stmt{K: "for", Name: "it", E: V("fa"), Body: []*gen.Stmt{ret(V("it"))}}, ret(I(7))),
		mk("loop-body-always-returns-zero-trip-while", decl("n", I(3)), &gen.Stmt{K: "while", Name: "w", E: bin("<", V("fi"), I(0)), Body: []*gen.Stmt{asg("w", bin("+", V("w"), I(1))), ret(V("n"))}}, ret(bin("+", V("n"), I(4)))),
		mk("if-both-branches-return-then-code", &gen.Stmt{K: "if", E: V("fb"), Body: []*gen.Stmt{ret(I(5))}, Else: []*gen.Stmt{ret(I(6))}}, ret(I(9))),
		mk("reassign-const-then-loop-mutation", asg("fi", I(10)), &gen.Stmt{K: "while", Name: "w", E: bin(">", V("fi"), I(7)), Body: []*gen.Stmt{asg("w", bin("+", V("w"), I(1))), asg("fi", bin("-", V("fi"), I(1)))}}, asg("fj", bin("+", V("fi"), I(1))), ret(V("fj"))),
		mk("const-prop-across-branch-reassign", asg("fi", I(100)), iff(V("fb"), asg("fi", I(4))), asg("fj", bin("+", V("fi"), I(1))), ret(V("fj"))),
		mk("fold-mixed-eq-literals", ret(bin("==", I(5), F(5)))),
		mk("fold-mixed-ne-literals", ret(bin("!=", F(2), I(2)))),
		mk("fold-mixed-eq-unequal", ret(bin("==", F(3), I(4)))),
		mk("fold-mixed-order", ret(bin("<", I(5), F(5.5)))),
		mk("fold-mixed-le", ret(bin("<=", F(5), I(5)))),
		mk("fold-mixed-add", ret(bin("+", I(1), F(2.5)))),
		mk("fold-mixed-div", ret(bin("/", I(7), F(2)))),
		mk("fold-mixed-eq-in-condition", &gen.Stmt{K: "if", E: bin("==", I(6), F(6)), Body: []*gen.Stmt{ret(S("same"))}, Else: []*gen.Stmt{ret(S("different"))}}),
		mk("fold-mixed-eq-through-constant", decl("n", bin("/", I(10), I(2))), &gen.Stmt{K: "if", E: bin("==", V("n"), F(5)), Body: []*gen.Stmt{ret(S("same"))}, Else: []*gen.Stmt{ret(S("different"))}}),
		mk("fold-mixed-ne-through-constants", decl("n", I(4)), decl("h", F(4)), &gen.Stmt{K: "if", E: bin("!=", V("h"), V("n")), Body: []*gen.Stmt{ret(S("differ"))}}, ret(S("same"))),
		mk("fold-float-mod-zero", ret(bin("%", F(7.5), F(0)))),
		mk("fold-float-div-zero", ret(bin("/", F(7.5), F(0)))),
		mk("fold-int-mod-zero", ret(bin("%", I(7), I(0)))),
		mk("fold-int-div-zero", ret(bin("/", I(7), I(0)))),
		mk("fold-mixed-mod-zero", ret(bin("%", I(7), F(0)))),
		mk("fold-float-mod-zero-through-constant", decl("z", F(0)), decl("q", bin("%", F(7.5), V("z"))), ret(V("q"))),
		mk("fold-float-mod-computed-zero", ret(bin("%", F(7.5), bin("-", F(2.5), F(2.5))))),
		mk("fold-int-div-zero-in-dead-branch", iff(B(false), ret(bin("/", I(7), I(0)))), ret(I(3))),
		mk("fold-zero-divisor-behind-short-circuit", ret(bin("||", bin("<", V("fi"), I(1000000)), bin("==", bin("%", I(7), I(0)), I(1))))),
		mk("cse-swapped-concat-strings", decl("p", bin("+", V("fs"), S("cd"))), decl("q", bin("+", S("cd"), V("fs"))), ret(&gen.Expr{K: "arr", A: []*gen.Expr{V("p"), V("q")}})),
		mk("cse-swapped-concat-locals", decl("a", S("ab")), decl("b", V("fs")), decl("p", bin("+", V("a"), V("b"))), decl("q", bin("+", V("b"), V("a"))), ret(&gen.Expr{K: "arr", A: []*gen.Expr{V("p"), V("q")}})),
		mk("cse-swapped-concat-arrays", decl("p", bin("+", V("fa"), &gen.Expr{K: "arr", A: []*gen.Expr{I(7)}})), decl("q", bin("+", &gen.Expr{K: "arr", A: []*gen.Expr{I(7)}}, V("fa"))), ret(&gen.Expr{K: "arr", A: []*gen.Expr{V("p"), V("q")}})),
		mk("cse-swapped-noncommutative", decl("p", bin("-", V("fi"), V("fj"))), decl("q", bin("-", V("fj"), V("fi"))), decl("r", bin("<", V("fi"), V("fj"))), decl("s", bin("<", V("fj"), V("fi"))), ret(&gen.Expr{K: "arr", A: []*gen.Expr{V("p"), V("q"), V("r"), V("s")}})),
		mk("cse-swapped-reassign", decl("p", S("")), decl("q", S("")), asg("p", bin("+", V("fs"), S("-"))), asg("q", bin("+", S("-"), V("fs"))), ret(bin("+", V("p"), V("q")))),
		mk("cse-after-reassignment", decl("a", V("fi")), decl("p", bin("*", V("a"), V("fj"))), asg("a", I(3)), decl("q", bin("*", V("a"), V("fj"))), ret(bin("-", V("p"), V("q")))),
		mk("licm-zero-trip-loop", decl("s", I(0)), &gen.Stmt{K: "for", Name: "it", E: V("fa"), Body: []*gen.Stmt{asg("s", bin("/", I(10), V("fi")))}}, ret(V("s"))),
		mk("licm-while-false", decl("s", I(0)), &gen.Stmt{K: "while", Name: "w", E: bin("<", V("w"), V("fi")), Body: []*gen.Stmt{asg("w", bin("+", V("w"), I(1))), asg("s", bin("%", I(7), V("fj")))}}, ret(V("s"))),
		mk("status-survives", &gen.Stmt{K: "retst", E: bin("+", I(1), I(2)), Status: 201}),
		mk("status-survives-in-branch", iff(V("fb"), &gen.Stmt{K: "retst", E: V("fi"), Status: 404}), &gen.Stmt{K: "retst", E: V("fj"), Status: 202}),
		mk("dead-code-after-return", decl("x", V("fi")), ret(V("x")), asg("x", I(0)), ret(I(7))),
		mk("const-branch-with-decl", iff(B(true), decl("t", V("fi")), ret(V("t"))), ret(I(0))),
		mk("const-false-branch", iff(B(false), ret(I(1))), ret(V("fi"))),
		mk("while-flag-cleared-in-body", decl("more", B(true)), decl("n", I(0)), &gen.Stmt{K: "while", Name: "w", E: bin("&&", V("more"), bin("<", V("w"), I(9))), Body: []*gen.Stmt{asg("w", bin("+", V("w"), I(5))), asg("n", bin("+", V("n"), I(5))), asg("more", B(false))}}, ret(V("n"))),
		mk("while-cursor-copied-in-body", decl("cur", I(5)), decl("nxt", I(1000)), decl("n", I(0)), &gen.Stmt{K: "while", Name: "w", E: bin("<", V("cur"), I(100)), Body: []*gen.Stmt{asg("w", bin("+", V("w"), I(5))), asg("nxt", bin("*", V("cur"), I(3))), asg("n", bin("+", V("n"), I(5))), asg("cur", V("nxt"))}}, ret(V("n"))),
		mk("while-limit-from-variable", decl("lim", V("fi")), decl("n", I(0)), &gen.Stmt{K: "while", Name: "w", E: bin("<", V("w"), I(4)), Body: []*gen.Stmt{asg("w", bin("+", V("w"), I(5))), asg("n", bin("+", V("n"), V("lim")))}}, ret(V("n"))),
		mk("for-accumulate", decl("s", I(5)), &gen.Stmt{K: "for", Name: "it", E: &gen.Expr{K: "arr", A: []*gen.Expr{I(5), I(6), I(7)}}, Body: []*gen.Stmt{asg("s", bin("+", V("s"), V("it")))}}, ret(V("s"))),
		mk("for-last-wins", decl("s", I(5)), &gen.Stmt{K: "for", Name: "it", E: &gen.Expr{K: "arr", A: []*gen.Expr{I(5), I(6), I(7)}}, Body: []*gen.Stmt{asg("s", V("it"))}}, ret(V("s"))),
		mk("reassign-then-read", decl("a", I(5)), asg("a", bin("+", V("a"), V("fi"))), decl("b", V("a")), asg("a", I(7)), ret(bin("+", bin("*", V("b"), I(10)), V("a")))),
		mk("switch-assign", decl("s", I(5)), &gen.Stmt{K: "switch", E: V("fi"), Cases: []gen.Case{{Val: I(7), Body: []*gen.Stmt{asg("s", I(70))}}, {Body: []*gen.Stmt{asg("s", I(90))}}}}, ret(V("s"))),
	}
	// algebraic identities on every free variable shape
	for _, v := range free {
		for _, e := range []struct {
			n string
			x *gen.Expr
		}{
			{"mul-zero", bin("*", V(v), I(0))}, {"zero-mul", bin("*", I(0), V(v))}, {"add-zero", bin("+", V(v), I(0))}, {"zero-add", bin("+", I(0), V(v))},
			{"sub-zero", bin("-", V(v), I(0))}, {"div-one", bin("/", V(v), I(1))}, {"mul-one", bin("*", V(v), I(1))}, {"mul-two", bin("*", V(v), I(2))},
			{"sub-self", bin("-", V(v), V(v))}, {"div-self", bin("/", V(v), V(v))}, {"eq-self", bin("==", V(v), V(v))}, {"mod-one", bin("%", V(v), I(1))},
			{"false-and", bin("&&", B(false), V(v))}, {"true-or", bin("||", B(true), V(v))}, {"and-false", bin("&&", V(v), B(false))}, {"or-true", bin("||", V(v), B(true))},
			{"and-true", bin("&&", V(v), B(true))}, {"not-not", &gen.Expr{K: "un", Op: "!", A: []*gen.Expr{{K: "un", Op: "!", A: []*gen.Expr{V(v)}}}}},
			{"neg-neg", &gen.Expr{K: "un", Op: "-", A: []*gen.Expr{{K: "un", Op: "-", A: []*gen.Expr{V(v)}}}}},
		} {
			out = append(out, mk("identity-"+e.n+"-"+v, ret(e.x)))
		}
	}
	return out
}

type c03Params struct {
	Directed bool `json:"directed"`
}

func c03Worker(in, out string) {
	w := mon.OpenWorker(in, out)
	var p c03Params
	json.Unmarshal(w.Params, &p)
	dirs := c03Directed()
	for i := w.From; i < w.To; i++ {
		w.Begin(i)
		rng := w.Rand("c03", i)
		var prog *gen.Prog
		label := "random"
		sigExtra := ""
		if p.Directed {
			prog, label = dirs[i].p, "directed:"+dirs[i].name
			sigExtra = ":" + dirs[i].name
			if strings.HasPrefix(dirs[i].name, "identity-") {
				sigExtra = ":" + dirs[i].name[:strings.LastIndex(dirs[i].name, "-")] // drop the variable name
			}
		} else if i%2 == 0 {
			g := gen.New(rng, c03SafeFeatures())
			prog = g.Program(2 + rng.Intn(7))
			label = "random-safe-profile"
		} else {
			g := gen.New(rng, c03Features())
			prog = g.Program(2 + rng.Intn(7))
			label = "random-full-profile"
			sigExtra = ":full-profile:triggers=" + c03Triggers(prog)
		}
		pattern, _ := prog.RoutePath("/t")
		src := prog.Source(pattern)
		nodes, _ := prog.Size()
		if os.Getenv("VERIF_PRINT_SRC") != "" {
			fmt.Fprintln(os.Stderr, src)
		}
		w.Case(mon.Hash(src), nodes >= 8 || p.Directed)
		// (1) parser form
		if mod, err := parseModule(src); err == nil {
			if rt := firstRoute(mod); rt != nil {
				c03Check(w, label, "parsed", src, pattern, prog.Free, func() []ast.Statement {
					m2, _ := parseModule(src)
					return firstRoute(m2).Body
				}, rng, sigExtra)
			}
		} else if !p.Directed {
			w.Count("parse_rejected", 1)
		}
		// (2) library-built forms
		if buildable(prog) {
			c03Check(w, label, "value", src, pattern, prog.Free, func() []ast.Statement { return astStmts(prog.Body, astForm{}) }, rng, sigExtra)
			c03Check(w, label, "pointer", src, pattern, prog.Free, func() []ast.Statement { return astStmts(prog.Body, astForm{ptr: true}) }, rng, sigExtra)
			mseed := rng.Int63()
			c03Check(w, label, "mixed", src, pattern, prog.Free, func() []ast.Statement {
				return astStmts(prog.Body, astForm{mix: rand.New(rand.NewSource(mseed))})
			}, rng, sigExtra)
		}
		if i%2000 == 3 {
			w.Sample(map[string]interface{}{"source": src, "free": prog.Free})
		}
	}
	w.Done()
}

func checkC03(tier string) {
	r := mon.New("C03", tier, "translation_validation")
	r.Rule = "G-prog programs over free variables fi ff fs fb fa fo fj (bound at run time to 3 assignments: well-typed, extreme values incl. NaN/Inf/-0/MinInt64, shape-swapped) compiled from 4 AST forms (parsed, value-built, pointer-built, mixed) at OptNone vs OptBasic vs OptAggressive vs 4 JIT rounds (thresholds forcing every tier); directed pointer-form families per optimizer rewrite (propagation across branches, copy then overwrite, CSE after reassignment, LICM out of zero-trip loops, status survival, dead code, 19 algebraic identities x 7 variable shapes). distinct = source hash; non-trivial = >= 8 AST nodes or directed"
	r.Assume("comparison is VM-vs-VM on fresh VMs with a 400000-step limit; error messages are not compared, only value / error / status")
	onDeath := func(i int, co mon.ChildOut, hang *mon.Rec) bool {
		r.Violate("worker-died:"+co.Death, "compiler/VM killed the worker: "+mon.PanicExcerpt(co.Tail, 10), map[string]interface{}{"case": i})
		return true
	}
	nd := len(c03Directed())
	r.Set("directed_programs", nd)
	r.RunBatch(mon.Batch{Worker: "c03", Tag: "directed", N: nd, Chunk: (nd + 7) / 8, Parallel: 8, Params: c03Params{Directed: true}, Timeout: 20 * time.Minute, OnDeath: onDeath})
	n := r.Pick(12000, 400000)
	r.RunBatch(mon.Batch{Worker: "c03", N: n, Chunk: (n + 15) / 16, Parallel: 16, Params: c03Params{}, Timeout: 60 * time.Minute, MemKB: 8 << 20, OnDeath: onDeath})
	r.Floor(500)
	r.Finish()
}

// c03Triggers names the shapes of the recorded optimizer findings that occur in p:
// "identity" (an operator with a constant operand next to a non-constant one, x op x, or a
// doubled unary), "status" (a status return), "branch-assign" (a reassignment inside an
// if/else/switch body), "copy-overwrite" (a variable copied from another one that the program
// also reassigns). A full-profile program that fails without any of them is a new defect.
func c03Triggers(p *gen.Prog) string {
	t := map[string]bool{}
	var isConst func(e *gen.Expr) bool
	isConst = func(e *gen.Expr) bool {
		switch e.K {
		case "int", "float", "str", "bool", "null":
			return true
		case "un", "bin":
			for _, a := range e.A {
				if !isConst(a) {
					return false
				}
			}
			return true
		}
		return false
	}
	var we func(e *gen.Expr)
	we = func(e *gen.Expr) {
		if e == nil {
			return
		}
		if e.K == "bin" {
			if isConst(e.A[0]) != isConst(e.A[1]) || gen.PrintExpr(e.A[0]) == gen.PrintExpr(e.A[1]) {
				t["identity"] = true
			}
		}
		if e.K == "un" && len(e.A) == 1 && e.A[0].K == "un" {
			t["identity"] = true
		}
		for _, a := range e.A {
			we(a)
		}
	}
	// "copy-overwrite": x = y (a bare variable copied) in a program that also assigns y
	assigned := map[string]bool{}
	var copies []string
	var wc func(ss []*gen.Stmt)
	wc = func(ss []*gen.Stmt) {
		for _, s := range ss {
			if s.K == "assign" || s.K == "decl" {
				if s.K == "assign" {
					assigned[s.Name] = true
				}
				if s.E != nil && s.E.K == "var" {
					copies = append(copies, s.E.S)
				}
			}
			wc(s.Body)
			wc(s.Else)
			if s.ElseIf != nil {
				wc([]*gen.Stmt{s.ElseIf})
			}
			for _, c := range s.Cases {
				wc(c.Body)
			}
		}
	}
	wc(p.Body)
	for _, src := range copies {
		if assigned[src] {
			t["copy-overwrite"] = true
		}
	}
	counters := map[string]bool{}
	inLoop := 0
	var ws func(ss []*gen.Stmt, inBranch bool)
	ws = func(ss []*gen.Stmt, inBranch bool) {
		for _, s := range ss {
			we(s.E)
			switch s.K {
			case "retst":
				t["status"] = true
			case "assign":
				if inBranch {
					t["branch-assign"] = true
				}
				if inLoop > 0 && !counters[s.Name] {
					t["loop-assign"] = true
				}
			case "while", "for", "fori":
				if s.K == "while" {
					counters[s.Name] = true
				}
				inLoop++
				ws(s.Body, inBranch)
				inLoop--
				continue
			case "if":
				ws(s.Body, true)
				ws(s.Else, true)
				if s.ElseIf != nil {
					ws([]*gen.Stmt{s.ElseIf}, true)
				}
				continue
			case "switch":
				for _, c := range s.Cases {
					we(c.Val)
					ws(c.Body, true)
				}
				continue
			}
			ws(s.Body, inBranch)
		}
	}
	ws(p.Body, false)
	var ks []string
	for k := range t {
		ks = append(ks, k)
	}
	sortStr(ks)
	if len(ks) == 0 {
		return "none"
	}
	return strings.Join(ks, "+")
}
