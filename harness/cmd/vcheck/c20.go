package main

// C20 — The cache behaves as a bounded LRU map.
//
// Monitors: (1) sequential lock-step reference LRU on the virtual clock, evictions
// validated as *legal* (necessary + least-recently-used, or expired) rather than
// predicted; (2) concurrent histories with unique values checked per key with
// porcupine against "register that may spontaneously reset to miss", limits sampled
// continuously; (3) the same concurrent workload under the race detector;
// (4) bounded progress: every operation runs under an in-worker watchdog that takes
// two goroutine dumps before declaring a hang.

import (
	"encoding/json"
	"fmt"
	"math/rand"
	"os"
	"path/filepath"
	"sort"
	"strings"
	"sync"
	"sync/atomic"
	"time"

	"github.com/anishathalye/porcupine"
	"github.com/glyphlang/glyph/pkg/cache"

	"verifharness/mon"
)

func init() {
	checks["C20"] = checkC20
	workers["c20seq"] = c20SeqWorker
	workers["c20conc"] = c20ConcWorker
}

// ---------------------------------------------------------------- virtual clock

type vclock struct{ ns atomic.Int64 }

var c20Base = time.Date(2030, 1, 1, 0, 0, 0, 0, time.UTC)

func (v *vclock) Now() time.Time      { return c20Base.Add(time.Duration(v.ns.Load())) }
func (v *vclock) Advance(d time.Duration) { v.ns.Add(int64(d)) }

// ---------------------------------------------------------------- reference model

type c20Ent struct {
	val  interface{}
	size int64
	exp  int64 // virtual ns, 0 = never
	tags []string
}

type c20Model struct {
	cap     int
	maxSize int64
	ttl     time.Duration
	ents    map[string]*c20Ent
	order   []string // index 0 = most recently used
}

func (m *c20Model) expired(k string, now int64) bool {
	e := m.ents[k]
	return e != nil && e.exp != 0 && now > e.exp
}
func (m *c20Model) remove(k string) {
	delete(m.ents, k)
	for i, x := range m.order {
		if x == k {
			m.order = append(m.order[:i], m.order[i+1:]...)
			return
		}
	}
}
func (m *c20Model) touch(k string) {
	for i, x := range m.order {
		if x == k {
			m.order = append(m.order[:i], m.order[i+1:]...)
			break
		}
	}
	m.order = append([]string{k}, m.order...)
}
func (m *c20Model) size() (total, live int64, nTotal, nLive int, now int64) { return }
func (m *c20Model) sums(now int64) (total, live int64, nTotal, nLive int) {
	for k, e := range m.ents {
		total += e.size
		nTotal++
		if !m.expired(k, now) {
			live += e.size
			nLive++
		}
	}
	return
}

type c20Op struct {
	Op   string   `json:"op"`
	Key  string   `json:"key,omitempty"`
	Size int      `json:"size,omitempty"`
	Int  bool     `json:"int,omitempty"`
	TTL  int64    `json:"ttl_ms,omitempty"`
	Tags []string `json:"tags,omitempty"`
	Adv  int64    `json:"advance_ms,omitempty"`
	Tag  string   `json:"tag,omitempty"`
}

type c20Cfg struct {
	Cap     int   `json:"capacity"`
	MaxSize int64 `json:"max_size"`
	TTLms   int64 `json:"default_ttl_ms"`
}

type c20Hist struct {
	Cfg c20Cfg  `json:"cfg"`
	Ops []c20Op `json:"ops"`
}

var c20Caps = []int{0, 1, 2, 3, 8}
var c20Max = []int64{0, 16, 64, 256, 1 << 20}
var c20TTL = []int64{0, 1000, 300000}
var c20Sizes = []int{0, 8, 15, 16, 17, 40, 63, 64, 65, 120, 300, 10000}

func c20Gen(rng *rand.Rand, allowZero bool) c20Hist {
	h := c20Hist{}
	for {
		h.Cfg = c20Cfg{Cap: c20Caps[rng.Intn(len(c20Caps))], MaxSize: c20Max[rng.Intn(len(c20Max))], TTLms: c20TTL[rng.Intn(len(c20TTL))]}
		if h.Cfg.Cap == 0 && !allowZero {
			continue
		}
		break
	}
	nkeys := 3 + rng.Intn(4)
	n := 5 + rng.Intn(60)
	if rng.Intn(6) == 0 {
		n = 100 + rng.Intn(100)
	}
	tags := []string{"t1", "t2", "t3"}
	for i := 0; i < n; i++ {
		k := fmt.Sprintf("k%d", rng.Intn(nkeys))
		switch p := rng.Intn(100); {
		case p < 34:
			h.Ops = append(h.Ops, c20Op{Op: "get", Key: k})
		case p < 66:
			op := c20Op{Op: "set", Key: k, Size: c20Sizes[rng.Intn(len(c20Sizes))], Int: rng.Intn(8) == 0}
			if rng.Intn(3) == 0 {
				op.TTL = []int64{500, 1000, 2000, 60000}[rng.Intn(4)]
			}
			h.Ops = append(h.Ops, op)
		case p < 76:
			op := c20Op{Op: "settags", Key: k, Size: c20Sizes[rng.Intn(len(c20Sizes))]}
			for _, t := range tags {
				if rng.Intn(2) == 0 {
					op.Tags = append(op.Tags, t)
				}
			}
			h.Ops = append(h.Ops, op)
		case p < 82:
			h.Ops = append(h.Ops, c20Op{Op: "delete", Key: k})
		case p < 86:
			h.Ops = append(h.Ops, c20Op{Op: "deltag", Tag: tags[rng.Intn(len(tags))]})
		case p < 88:
			h.Ops = append(h.Ops, c20Op{Op: "clear"})
		case p < 94:
			h.Ops = append(h.Ops, c20Op{Op: "advance", Adv: []int64{1, 400, 600, 999, 1000, 1001, 2500, 86400000}[rng.Intn(8)]})
		default:
			h.Ops = append(h.Ops, c20Op{Op: "stats"})
		}
	}
	return h
}

type c20Evict struct {
	Key string
	Val interface{}
}

// c20RunSeq executes one history in lock-step with the model. It returns
// violations as (sig, what) pairs.
func c20RunSeq(w *mon.W, h c20Hist, idx int) {
	clk := &vclock{}
	cache.SetVerifNow(clk.Now)
	defer cache.SetVerifNow(nil)
	var evs []c20Evict
	opts := []cache.LRUOption{cache.WithCapacity(h.Cfg.Cap), cache.WithMaxSize(h.Cfg.MaxSize),
		cache.WithDefaultTTL(time.Duration(h.Cfg.TTLms) * time.Millisecond),
		cache.WithOnEvict(func(k string, v interface{}) { evs = append(evs, c20Evict{k, v}) })}
	var c *cache.LRUCache
	c = cache.NewLRUCache(opts...)
	defer c.Close()
	m := &c20Model{cap: h.Cfg.Cap, maxSize: h.Cfg.MaxSize, ttl: time.Duration(h.Cfg.TTLms) * time.Millisecond, ents: map[string]*c20Ent{}}
	zeroLimits := false // capacity 0 means nothing may be stored: the limit is asserted like any other
	unstorable := h.Cfg.Cap <= 0
	owner := map[string]string{} // value id -> key it was stored under
	seq := 0
	fail := func(step int, sig, what string) {
		w.Violate(sig, what, map[string]interface{}{"history_index": idx, "cfg": h.Cfg, "ops_until_failure": h.Ops[:step+1], "failing_step": step})
	}
	valID := func(v interface{}) string {
		switch x := v.(type) {
		case string:
			if i := strings.IndexByte(x, '|'); i >= 0 {
				return x[:i]
			}
			return x
		case int:
			return fmt.Sprintf("int%d", x)
		}
		return fmt.Sprintf("%v", v)
	}
	for step, op := range h.Ops {
		evs = evs[:0]
		now := clk.ns.Load()
		bad := false
		switch op.Op {
		case "advance":
			clk.Advance(time.Duration(op.Adv) * time.Millisecond)
			continue
		case "get":
			var v interface{}
			var ok bool
			w.Watch(fmt.Sprintf("hist %d step %d get", idx, step), 10*time.Second, func() { v, ok = c.Get(op.Key) })
			e := m.ents[op.Key]
			switch {
			case e == nil || m.expired(op.Key, now):
				if ok {
					kind := "hit-of-absent-key"
					if e != nil {
						kind = "hit-of-expired-entry"
					}
					if o, known := owner[valID(v)]; known && o != op.Key {
						kind = "another-keys-value"
					}
					fail(step, "seq:get:"+kind, fmt.Sprintf("Get(%s) returned %v but the reference has no live entry", op.Key, clip(v)))
					bad = true
				}
				if e != nil {
					m.remove(op.Key)
				}
			default:
				if !ok {
					if !zeroLimits {
						fail(step, "seq:get:miss-of-live-entry", fmt.Sprintf("Get(%s) missed although the most recent Set is unexpired and was never evicted", op.Key))
						bad = true
					} else {
						m.remove(op.Key)
					}
				} else if valID(v) != valID(e.val) {
					kind := "stale-value"
					if o, known := owner[valID(v)]; known && o != op.Key {
						kind = "another-keys-value"
					}
					fail(step, "seq:get:"+kind, fmt.Sprintf("Get(%s) returned %v, reference holds %v", op.Key, clip(v), clip(e.val)))
					bad = true
				} else {
					m.touch(op.Key)
				}
			}
			for _, ev := range evs {
				if ev.Key != op.Key {
					fail(step, "seq:get:evicts-other-key", fmt.Sprintf("Get(%s) removed %s", op.Key, ev.Key))
					bad = true
				}
			}
		case "set", "settags":
			seq++
			var val interface{}
			var size int64
			id := fmt.Sprintf("%s#%d", op.Key, seq)
			if op.Int {
				val = 1000000*(idx%1000) + seq
				id = fmt.Sprintf("int%d", val)
				size = 8
			} else {
				s := id + "|"
				if len(s) < op.Size {
					s += strings.Repeat("x", op.Size-len(s))
				}
				val = s
				size = int64(len(s))
			}
			owner[id] = op.Key
			ttl := time.Duration(op.TTL) * time.Millisecond
			var err error
			w.Watch(fmt.Sprintf("hist %d step %d %s size=%d cfg=%+v", idx, step, op.Op, size, h.Cfg), 10*time.Second, func() {
				if op.Op == "set" {
					err = c.Set(op.Key, val, ttl)
				} else {
					err = c.SetWithTags(op.Key, val, ttl, op.Tags)
				}
			})
			eff := ttl
			if eff == 0 {
				eff = m.ttl
			}
			var exp int64
			if eff > 0 {
				exp = now + int64(eff)
			}
			oversize := m.maxSize > 0 && size > m.maxSize
			_, existed := m.ents[op.Key]
			// validate evictions one by one
			stored := err == nil
			for _, ev := range evs {
				if ev.Key == op.Key {
					// the old entry of this key was dropped (legal when replacing or refusing)
					if existed {
						m.remove(op.Key)
						existed = false
					}
					continue
				}
				if m.ents[ev.Key] == nil {
					fail(step, "seq:set:evict-of-unknown-entry", fmt.Sprintf("%s(%s) evicted %s which the reference does not hold", op.Op, op.Key, ev.Key))
					bad = true
					continue
				}
				if m.expired(ev.Key, now) {
					m.remove(ev.Key)
					continue
				}
				tot, _, n, _ := m.sums(now)
				curSize := tot
				cnt := n
				if existed {
					curSize -= m.ents[op.Key].size
					cnt--
				}
				need := (m.cap > 0 && cnt >= m.cap) || (m.maxSize > 0 && curSize+size > m.maxSize)
				if !need && !zeroLimits {
					fail(step, "seq:set:unnecessary-eviction", fmt.Sprintf("%s(%s) evicted %s although both limits had room", op.Op, op.Key, ev.Key))
					bad = true
				}
				// LRU victim = last element of order that is not the key being set
				lru := ""
				for i := len(m.order) - 1; i >= 0; i-- {
					if m.order[i] != op.Key {
						lru = m.order[i]
						break
					}
				}
				if ev.Key != lru {
					fail(step, "seq:set:evicted-not-least-recently-used", fmt.Sprintf("%s(%s) evicted %s while %s was least recently used (order MRU→LRU %v)", op.Op, op.Key, ev.Key, lru, m.order))
					bad = true
				}
				m.remove(ev.Key)
			}
			if stored {
				m.ents[op.Key] = &c20Ent{val: val, size: size, exp: exp, tags: op.Tags}
				m.touch(op.Key)
			} else if !oversize && !unstorable {
				fail(step, "seq:set:error-for-storable-value", fmt.Sprintf("%s(%s) returned %v for a value that fits the limits", op.Op, op.Key, err))
				bad = true
			}
		case "delete":
			w.Watch(fmt.Sprintf("hist %d step %d delete", idx, step), 10*time.Second, func() { c.Delete(op.Key) })
			m.remove(op.Key)
			for _, ev := range evs {
				if ev.Key != op.Key {
					fail(step, "seq:delete:removes-other-key", fmt.Sprintf("Delete(%s) removed %s", op.Key, ev.Key))
					bad = true
				}
			}
		case "deltag":
			var n int
			w.Watch(fmt.Sprintf("hist %d step %d deltag", idx, step), 10*time.Second, func() { n = c.DeleteByTag(op.Tag) })
			all, live := 0, 0
			var victims []string
			for k, e := range m.ents {
				for _, t := range e.tags {
					if t == op.Tag {
						all++
						if !m.expired(k, now) {
							live++
						}
						victims = append(victims, k)
						break
					}
				}
			}
			if n < live || n > all {
				fail(step, "seq:deltag:wrong-count", fmt.Sprintf("DeleteByTag(%s) = %d, reference has %d live / %d total tagged entries", op.Tag, n, live, all))
				bad = true
			}
			vs := map[string]bool{}
			for _, k := range victims {
				vs[k] = true
				m.remove(k)
			}
			for _, ev := range evs {
				if !vs[ev.Key] {
					fail(step, "seq:deltag:removes-untagged-key", fmt.Sprintf("DeleteByTag(%s) removed %s which does not carry the tag", op.Tag, ev.Key))
					bad = true
				}
			}
		case "clear":
			w.Watch(fmt.Sprintf("hist %d step %d clear", idx, step), 10*time.Second, func() { c.Clear() })
			m.ents = map[string]*c20Ent{}
			m.order = nil
		case "stats":
		}
		// limits and accounting after every operation
		var st cache.Stats
		w.Watch(fmt.Sprintf("hist %d step %d stats", idx, step), 10*time.Second, func() { st = c.Stats() })
		now = clk.ns.Load()
		tot, live, nTot, nLive := m.sums(now)
		if !zeroLimits {
			if capLimit := int64(m.cap); st.EntryCount > capLimit && (capLimit >= 0) {
				fail(step, "seq:limit:entry-count-exceeds-capacity", fmt.Sprintf("after %s: EntryCount=%d capacity=%d", op.Op, st.EntryCount, m.cap))
				bad = true
			}
			if m.maxSize > 0 && st.Size > m.maxSize {
				sig := "seq:limit:size-exceeds-max-size"
				if op.Op == "set" || op.Op == "settags" {
					if _, ex := m.ents[op.Key]; ex {
						sig += ":after-" + c20SetKind(h.Ops[:step], op.Key)
					}
				}
				fail(step, sig, fmt.Sprintf("after %s(%s): Size=%d maxSize=%d", op.Op, op.Key, st.Size, m.maxSize))
				bad = true
			}
			if !bad && (st.EntryCount < int64(nLive) || st.EntryCount > int64(nTot) || st.Size < live || st.Size > tot) {
				fail(step, "seq:stats:accounting-drift", fmt.Sprintf("after %s: Stats{EntryCount:%d Size:%d}, reference count in [%d,%d] size in [%d,%d]", op.Op, st.EntryCount, st.Size, nLive, nTot, live, tot))
				bad = true
			}
		}
		if bad {
			return
		}
	}
}

// c20SetKind says whether the last Set of key before this one left an entry
// ("update-in-place") or not ("insert").
func c20SetKind(prev []c20Op, key string) string {
	for i := len(prev) - 1; i >= 0; i-- {
		if prev[i].Key == key && (prev[i].Op == "set" || prev[i].Op == "settags") {
			return "update-in-place"
		}
		if prev[i].Op == "clear" || (prev[i].Op == "delete" && prev[i].Key == key) {
			break
		}
	}
	return "insert"
}

func clip(v interface{}) string {
	s := fmt.Sprintf("%v", v)
	if len(s) > 40 {
		s = s[:40] + "…"
	}
	return s
}

type c20Params struct {
	ZeroCap bool `json:"zero_cap"`
	Directed bool `json:"directed"`
}

func c20Directed() []c20Hist {
	return []c20Hist{
		{Cfg: c20Cfg{Cap: 3, MaxSize: 16}, Ops: []c20Op{{Op: "set", Key: "k0", Size: 17}, {Op: "get", Key: "k0"}}},
		{Cfg: c20Cfg{Cap: 3, MaxSize: 16}, Ops: []c20Op{{Op: "set", Key: "k0", Size: 8}, {Op: "set", Key: "k1", Size: 300}, {Op: "get", Key: "k0"}, {Op: "get", Key: "k1"}}},
		{Cfg: c20Cfg{Cap: 3, MaxSize: 64}, Ops: []c20Op{{Op: "settags", Key: "k0", Size: 10000, Tags: []string{"t1"}}, {Op: "stats"}}},
		{Cfg: c20Cfg{Cap: 8, MaxSize: 64}, Ops: []c20Op{{Op: "set", Key: "k0", Size: 40}, {Op: "set", Key: "k1", Size: 16}, {Op: "set", Key: "k1", Size: 40}, {Op: "stats"}}},
		{Cfg: c20Cfg{Cap: 8, MaxSize: 64}, Ops: []c20Op{{Op: "settags", Key: "k0", Size: 40}, {Op: "settags", Key: "k1", Size: 16}, {Op: "settags", Key: "k1", Size: 40}, {Op: "stats"}}},
		{Cfg: c20Cfg{Cap: 0, MaxSize: 64}, Ops: []c20Op{{Op: "set", Key: "k0", Size: 8}, {Op: "get", Key: "k0"}, {Op: "settags", Key: "k1", Size: 8}, {Op: "stats"}}},
		{Cfg: c20Cfg{Cap: 1, MaxSize: 0}, Ops: []c20Op{{Op: "set", Key: "k0", Size: 10000}, {Op: "set", Key: "k1", Size: 10000}, {Op: "get", Key: "k0"}, {Op: "get", Key: "k1"}}},
		{Cfg: c20Cfg{Cap: 2, MaxSize: 64, TTLms: 1000}, Ops: []c20Op{{Op: "set", Key: "k0", Size: 8}, {Op: "advance", Adv: 1000}, {Op: "get", Key: "k0"}, {Op: "advance", Adv: 1}, {Op: "get", Key: "k0"}}},
	}
}

func c20SeqWorker(in, out string) {
	w := mon.OpenWorker(in, out)
	var p c20Params
	json.Unmarshal(w.Params, &p)
	dir := c20Directed()
	for i := w.From; i < w.To; i++ {
		w.Begin(i)
		var h c20Hist
		if p.Directed {
			h = dir[i]
		} else {
			h = c20Gen(w.Rand("seq", i), true)
		}
		c20RunSeq(w, h, i)
		nt := len(h.Ops) >= 5
		w.Case(mon.Hash(h), nt)
		w.Mark("cfg", fmt.Sprintf("cap=%d,max=%d,ttl=%d", h.Cfg.Cap, h.Cfg.MaxSize, h.Cfg.TTLms))
		for _, op := range h.Ops {
			w.Count("op:"+op.Op, 1)
		}
		if i%997 == 0 {
			w.Sample(h)
		}
	}
	w.Done()
}

// ---------------------------------------------------------------- concurrent

type c20In struct {
	Op  string // get set delete
	Val string
}
type c20Out struct {
	Val string
	Hit bool
}

func c20PorcModel() porcupine.Model {
	return porcupine.Model{
		Init: func() interface{} { return "" },
		Step: func(st, in, out interface{}) (bool, interface{}) {
			i := in.(c20In)
			switch i.Op {
			case "set":
				return true, i.Val
			case "delete":
				return true, ""
			default:
				o := out.(c20Out)
				if !o.Hit {
					return true, "" // evicted / expired at some earlier instant: legal, and it stays gone
				}
				return o.Val == st.(string), st
			}
		},
		DescribeOperation: func(in, out interface{}) string {
			i := in.(c20In)
			if i.Op == "get" {
				o := out.(c20Out)
				return fmt.Sprintf("get -> %q hit=%v", o.Val, o.Hit)
			}
			return fmt.Sprintf("%s %q", i.Op, i.Val)
		},
	}
}

func c20ConcWorker(in, out string) {
	w := mon.OpenWorker(in, out)
	for i := w.From; i < w.To; i++ {
		w.Begin(i)
		c20ConcRound(w, i)
	}
	w.Done()
}

func c20ConcRound(w *mon.W, round int) {
	rng := w.Rand("conc", round)
	clk := &vclock{}
	cache.SetVerifNow(clk.Now)
	defer cache.SetVerifNow(nil)
	capn := []int{1, 2, 3, 8}[rng.Intn(4)]
	maxSize := []int64{0, 64, 256}[rng.Intn(3)]
	nkeys := 2 + rng.Intn(4)
	var evictFromOther atomic.Int64
	c := cache.NewLRUCache(cache.WithCapacity(capn), cache.WithMaxSize(maxSize), cache.WithDefaultTTL(0),
		cache.WithOnEvict(func(k string, v interface{}) {
			if s, ok := v.(string); ok && !strings.HasPrefix(s, k+"#") {
				evictFromOther.Add(1)
			}
		}))
	defer c.Close()
	G := 8
	N := 150
	type hop struct {
		key       string
		in        c20In
		out       c20Out
		call, ret int64
	}
	hist := make([][]hop, G)
	base := time.Now()
	var wg sync.WaitGroup
	stop := make(chan struct{})
	var limitBad atomic.Value
	var samples atomic.Int64
	// continuous limit sampler
	wg.Add(1)
	go func() {
		defer wg.Done()
		for {
			select {
			case <-stop:
				return
			default:
			}
			st := c.Stats()
			samples.Add(1)
			if st.EntryCount > int64(capn) {
				limitBad.Store(fmt.Sprintf("EntryCount=%d capacity=%d", st.EntryCount, capn))
			}
			if maxSize > 0 && st.Size > maxSize {
				limitBad.Store(fmt.Sprintf("Size=%d maxSize=%d", st.Size, maxSize))
			}
		}
	}()
	seeds := make([]int64, G)
	for g := range seeds {
		seeds[g] = rng.Int63()
	}
	var opsDone sync.WaitGroup
	w.Watch(fmt.Sprintf("concurrent round %d cap=%d max=%d keys=%d", round, capn, maxSize, nkeys), 60*time.Second, func() {
		for g := 0; g < G; g++ {
			opsDone.Add(1)
			go func(g int) {
				defer opsDone.Done()
				r := rand.New(rand.NewSource(seeds[g]))
				for n := 0; n < N; n++ {
					k := fmt.Sprintf("k%d", r.Intn(nkeys))
					h := hop{key: k}
					switch p := r.Intn(100); {
					case p < 45:
						h.in = c20In{Op: "get"}
						h.call = int64(time.Since(base))
						v, ok := c.Get(k)
						h.ret = int64(time.Since(base))
						s, _ := v.(string)
						h.out = c20Out{Val: s, Hit: ok}
					case p < 90:
						val := fmt.Sprintf("%s#%d.%d|", k, g, n)
						if r.Intn(3) == 0 {
							val += strings.Repeat("x", r.Intn(40))
						}
						h.in = c20In{Op: "set", Val: val}
						h.call = int64(time.Since(base))
						var err error
						if r.Intn(4) == 0 {
							err = c.SetWithTags(k, val, 0, []string{"t"})
						} else {
							err = c.Set(k, val, 0)
						}
						h.ret = int64(time.Since(base))
						if err != nil {
							// refused: not stored; record as a no-op read of nothing
							continue
						}
					default:
						h.in = c20In{Op: "delete"}
						h.call = int64(time.Since(base))
						c.Delete(k)
						h.ret = int64(time.Since(base))
					}
					hist[g] = append(hist[g], h)
					if r.Intn(16) == 0 {
						clk.Advance(time.Millisecond)
					}
				}
			}(g)
		}
		opsDone.Wait()
	})
	close(stop)
	wg.Wait()
	if s, ok := limitBad.Load().(string); ok {
		w.Violate("conc:limit-exceeded", "limit exceeded during concurrent use: "+s, map[string]interface{}{"round": round, "capacity": capn, "max_size": maxSize})
	}
	if evictFromOther.Load() > 0 {
		w.Violate("conc:evict-key-value-mismatch", "onEvict reported a value stored under a different key", map[string]interface{}{"round": round})
	}
	// foreign values + per-key linearizability
	byKey := map[string][]porcupine.Operation{}
	overlap := 0
	total := 0
	for g := range hist {
		for _, h := range hist[g] {
			total++
			if h.in.Op == "get" && h.out.Hit && !strings.HasPrefix(h.out.Val, h.key+"#") {
				w.Violate("conc:get:another-keys-value", fmt.Sprintf("Get(%s) returned %q", h.key, h.out.Val), map[string]interface{}{"round": round})
			}
			byKey[h.key] = append(byKey[h.key], porcupine.Operation{ClientId: g, Input: h.in, Output: h.out, Call: h.call, Return: h.ret})
		}
	}
	model := c20PorcModel()
	for k, ops := range byKey {
		// count operations that overlap an earlier-called operation of the same key
		sort.Slice(ops, func(a, b int) bool { return ops[a].Call < ops[b].Call })
		var maxRet int64 = -1
		for i := range ops {
			if ops[i].Call < maxRet {
				overlap++
			}
			if ops[i].Return > maxRet {
				maxRet = ops[i].Return
			}
		}
		res, _ := porcupine.CheckOperationsVerbose(model, ops, 30*time.Second)
		switch res {
		case porcupine.Illegal:
			w.Violate("conc:not-linearizable", fmt.Sprintf("history of key %s (%d ops) is not linearizable against the evicting-register model", k, len(ops)),
				map[string]interface{}{"round": round, "key": k, "capacity": capn, "max_size": maxSize, "ops": c20DescribeOps(ops, 60)})
		case porcupine.Unknown:
			w.Inconclusive(fmt.Sprintf("porcupine timeout on key %s round %d", k, round))
		}
	}
	w.Count("conc_ops", total)
	w.Count("conc_overlapping_pairs", overlap)
	w.Count("conc_stats_samples", int(samples.Load()))
	w.Case(fmt.Sprintf("conc-%d-%d", round, total), overlap >= 2)
}

func c20DescribeOps(ops []porcupine.Operation, max int) []string {
	var out []string
	for i, o := range ops {
		if i >= max {
			break
		}
		out = append(out, fmt.Sprintf("c%d [%d,%d] %v -> %v", o.ClientId, o.Call, o.Return, o.Input, o.Output))
	}
	return out
}

// ---------------------------------------------------------------- parent

func checkC20(tier string) {
	r := mon.New("C20", tier, "exploration")
	r.Rule = "sequential: PRNG-generated histories (5-200 ops over get/set/settags/delete/deltag/clear/advance-clock/stats, 3-6 keys, capacity {0,1,2,3,8} x maxSize {0,16,64,256,1MiB} x TTL {0,1s,5m}, value sizes around and above the limits) stepped against a reference LRU on a virtual clock; non-trivial = >=5 ops, distinct by content hash. concurrent: rounds of 8 goroutines x 150 ops on 2-5 keys with unique values, non-trivial = >=2 overlapping operation pairs on one key"
	r.Assume("virtual clock: time.Now() in pkg/cache/cache.go is replaced at build time by an overlay copy (sed), the background 1-minute cleanup ticker never fires in a run")
		hangs := 0
	onDeath := func(kind string) func(int, mon.ChildOut, *mon.Rec) bool {
		return func(i int, co mon.ChildOut, hang *mon.Rec) bool {
			if hang != nil {
				fn := c20HangSite(hang.Stacks)
				if fn != "" {
					hangs++
					r.Violate("liveness:"+kind+":"+fn, "operation did not return within 10 s (normal: microseconds); two goroutine dumps 3 s apart both show it inside "+fn+" — "+hang.Desc,
						map[string]interface{}{"case": i, "desc": hang.Desc, "stack_excerpt": c20Excerpt(hang.Stacks[1], fn)})
					return hangs < 4
				}
				r.Inconclusive("watchdog fired but the dumps do not show a cache function: " + hang.Desc)
				return true
			}
			if co.Death == "panic" || co.Death == "fatal" || co.Death == "concurrent-map" {
				r.Violate("crash:"+kind+":"+co.Death, "worker process died: "+mon.PanicExcerpt(co.Tail, 12), map[string]interface{}{"case": i})
				return true
			}
			r.Inconclusive(fmt.Sprintf("%s worker ended abnormally (%s) at case %d", kind, co.Death, i))
			return true
		}
	}
	// directed histories first (these are also the witnesses of recorded findings)
	r.RunBatch(mon.Batch{Worker: "c20seq", Tag: "directed", N: len(c20Directed()), Chunk: 1, Parallel: 8, Params: c20Params{Directed: true}, Timeout: 2 * time.Minute, OnDeath: onDeath("seq")})
	n := r.Pick(60000, 2000000)
	r.RunBatch(mon.Batch{Worker: "c20seq", N: n, Chunk: (n + 15) / 16, Parallel: 16, Params: c20Params{}, Timeout: 20 * time.Minute, OnDeath: onDeath("seq")})
	rounds := r.Pick(96, 2400)
	r.RunBatch(mon.Batch{Worker: "c20conc", Tag: "conc-plain", N: rounds, Chunk: (rounds + 7) / 8, Parallel: 8, Timeout: 20 * time.Minute, OnDeath: onDeath("conc")})
	// race-detector pass over the same concurrent workload
	raceBin, err := mon.BuildSelf("vcheck.race", "-race")
	if err != nil {
		r.Inconclusive("race build failed: " + err.Error())
	} else {
		logp := filepath.Join(mon.BuildDir(), "race", "C20")
		os.MkdirAll(filepath.Dir(logp), 0o755)
		old, _ := filepath.Glob(logp + "*")
		for _, f := range old {
			os.Remove(f)
		}
		rr := r.Pick(16, 200)
		r.RunBatch(mon.Batch{Worker: "c20conc", Tag: "conc-race", Bin: raceBin, N: rr, Chunk: (rr + 7) / 8, Parallel: 8, Timeout: 20 * time.Minute,
			Env: []string{"GORACE=halt_on_error=0 log_path=" + logp}, OnDeath: onDeath("conc-race")})
		blocks, total := mon.ParseRaceLogs(logp)
		r.Set("race_reports_total", total)
		r.Set("race_reports_distinct_in_repo", len(blocks))
		for _, b := range blocks {
			r.Violate("race:"+b.Key, "data race reported by the race detector between "+b.Entry[0]+" and "+b.Entry[1], map[string]interface{}{"report": b.Text})
		}
	}
	r.Finish()
}

func c20HangSite(stacks []string) string {
	if len(stacks) < 2 {
		return ""
	}
	for _, fn := range []string{"cache.(*LRUCache).Set", "cache.(*LRUCache).SetWithTags", "cache.(*LRUCache).Get", "cache.(*LRUCache).Delete", "cache.(*LRUCache).DeleteByTag", "cache.(*LRUCache).Clear", "cache.(*LRUCache).Stats", "cache.(*LRUCache).evictOldest"} {
		if strings.Contains(stacks[0], fn) && strings.Contains(stacks[1], fn) {
			return fn
		}
	}
	return ""
}

func c20Excerpt(stack, fn string) string {
	i := strings.Index(stack, fn)
	if i < 0 {
		return ""
	}
	s := strings.LastIndex(stack[:i], "goroutine ")
	if s < 0 {
		s = 0
	}
	e := i + 600
	if e > len(stack) {
		e = len(stack)
	}
	return stack[s:e]
}
