package main

// C05 — Requests reach exactly the declared handler.
//
// Reference-router monitor: every route body returns a marker naming the declaration that
// ran and the parameter bindings it saw; a 30-line reference router predicts the marker
// for every (table, method, path). Observed through the CLI's own wiring in both modes.

import (
	"encoding/json"
	"fmt"
	"math/rand"
	"sort"
	"strings"

	"verifharness/mon"
)

func init() { checks["C05"] = checkC05 }

type c05Decl struct {
	Method string   `json:"method"`
	Segs   []string `json:"segments"`
}

func (d c05Decl) Pattern() string { return "/" + strings.Join(d.Segs, "/") }

var c05Methods = []string{"GET", "POST", "PUT", "PATCH", "DELETE"}
var c05SegAlpha = []string{"a", "b", "ab", ":x", ":y"}
var c05ReqAlpha = []string{"a", "b", "ab", "c", "A"}

func c05Source(tab []c05Decl) string {
	var b strings.Builder
	for i, d := range tab {
		fmt.Fprintf(&b, "@ %s %s {\n  > {r: %d, m: \"%s\"", d.Method, d.Pattern(), i, d.Method)
		seen := map[string]bool{}
		for _, s := range d.Segs {
			if strings.HasPrefix(s, ":") && !seen[s] {
				seen[s] = true
				fmt.Fprintf(&b, ", p%s: %s", s[1:], s[1:])
			}
		}
		b.WriteString("}\n}\n\n")
	}
	return b.String()
}

// c05Ref is the reference router: same method, same segment count, equal static
// segments; fewest parameter segments wins, ties to the earliest declaration.
func c05Ref(tab []c05Decl, method string, segs []string) (idx int, params map[string]string) {
	best, bestP := -1, 0
	for i, d := range tab {
		if d.Method != method || len(d.Segs) != len(segs) {
			continue
		}
		ok, np := true, 0
		for k, s := range d.Segs {
			if strings.HasPrefix(s, ":") {
				np++
			} else if s != segs[k] {
				ok = false
				break
			}
		}
		if !ok {
			continue
		}
		if best < 0 || np < bestP {
			best, bestP = i, np
		}
	}
	if best < 0 {
		return -1, nil
	}
	params = map[string]string{}
	for k, s := range tab[best].Segs {
		if strings.HasPrefix(s, ":") {
			params[s[1:]] = segs[k]
		}
	}
	return best, params
}

func c05GenTable(rng *rand.Rand) []c05Decl {
	n := 1 + rng.Intn(8)
	var tab []c05Decl
	for len(tab) < n {
		d := c05Decl{Method: c05Methods[rng.Intn(len(c05Methods))]}
		depth := 1 + rng.Intn(3)
		used := map[string]bool{}
		for k := 0; k < depth; k++ {
			s := c05SegAlpha[rng.Intn(len(c05SegAlpha))]
			if strings.HasPrefix(s, ":") && used[s] {
				s = "a" // no duplicate parameter names inside one pattern (binding unspecified)
			}
			used[s] = true
			d.Segs = append(d.Segs, s)
		}
		tab = append(tab, d)
		// deliberately add related declarations
		switch rng.Intn(6) {
		case 0: // same pattern, other method
			if len(tab) < n {
				tab = append(tab, c05Decl{Method: c05Methods[rng.Intn(len(c05Methods))], Segs: append([]string{}, d.Segs...)})
			}
		case 1: // same pattern, same method (duplicate)
			if len(tab) < n {
				tab = append(tab, c05Decl{Method: d.Method, Segs: append([]string{}, d.Segs...)})
			}
		case 2: // one segment swapped static<->param
			if len(tab) < n {
				e := c05Decl{Method: d.Method, Segs: append([]string{}, d.Segs...)}
				k := rng.Intn(len(e.Segs))
				if strings.HasPrefix(e.Segs[k], ":") {
					e.Segs[k] = []string{"a", "b"}[rng.Intn(2)]
				} else {
					nm := ":x"
					for _, s := range e.Segs {
						if s == ":x" {
							nm = ":y"
						}
					}
					dup := false
					for _, s := range e.Segs {
						if s == nm {
							dup = true
						}
					}
					if !dup {
						e.Segs[k] = nm
					}
				}
				tab = append(tab, e)
			}
		}
	}
	return tab
}

func c05AllPaths(maxDepth int) [][]string {
	var out [][]string
	var rec func(cur []string)
	rec = func(cur []string) {
		if len(cur) > 0 {
			out = append(out, append([]string{}, cur...))
		}
		if len(cur) == maxDepth {
			return
		}
		for _, s := range c05ReqAlpha {
			rec(append(cur, s))
		}
	}
	rec(nil)
	return out
}

type c05Probe struct {
	method string
	segs   []string
	raw    string // raw path if it is a perturbation ("" = clean)
	exact  bool   // raw is only a percent-encoded spelling of the clean path /segs...: exact expectation applies
}

func c05Encode(rng *rand.Rand, seg string) string {
	if seg == "" {
		return seg
	}
	k := rng.Intn(len(seg))
	return seg[:k] + fmt.Sprintf("%%%02X", seg[k]) + seg[k+1:]
}

func checkC05(tier string) {
	r := mon.New("C05", tier, "exploration")
	r.Rule = "PRNG-generated route tables (1-8 declarations over segments {a,b,ab,:x,:y}, depth<=3, 5 methods; same pattern under several methods, exact duplicates, static/param overlaps in both orders) x every request path over {a,b,ab,c,A} of depth<=3 x 5 methods (exhaustive per table) + perturbed paths (trailing slash, //, dot segments, %2F, %61, empty, long), observed through parseSource->setupRoutes->createHandler->ServeMux in compiled and interpreted mode; plus all tables of <=2 declarations at depth<=2 over {a,:x} (exhaustive sub-space); distinct = (table, mode); non-trivial = the table has >=2 declarations matching some common request"
	ntab := r.Pick(1200, 40000)
	rng := r.Rand("tables")
	var tables [][]c05Decl
	// exhaustive small sub-space: all ordered tables of <=2 declarations, patterns of depth <=2 over {a, :x}, methods {GET, POST}
	var small []c05Decl
	for _, m := range []string{"GET", "POST"} {
		for _, s1 := range []string{"a", ":x"} {
			small = append(small, c05Decl{m, []string{s1}})
			for _, s2 := range []string{"a", ":y"} {
				small = append(small, c05Decl{m, []string{s1, s2}})
			}
		}
	}
	for _, d := range small {
		tables = append(tables, []c05Decl{d})
		for _, e := range small {
			tables = append(tables, []c05Decl{d, e})
		}
	}
	nSmall := len(tables)
	for i := 0; i < ntab; i++ {
		tables = append(tables, c05GenTable(rng))
	}
	paths := c05AllPaths(3)
	var jobs []HJob
	probes := map[int][]c05Probe{}
	for ti, tab := range tables {
		var pr []c05Probe
		for _, p := range paths {
			for _, m := range c05Methods {
				pr = append(pr, c05Probe{method: m, segs: p})
			}
		}
		// perturbations
		for k := 0; k < 30; k++ {
			p := paths[rng.Intn(len(paths))]
			clean := "/" + strings.Join(p, "/")
			var raw string
			switch rng.Intn(9) {
			case 0:
				raw = clean + "/"
			case 1:
				raw = strings.Replace(clean, "/", "//", 1)
			case 2:
				raw = clean + "/."
			case 3:
				raw = clean + "/../" + p[0]
			case 4:
				raw = strings.Replace(clean, "/a", "/%61", 1)
			case 5:
				raw = clean + "%2Fa"
			case 6:
				raw = "/" + strings.Repeat("a", 5000)
			case 7:
				raw = clean + "?x=1&y=2"
			default:
				raw = clean + "/%20"
			}
			pr = append(pr, c05Probe{method: c05Methods[rng.Intn(5)], segs: p, raw: raw})
		}
		// percent-encoded spellings of clean paths (the server sees the decoded path) and
		// parameter values that need encoding on the wire
		for k := 0; k < 25; k++ {
			p := append([]string{}, paths[rng.Intn(len(paths))]...)
			if rng.Intn(3) == 0 {
				p[rng.Intn(len(p))] = []string{"a b", "ä", "a+b", "100%", "x:y", "a%41", "%25", "%2F", "%2e%2e", "50%20off", "%C3%A4"}[rng.Intn(11)] // the last ones are literal percent signs followed by hex digits: decoded once they must stay as they are
			}
			enc := make([]string, len(p))
			for i, sgm := range p {
				e := strings.NewReplacer("%", "%25", " ", "%20", "ä", "%C3%A4").Replace(sgm)
				if e == sgm && rng.Intn(2) == 0 {
					e = c05Encode(rng, sgm)
				}
				enc[i] = e
			}
			pr = append(pr, c05Probe{method: c05Methods[rng.Intn(5)], segs: p, raw: "/" + strings.Join(enc, "/"), exact: true})
		}
		probes[ti] = pr
		var reqs []HReq
		for _, q := range pr {
			pth := q.raw
			if pth == "" {
				pth = "/" + strings.Join(q.segs, "/")
			}
			rq := HReq{M: q.method, P: pth}
			if q.method != "GET" && q.method != "DELETE" {
				rq.B = sp("{}")
			}
			reqs = append(reqs, rq)
		}
		src := c05Source(tab)
		jobs = append(jobs, HJob{ID: ti * 2, Src: src, Interp: false, Reqs: reqs}, HJob{ID: ti*2 + 1, Src: src, Interp: true, Reqs: reqs})
	}
	res, err := httpRun(r, jobs, HRunOpts{Tag: "c05"})
	if err != nil {
		r.Inconclusive("cannot build the HTTP worker: " + err.Error())
		r.Finish()
	}
	ran404, ranMarker := 0, 0
	for ti, tab := range tables {
		for mode := 0; mode < 2; mode++ {
			modeName := []string{"compiled", "interpreted"}[mode]
			out := res[ti*2+mode]
			wit := func(extra map[string]interface{}) map[string]interface{} {
				m := map[string]interface{}{"table": tab, "source": c05Source(tab), "mode": modeName}
				for k, v := range extra {
					m[k] = v
				}
				return m
			}
			if out == nil {
				r.Inconclusive(fmt.Sprintf("no result for table %d mode %s", ti, modeName))
				continue
			}
			if out.Died != "" {
				r.Violate("crash:"+modeName, "worker process died while serving this table: "+out.Death, wit(nil))
				continue
			}
			if out.Ev == "hang" {
				r.Violate("hang:"+modeName, out.Hang, wit(nil))
				continue
			}
			if out.ParseErr != "" || out.SetupErr != "" {
				r.Violate("startup-refused:"+modeName, "a plain route table was refused: "+out.ParseErr+out.SetupErr, wit(nil))
				continue
			}
			if mode == 0 && !out.Compiled {
				r.Count("compiled_mode_fell_back", 1)
			}
			overlapping := false
			for qi, q := range probes[ti] {
				if qi >= len(out.Resps) {
					break
				}
				rs := out.Resps[qi]
				if q.raw == "" || q.exact {
					want, wparams := c05Ref(tab, q.method, q.segs)
					if want >= 0 {
						// does another declaration also match? (non-triviality)
						cnt := 0
						for _, d := range tab {
							if i2, _ := c05Ref([]c05Decl{d}, q.method, q.segs); i2 == 0 {
								cnt++
							}
						}
						if cnt >= 2 {
							overlapping = true
						}
					}
					got, gparams, ok := c05Marker(rs)
					path := "/" + strings.Join(q.segs, "/")
					switch {
					case rs.Dropped:
						r.Violate("dropped:"+modeName, fmt.Sprintf("%s %s: connection dropped (%s)", q.method, path, rs.Panic), wit(map[string]interface{}{"request": q.method + " " + path}))
					case want < 0:
						if rs.S != 404 || ok {
							r.Violate("unmatched-request-not-404:"+modeName, fmt.Sprintf("%s %s matches no declaration but got %d %s", q.method, path, rs.S, clipN(rs.B, 80)), wit(map[string]interface{}{"request": q.method + " " + path}))
						} else {
							ran404++
						}
					case !ok:
						r.Violate("matched-request-no-marker:"+modeName, fmt.Sprintf("%s %s should run declaration %d (%s %s) but got %d %s", q.method, path, want, tab[want].Method, tab[want].Pattern(), rs.S, clipN(rs.B, 80)), wit(map[string]interface{}{"request": q.method + " " + path, "expected_declaration": want}))
					case got != want:
						kind := "wrong-declaration"
						if tab[got].Method != q.method {
							kind = "body-of-another-method"
						} else if tab[got].Pattern() == tab[want].Pattern() {
							kind = "later-duplicate-ran"
						}
						r.Violate(kind+":"+modeName, fmt.Sprintf("%s %s ran declaration %d (%s %s), the reference router selects %d (%s %s)", q.method, path, got, tab[got].Method, tab[got].Pattern(), want, tab[want].Method, tab[want].Pattern()), wit(map[string]interface{}{"request": q.method + " " + path, "expected_declaration": want, "ran": got}))
					default:
						ranMarker++
						if !c05SameParams(gparams, wparams) {
							r.Violate("wrong-parameter-binding:"+modeName, fmt.Sprintf("%s %s ran the right declaration %d but bound %v, expected %v", q.method, path, got, gparams, wparams), wit(map[string]interface{}{"request": q.method + " " + path}))
						}
					}
				} else {
					// unclean path: safety half only — a redirect, a 404, or a marker of a declaration of that method
					if rs.Dropped {
						r.Violate("dropped:"+modeName, fmt.Sprintf("%s %q: connection dropped (%s)", q.method, clipN(q.raw, 60), rs.Panic), wit(map[string]interface{}{"request": q.method + " " + clipN(q.raw, 200)}))
						continue
					}
					if got, _, ok := c05Marker(rs); ok && tab[got].Method != q.method {
						r.Violate("body-of-another-method:"+modeName, fmt.Sprintf("%s %q ran declaration %d of method %s", q.method, clipN(q.raw, 60), got, tab[got].Method), wit(map[string]interface{}{"request": q.method + " " + clipN(q.raw, 200)}))
					}
					if rs.S >= 500 && !strings.Contains(q.raw, "%") {
						r.Count("unclean_path_5xx", 1)
					}
				}
			}
			r.Case(fmt.Sprintf("%s|%s", mon.Hash(tab), modeName), overlapping)
			if ti == nSmall+1 && mode == 0 {
				r.Sample(map[string]interface{}{"table": tab, "source": c05Source(tab), "requests": len(probes[ti])})
			}
		}
	}
	r.Count("requests_answered_404_as_predicted", ran404)
	r.Count("requests_ran_predicted_declaration", ranMarker)
	r.Set("exhaustive_small_tables", nSmall)
	r.Set("tables", len(tables))
	if ranMarker == 0 || ran404 == 0 {
		r.Inconclusive("the workload never reached both outcomes (marker and 404)")
	}
	r.Floor(50)
	r.Finish()
}

func c05Marker(rs HResp) (idx int, params map[string]string, ok bool) {
	if rs.S != 200 {
		return -1, nil, false
	}
	var m map[string]interface{}
	if json.Unmarshal([]byte(rs.B), &m) != nil {
		return -1, nil, false
	}
	f, isNum := m["r"].(float64)
	if !isNum {
		return -1, nil, false
	}
	params = map[string]string{}
	for k, v := range m {
		if strings.HasPrefix(k, "p") && len(k) > 1 {
			params[k[1:]] = fmt.Sprint(v)
		}
	}
	return int(f), params, true
}

func c05SameParams(a, b map[string]string) bool {
	if len(a) != len(b) {
		return false
	}
	ks := []string{}
	for k := range a {
		ks = append(ks, k)
	}
	sort.Strings(ks)
	for _, k := range ks {
		if a[k] != b[k] {
			return false
		}
	}
	return true
}
