package main

// C01 — Evaluation follows the language definition.
//
// Reference-model monitor: abstract programs from G-prog are printed to source text,
// parsed and run by the tree-walking interpreter; the outcome (value / error / status) is
// compared with R-eval on the same abstract tree. Determinism monitor: every program runs
// three times (two fresh interpreters, one reused) and must give the same outcome.
// Directed families: precedence pairs, int/float coercion matrix, scoping, control flow.

import (
	"encoding/json"
	"fmt"
	"math/rand"
	"strings"
	"time"

	"github.com/glyphlang/glyph/pkg/ast"
	"github.com/glyphlang/glyph/pkg/interpreter"

	"verifharness/gen"
	"verifharness/mon"
	"verifharness/ref"
)

func init() {
	checks["C01"] = checkC01
	workers["c01"] = c01Worker
}

type c01Params struct {
	Family string `json:"family"`
}

// c01Directed returns hand-shaped abstract programs: operator pairs (precedence and
// associativity), coercion matrix, scoping and control-flow probes.
func c01Directed() []*gen.Prog {
	var out []*gen.Prog
	I := func(n int64) *gen.Expr { return &gen.Expr{K: "int", I: n} }
	F := func(f float64) *gen.Expr { return &gen.Expr{K: "float", F: f} }
	B := func(b bool) *gen.Expr { return &gen.Expr{K: "bool", B: b} }
	V := func(n string) *gen.Expr { return &gen.Expr{K: "var", S: n} }
	bin := func(op string, a, b *gen.Expr) *gen.Expr { return &gen.Expr{K: "bin", Op: op, A: []*gen.Expr{a, b}} }
	ret := func(e *gen.Expr) *gen.Stmt { return &gen.Stmt{K: "ret", E: &gen.Expr{K: "obj", Keys: []string{"x"}, A: []*gen.Expr{e}}} }
	decl := func(n string, e *gen.Expr) *gen.Stmt { return &gen.Stmt{K: "decl", Name: n, E: e} }
	asg := func(n string, e *gen.Expr) *gen.Stmt { return &gen.Stmt{K: "assign", Name: n, E: e} }
	prog := func(ss ...*gen.Stmt) *gen.Prog { return &gen.Prog{Body: ss} }
	arith := []string{"+", "-", "*", "/", "%"}
	cmp := []string{"<", "<=", ">", ">=", "==", "!="}
	// (1) every pair of arithmetic operators, both tree shapes, small operands
	for _, o1 := range arith {
		for _, o2 := range arith {
			for _, vals := range [][3]int64{{7, 3, 2}, {2, 9, 4}, {-8, 3, 5}, {20, 6, 3}} {
				a, b, c := I(vals[0]), I(vals[1]), I(vals[2])
				out = append(out, prog(ret(bin(o2, bin(o1, a, b), c))))
				out = append(out, prog(ret(bin(o1, a, bin(o2, b, c)))))
			}
		}
	}
	// arithmetic vs comparison vs logic
	for _, o1 := range arith[:3] {
		for _, o2 := range cmp {
			out = append(out, prog(ret(bin(o2, bin(o1, I(4), I(2)), I(6)))))
			out = append(out, prog(ret(bin(o2, I(6), bin(o1, I(4), I(2))))))
			for _, lo := range []string{"&&", "||"} {
				out = append(out, prog(ret(bin(lo, bin(o2, bin(o1, I(4), I(2)), I(6)), B(true)))))
				out = append(out, prog(ret(bin(lo, B(false), bin(o2, I(6), bin(o1, I(4), I(2)))))))
			}
		}
	}
	for _, a := range []bool{true, false} {
		for _, b := range []bool{true, false} {
			for _, c := range []bool{true, false} {
				out = append(out, prog(ret(bin("||", B(a), bin("&&", B(b), B(c))))))
				out = append(out, prog(ret(bin("&&", bin("||", B(a), B(b)), B(c)))))
				out = append(out, prog(ret(bin("||", bin("&&", B(a), B(b)), B(c)))))
				out = append(out, prog(ret(&gen.Expr{K: "un", Op: "!", A: []*gen.Expr{bin("&&", B(a), B(b))}})))
			}
		}
	}
	// unary minus against binary operators
	for _, o := range arith {
		out = append(out, prog(ret(bin(o, &gen.Expr{K: "un", Op: "-", A: []*gen.Expr{I(9)}}, I(4)))))
		out = append(out, prog(ret(&gen.Expr{K: "un", Op: "-", A: []*gen.Expr{bin(o, I(9), I(4))}})))
	}
	// (2) coercion matrix: every operator x {int,float}^2
	for _, o := range append(append([]string{}, arith...), cmp...) {
		for _, l := range []*gen.Expr{I(7), F(7), F(2.5), I(-3)} {
			for _, r := range []*gen.Expr{I(2), F(2), F(0.5), I(7), F(7)} {
				out = append(out, prog(ret(bin(o, l, r))))
			}
		}
	}
	for _, o := range []string{"/", "%"} {
		out = append(out, prog(ret(bin(o, I(5), I(0)))), prog(ret(bin(o, F(5), F(0)))), prog(ret(bin(o, I(5), F(0)))))
	}
	// (3) scoping
	out = append(out,
		prog(decl("a", I(1)), &gen.Stmt{K: "if", E: B(true), Body: []*gen.Stmt{decl("b", I(2)), asg("a", bin("+", V("a"), V("b")))}}, ret(V("a"))),
		prog(decl("a", I(1)), &gen.Stmt{K: "if", E: B(true), Body: []*gen.Stmt{decl("b", I(2))}}, ret(V("b"))),                                    // b is out of scope: error
		prog(decl("a", I(1)), decl("a", I(2)), ret(V("a"))),                                                                                       // redeclaration in the same scope: error
		prog(ret(V("nosuch"))),                                                                                                                    // undefined: error
		prog(asg("nosuch", I(1)), ret(I(0))),                                                                                                      // assignment to undeclared: error
		prog(decl("s", I(0)), &gen.Stmt{K: "for", Name: "it", E: &gen.Expr{K: "arr", A: []*gen.Expr{I(1), I(2), I(3)}}, Body: []*gen.Stmt{decl("t", V("it")), asg("s", bin("+", V("s"), V("t")))}}, ret(V("s"))), // fresh scope per iteration
		prog(decl("s", I(0)), &gen.Stmt{K: "for", Name: "it", E: &gen.Expr{K: "arr", A: []*gen.Expr{I(1), I(2)}}, Body: []*gen.Stmt{asg("s", V("it"))}}, ret(V("it"))),                                       // loop variable gone after the loop: error
		prog(decl("s", I(0)), &gen.Stmt{K: "while", Name: "w", E: bin("<", V("w"), I(3)), Body: []*gen.Stmt{asg("w", bin("+", V("w"), I(1))), decl("t", V("w")), asg("s", bin("+", V("s"), V("t")))}}, ret(V("s"))),
	)
	// object iteration: every key once, in a fixed (sorted) order
	objLit := &gen.Expr{K: "obj", Keys: []string{"zeta", "alpha", "mid", "b", "a"}, A: []*gen.Expr{I(1), I(2), I(3), I(4), I(5)}}
	S := func(s string) *gen.Expr { return &gen.Expr{K: "str", S: s} }
	out = append(out,
		prog(decl("o", objLit), decl("acc", S("")), &gen.Stmt{K: "fori", Name: "k", Name2: "v", E: V("o"), Body: []*gen.Stmt{asg("acc", bin("+", V("acc"), V("k")))}}, ret(V("acc"))),
		prog(decl("o", objLit), decl("sum", I(0)), &gen.Stmt{K: "for", Name: "v", E: V("o"), Body: []*gen.Stmt{asg("sum", bin("+", bin("*", V("sum"), I(10)), V("v")))}}, ret(V("sum"))),
		prog(decl("o", objLit), &gen.Stmt{K: "fori", Name: "k", Name2: "v", E: V("o"), Body: []*gen.Stmt{ret(V("k"))}}, ret(S("none"))),
	)
	// (4) control flow: break / continue / nested return / switch without fall-through
	loop := func(body ...*gen.Stmt) *gen.Stmt {
		return &gen.Stmt{K: "fori", Name: "i", Name2: "v", E: &gen.Expr{K: "arr", A: []*gen.Expr{I(10), I(20), I(30), I(40)}}, Body: body}
	}
	iff := func(c *gen.Expr, body ...*gen.Stmt) *gen.Stmt { return &gen.Stmt{K: "if", E: c, Body: body} }
	out = append(out,
		prog(decl("s", I(0)), loop(iff(bin("==", V("i"), I(2)), &gen.Stmt{K: "break"}), asg("s", bin("+", V("s"), V("v")))), ret(V("s"))),
		prog(decl("s", I(0)), loop(iff(bin("==", V("i"), I(1)), &gen.Stmt{K: "continue"}), asg("s", bin("+", V("s"), V("v")))), ret(V("s"))),
		prog(decl("s", I(0)), loop(loop(iff(bin("==", V("i"), I(1)), &gen.Stmt{K: "break"}), asg("s", bin("+", V("s"), I(1)))), asg("s", bin("+", V("s"), I(100)))), ret(V("s"))),
		prog(decl("s", I(0)), loop(iff(bin(">", V("v"), I(25)), ret(V("v"))), asg("s", bin("+", V("s"), I(1)))), ret(V("s"))),
		prog(decl("s", I(0)), &gen.Stmt{K: "switch", E: I(2), Cases: []gen.Case{{Val: I(1), Body: []*gen.Stmt{asg("s", I(1))}}, {Val: I(2), Body: []*gen.Stmt{asg("s", I(2))}}, {Val: I(3), Body: []*gen.Stmt{asg("s", I(3))}}, {Body: []*gen.Stmt{asg("s", I(9))}}}}, ret(V("s"))),
		prog(decl("s", I(0)), &gen.Stmt{K: "switch", E: I(7), Cases: []gen.Case{{Val: I(1), Body: []*gen.Stmt{asg("s", I(1))}}, {Body: []*gen.Stmt{asg("s", I(9))}}}}, ret(V("s"))),
		prog(decl("s", I(0)), &gen.Stmt{K: "switch", E: I(7), Cases: []gen.Case{{Val: I(1), Body: []*gen.Stmt{asg("s", I(1))}}}}, ret(V("s"))),
		prog(iff(I(1), ret(I(1))), ret(I(2))), // non-bool condition: error
		prog(&gen.Stmt{K: "guard", E: bin(">", I(1), I(2)), Status: 404, Msg: "nope"}, ret(I(1))),
		prog(&gen.Stmt{K: "retst", E: &gen.Expr{K: "obj", Keys: []string{"x"}, A: []*gen.Expr{I(1)}}, Status: 201}),
	)
	return out
}

func c01RunOne(w *mon.W, p *gen.Prog, idx int, label string) {
	pattern, reqPath := p.RoutePath("/t")
	src := p.Source(pattern)
	want := ref.Run(p)
	if want.Kind == "outside" {
		w.Count("discarded_outside_reference", 1)
		return
	}
	nodes, kinds := p.Size()
	nt := nodes >= 12
	w.Case(mon.Hash(src), nt)
	for k := range kinds {
		w.Mark("constructs", k)
	}
	w.Count("expected_"+want.Kind, 1)
	if want.Kind == "value" {
		for name := range p.Calls() {
			if !(strings.HasPrefix(name, "fn") && len(name) > 2 && name[2] >= '0' && name[2] <= '9') {
				w.Mark("builtins_in_programs_with_a_value_expectation", name)
			}
		}
	}
	wit := func(got interface{}) map[string]interface{} {
		return map[string]interface{}{"family": label, "index": idx, "source": src, "request_path": reqPath, "reference": want, "observed": got}
	}
	mod, err := parseModule(src)
	if err != nil {
		w.Violate("parse-rejects-generated-program", "the parser rejects a program of the fragment: "+clipN(err.Error(), 200), wit(err.Error()))
		return
	}
	var first engOut
	w.Watch(fmt.Sprintf("%s program %d", label, idx), 20*time.Second, func() {
		first = runInterp(nil, mod, reqPath)
	})
	if first.Kind == "panic" {
		w.Violate("interpreter-panic", "the interpreter panicked: "+clipN(first.Err, 200), wit(first))
		return
	}
	if !sameOutcome(first, want) {
		w.Violate("outcome:"+c01Sig(p, first, want), fmt.Sprintf("interpreter gives %s, the reference %s", c01Show(first), c01ShowRef(want)), wit(first))
		return
	}
	// determinism: a second fresh interpreter, then the same interpreter again
	interp, err := newLoadedInterp(mod)
	if err == nil {
		second := runInterp(interp, mod, reqPath)
		third := runInterp(interp, mod, reqPath)
		if !sameEng(first, second) || !sameEng(first, third) {
			w.Violate("nondeterministic-outcome", fmt.Sprintf("three runs of one program differ: %s / %s / %s", c01Show(first), c01Show(second), c01Show(third)), wit([]engOut{first, second, third}))
		}
	}
	if idx%1500 == 1 {
		w.Sample(map[string]interface{}{"source": src, "outcome": first})
	}
}

// c01Sig: a coarse normal form of a disagreement: the outcome classes plus the set of
// operator / statement kinds in the program when it is small.
func c01Sig(p *gen.Prog, got engOut, want ref.Outcome) string {
	nodes, kinds := p.Size()
	s := got.Kind + "-vs-" + want.Kind
	if nodes <= 14 {
		var ks []string
		for k := range kinds {
			if k != "ret" && k != "e:obj" && k != "e:int" {
				ks = append(ks, strings.TrimPrefix(k, "e:"))
			}
		}
		sortStr(ks)
		s += ":" + strings.Join(ks, "+")
	}
	return s
}

func sortStr(s []string) {
	for i := 1; i < len(s); i++ {
		for j := i; j > 0 && s[j] < s[j-1]; j-- {
			s[j], s[j-1] = s[j-1], s[j]
		}
	}
}

func c01Show(o engOut) string {
	b, _ := json.Marshal(o.Val)
	return fmt.Sprintf("%s %s %s", o.Kind, clipN(string(b), 120), clipN(o.Err, 100))
}
func c01ShowRef(o ref.Outcome) string {
	b, _ := json.Marshal(o.Val)
	return fmt.Sprintf("%s %s %s", o.Kind, clipN(string(b), 120), o.Why)
}

// c01Session: the outcome of a request must not depend on what the same interpreter
// instance evaluated before (including evaluations that failed): a sequence of requests on
// one interpreter is compared, request by request, with fresh interpreters.
func c01Session(w *mon.W) {
	src := "! down(n: int!): int {\n  if n <= 0 {\n    > 0\n  }\n  > 1 + down(n - 1)\n}\n\n" +
		"@ GET /deep/:k {\n  > {x: down(parseInt(k))}\n}\n\n@ GET /div/:k {\n  $ z = 0\n  > {x: 1 / z}\n}\n\n@ GET /ok/:k {\n  > {x: 41 + 1}\n}\n\n@ GET /typ/:k {\n  > {x: k - 1}\n}\n"
	mod, err := parseModule(src)
	if err != nil {
		w.Violate("parse-rejects-generated-program", "session module rejected: "+err.Error(), src)
		return
	}
	routes := map[string]*ast.Route{}
	for _, it := range mod.Items {
		if r, ok := it.(*ast.Route); ok {
			routes[strings.Split(r.Path, "/")[1]] = r
		}
	}
	run := func(interp *interpreter.Interpreter, name string, k int) engOut {
		interpRouteOverride = routes[name]
		defer func() { interpRouteOverride = nil }()
		return runInterp(interp, mod, fmt.Sprintf("/%s/%d", name, k))
	}
	fresh := func(name string, k int) engOut {
		ip, _ := newLoadedInterp(mod)
		return run(ip, name, k)
	}
	// largest recursion depth a fresh interpreter accepts
	lo, hi := 1, 2000
	if fresh("deep", lo).Kind != "value" {
		w.Inconclusive("session: even down(1) fails")
		return
	}
	for lo < hi {
		mid := (lo + hi + 1) / 2
		if fresh("deep", mid).Kind == "value" {
			lo = mid
		} else {
			hi = mid - 1
		}
	}
	kmax := lo
	w.Count("session_max_depth_argument", kmax)
	type step struct {
		name string
		k    int
	}
	seqs := [][]step{
		{{"deep", kmax}, {"deep", kmax + 300}, {"deep", kmax + 1}, {"deep", kmax + 300}, {"deep", kmax}, {"ok", 1}},
		{{"div", 1}, {"div", 1}, {"typ", 1}, {"deep", kmax}, {"ok", 1}, {"deep", kmax + 1}, {"deep", kmax}},
		{{"deep", kmax + 5000}, {"deep", kmax}, {"typ", 2}, {"deep", kmax}},
	}
	for si, seq := range seqs {
		ip, _ := newLoadedInterp(mod)
		for k := 0; k < 3; k++ { // repeat the sequence so that leaks accumulate
			for _, st := range seq {
				got := run(ip, st.name, st.k)
				want := fresh(st.name, st.k)
				w.Case(fmt.Sprintf("session-%d-%s-%d-%d", si, st.name, st.k, k), true)
				if !sameEng(got, want) {
					w.Violate("outcome-depends-on-earlier-requests", fmt.Sprintf("GET /%s/%d on an interpreter that served %d earlier requests gives %s; on a fresh interpreter %s", st.name, st.k, k*len(seq), c01Show(got), c01Show(want)),
						map[string]interface{}{"source": src, "sequence": seq, "max_depth_argument": kmax})
					return
				}
			}
		}
	}
}

func c01Worker(in, out string) {
	w := mon.OpenWorker(in, out)
	var p c01Params
	json.Unmarshal(w.Params, &p)
	if p.Family == "session" {
		w.Begin(0)
		c01Session(w)
		w.Done()
		return
	}
	if p.Family == "directed" {
		ds := c01Directed()
		for i := w.From; i < w.To && i < len(ds); i++ {
			w.Begin(i)
			c01RunOne(w, ds[i], i, "directed")
		}
		w.Done()
		return
	}
	for i := w.From; i < w.To; i++ {
		w.Begin(i)
		rng := w.Rand("prog", i)
		f := gen.FullInterp()
		c01Profile(rng, &f)
		g := gen.New(rng, f)
		prog := g.Program(2 + rng.Intn(7))
		c01RunOne(w, prog, i, "random")
	}
	w.Done()
}

// c01Profile varies the feature mix so that different cases stress different constructs.
func c01Profile(rng *rand.Rand, f *gen.Features) {
	switch rng.Intn(5) {
	case 0:
		f.IllTyped = 0
		f.IndexOOR = false
	case 1:
		f.IllTyped = 12
	case 2:
		f.UserFuncs = false
		f.Match = false
	}
	f.LoopVarShadow = false
	f.StrOrder = false // ordering on strings: the engines disagree and the documentation is silent
}

func checkC01(tier string) {
	r := mon.New("C01", tier, "exploration")
	r.Rule = "abstract programs (G-prog: int/float/str/bool/array/object expressions, 13 binary and 2 unary operators with int/float coercion, && || short circuit, field/index access, 14 builtins, match expressions, user functions; statements: declaration, assignment, if/else-if/else, bounded while, for / indexed for, switch, break/continue, nested return, status return, guards) printed to source with minimal + redundant parentheses, run by the interpreter and compared with the reference evaluator; plus directed families (all arithmetic operator pairs in both tree shapes, arithmetic x comparison x logic, coercion matrix, scoping, control flow); each program also runs 3 times for determinism. distinct = source text hash; non-trivial = >= 12 AST nodes"
	r.Assume("fragment only: modules/imports, macros, generics, traits, lambdas, pipes, async, object iteration order, string ordering, == on arrays/objects are not generated (see DESIGN appendix A)")
	nd := len(c01Directed())
	r.Set("directed_programs", nd)
	onDeath := func(i int, co mon.ChildOut, hang *mon.Rec) bool {
		if hang != nil {
			r.Violate("interpreter-does-not-terminate", "a terminating program did not finish within 20 s: "+hang.Desc, map[string]interface{}{"case": i})
			return true
		}
		r.Violate("interpreter-kills-process:"+co.Death, "worker died: "+mon.PanicExcerpt(co.Tail, 10), map[string]interface{}{"case": i})
		return true
	}
	r.RunBatch(mon.Batch{Worker: "c01", Tag: "directed", N: nd, Chunk: (nd + 7) / 8, Parallel: 8, Params: c01Params{Family: "directed"}, Timeout: 10 * time.Minute, OnDeath: onDeath})
	r.RunBatch(mon.Batch{Worker: "c01", Tag: "session", N: 1, Chunk: 1, Parallel: 1, Params: c01Params{Family: "session"}, Timeout: 10 * time.Minute, OnDeath: onDeath})
	n := r.Pick(150000, 3000000)
	r.RunBatch(mon.Batch{Worker: "c01", N: n, Chunk: (n + 15) / 16, Parallel: 16, Params: c01Params{Family: "random"}, Timeout: 40 * time.Minute, MemKB: 8 << 20, OnDeath: onDeath})
	r.Floor(1000)
	r.Finish()
}
