package main

// H-http: parent side of the white-box HTTP worker injected into cmd/glyph
// (overlays/cmdglyph_worker_test.go).

import (
	"encoding/json"
	"fmt"
	"os"
	"path/filepath"
	"sync"
	"time"

	"verifharness/mon"
)

type HReq struct {
	M      string              `json:"m"`
	P      string              `json:"p"`
	H      map[string][]string `json:"h,omitempty"`
	B      *string             `json:"b,omitempty"`
	Remote string              `json:"remote,omitempty"`
	T      int64               `json:"t,omitempty"`
}

type HJob struct {
	ID     int               `json:"id"`
	Src    string            `json:"src"`
	Interp bool              `json:"interp"`
	Env    map[string]string `json:"env,omitempty"`
	Reqs   []HReq            `json:"reqs"`
	TCP    bool              `json:"tcp,omitempty"`
	Conc   int               `json:"conc,omitempty"`
	Rounds int               `json:"rounds,omitempty"`
	WatchS int               `json:"watch_s,omitempty"`
	Files  map[string]string `json:"files,omitempty"`
	Pre    []HReq            `json:"pre,omitempty"`
	PauseMs int              `json:"pause_ms,omitempty"`
}

type HResp struct {
	S       int    `json:"s"`
	B       string `json:"b"`
	CT      string `json:"ct,omitempty"`
	Loc     string `json:"loc,omitempty"`
	Panic   string `json:"panic,omitempty"`
	Dropped bool   `json:"dropped,omitempty"`
	Unsent  string `json:"unsent,omitempty"`
	Trunc   bool   `json:"trunc,omitempty"`
	T0      int64  `json:"t0,omitempty"`
	T1      int64  `json:"t1,omitempty"`
}

type HOut struct {
	Ev       string   `json:"ev"`
	ID       int      `json:"id"`
	ParseErr string   `json:"parse_err,omitempty"`
	SetupErr string   `json:"setup_err,omitempty"`
	Compiled bool     `json:"compiled"`
	Resps    []HResp  `json:"resps,omitempty"`
	Hang     string   `json:"hang,omitempty"`
	Stacks   []string `json:"stacks,omitempty"`
	ReqIndex int      `json:"req_index,omitempty"`
	Gor      int      `json:"goroutines,omitempty"`
	Pre      []HResp  `json:"pre,omitempty"`
	// filled by the parent when the worker process died while running this job
	Died  string `json:"died,omitempty"`
	Death string `json:"death_excerpt,omitempty"`
}

func sp(s string) *string { return &s }

var httpBuildMu sync.Mutex
var httpBuilt = map[string]string{}

func httpWorkerBin(race bool) (string, error) {
	httpBuildMu.Lock()
	defer httpBuildMu.Unlock()
	name := "glyphmain.test"
	var flags []string
	if race {
		name = "glyphmain.race.test"
		flags = []string{"-race"}
	}
	if p, ok := httpBuilt[name]; ok {
		return p, nil
	}
	p, err := mon.BuildOverlayTest("cmd/glyph", name, map[string]string{
		"zz_verif_worker_test.go": filepath.Join(mon.SrcDir(), "overlays", "cmdglyph_worker_test.go"),
		"zz_verif_dev_test.go":    filepath.Join(mon.SrcDir(), "overlays", "cmdglyph_dev_test.go"),
	}, flags...)
	if err == nil {
		httpBuilt[name] = p
	}
	return p, err
}

func init() {
	prewarms = append(prewarms, func() {
		if _, err := httpWorkerBin(false); err != nil {
			fmt.Fprintln(os.Stderr, "prewarm glyphmain.test:", err)
		}
		if _, err := httpWorkerBin(true); err != nil {
			fmt.Fprintln(os.Stderr, "prewarm glyphmain.race.test:", err)
		}
	})
}

type HRunOpts struct {
	Tag      string
	Parallel int
	Timeout  time.Duration
	Env      []string
	Race     bool
	MemKB    int64
}

// httpRun executes the jobs in child processes and returns one HOut per job id.
// A job during which the worker died gets Died set and the remaining jobs are resumed
// in a fresh child.
func httpRun(r *mon.Run, jobs []HJob, o HRunOpts) (map[int]*HOut, error) {
	bin, err := httpWorkerBin(o.Race)
	if err != nil {
		return nil, err
	}
	if o.Parallel <= 0 {
		o.Parallel = 16
	}
	if o.Timeout == 0 {
		o.Timeout = 20 * time.Minute
	}
	if o.Tag == "" {
		o.Tag = "http"
	}
	dir := filepath.Join(mon.BuildDir(), "run", r.Prop)
	os.MkdirAll(dir, 0o755)
	tmp := filepath.Join(mon.BuildDir(), "tmp")
	os.MkdirAll(tmp, 0o755)
	res := map[int]*HOut{}
	var mu sync.Mutex
	chunks := make([][]HJob, o.Parallel)
	for i, j := range jobs {
		chunks[i%o.Parallel] = append(chunks[i%o.Parallel], j)
	}
	var wg sync.WaitGroup
	for ci, chunk := range chunks {
		if len(chunk) == 0 {
			continue
		}
		wg.Add(1)
		go func(ci int, chunk []HJob) {
			defer wg.Done()
			rest := chunk
			for attempt := 0; len(rest) > 0 && attempt < 40; attempt++ {
				base := filepath.Join(dir, fmt.Sprintf("%s-%d-%d", o.Tag, ci, attempt))
				jw, err := mon.NewJSONLWriter(base + ".jobs")
				if err != nil {
					return
				}
				for _, j := range rest {
					jw.Write(j)
				}
				jw.Close()
				os.Remove(base + ".out")
				co := mon.Child{Bin: bin, Args: []string{"-test.run", "^TestVerifWorker$", "-test.timeout", "0"},
					Env:     append([]string{"VERIF_JOBS=" + base + ".jobs", "VERIF_OUT=" + base + ".out", "VERIF_TMP=" + tmp}, o.Env...),
					Timeout: o.Timeout, MemKB: o.MemKB, Log: base + ".log", Dir: tmp}.Run()
				lastBegin := -1
				doneIDs := map[int]bool{}
				finished := false
				mon.ReadJSONL(base+".out", func(raw []byte) {
					var probe struct {
						Ev string `json:"ev"`
						ID int    `json:"id"`
					}
					if json.Unmarshal(raw, &probe) != nil {
						return
					}
					switch probe.Ev {
					case "begin":
						lastBegin = probe.ID
					case "result", "hang":
						var ho HOut
						if json.Unmarshal(raw, &ho) == nil {
							mu.Lock()
							res[ho.ID] = &ho
							mu.Unlock()
							doneIDs[ho.ID] = true
						}
					case "done":
						finished = true
					}
				})
				if finished {
					os.Remove(base + ".jobs")
					os.Remove(base + ".out")
					os.Remove(base + ".log")
					return
				}
				// the child ended early: attribute to the last begun job without a result
				if lastBegin >= 0 && !doneIDs[lastBegin] {
					mu.Lock()
					res[lastBegin] = &HOut{Ev: "died", ID: lastBegin, Died: co.Death, Death: mon.PanicExcerpt(co.Tail, 14)}
					mu.Unlock()
					doneIDs[lastBegin] = true
				} else if lastBegin < 0 {
					r.Inconclusive(fmt.Sprintf("http worker ended before its first job (%s): %s", co.Death, mon.PanicExcerpt(co.Tail, 8)))
					return
				}
				var next []HJob
				for _, j := range rest {
					if !doneIDs[j.ID] {
						next = append(next, j)
					}
				}
				rest = next
			}
		}(ci, chunk)
	}
	wg.Wait()
	return res, nil
}
