package main

// C13 — Generated SQL is injection-free.
//
// Monitors over every query-building entry point of every driver:
//  (a) reach monitor: a statement that reaches the database although one of the
//      supplied identifier / operator / direction / join-type / column-type strings is
//      outside the safe grammar (restated independently here) is a violation;
//  (b) skeleton monitor: the token skeleton of the statement built from hostile-but-
//      accepted strings equals the skeleton built from benign strings in the same slots,
//      every supplied identifier appears exactly as one quoted token;
//  (c) value independence: changing only values never changes the SQL text, and the
//      values travel in args;
//  (d) state monitor: against a real in-memory SQLite with a sentinel table, the set of
//      tables, the sentinel rows and the target table's columns match the model.
// Postgres/MySQL helpers run against a recording database/sql driver (statement text only).

import (
	"context"
	"database/sql"
	"database/sql/driver"
	"fmt"
	"io"
	"math/rand"
	"reflect"
	"regexp"
	"sort"
	"strings"
	"sync"
	"unsafe"

	"github.com/glyphlang/glyph/pkg/database"
	"modernc.org/sqlite"

	"verifharness/mon"
)

func init() { checks["C13"] = checkC13 }

// ---------------------------------------------------------------- recording driver

type recStmt struct {
	SQL  string
	Args []interface{}
}

type recorder struct {
	mu    sync.Mutex
	stmts []recStmt
}

func (r *recorder) add(q string, args []driver.NamedValue) {
	a := make([]interface{}, len(args))
	for i, v := range args {
		a[i] = v.Value
	}
	r.mu.Lock()
	r.stmts = append(r.stmts, recStmt{q, a})
	r.mu.Unlock()
}
func (r *recorder) take() []recStmt {
	r.mu.Lock()
	defer r.mu.Unlock()
	s := r.stmts
	r.stmts = nil
	return s
}

var theRecorder = &recorder{}

type recDriver struct{}
type recConn struct{}
type recTx struct{}
type recRows struct{}
type recResult struct{}

func (recDriver) Open(string) (driver.Conn, error)            { return recConn{}, nil }
func (recConn) Prepare(q string) (driver.Stmt, error)          { return nil, fmt.Errorf("prepare not supported by the recording driver") }
func (recConn) Close() error                                   { return nil }
func (recConn) Begin() (driver.Tx, error)                      { return recTx{}, nil }
func (recTx) Commit() error                                    { return nil }
func (recTx) Rollback() error                                  { return nil }
func (recRows) Columns() []string                              { return []string{"c"} }
func (recRows) Close() error                                   { return nil }
func (recRows) Next([]driver.Value) error                      { return io.EOF }
func (recResult) LastInsertId() (int64, error)                 { return 1, nil }
func (recResult) RowsAffected() (int64, error)                 { return 1, nil }
func (recConn) CheckNamedValue(nv *driver.NamedValue) error    { return nil } // accept any value type
func (recConn) ExecContext(_ context.Context, q string, a []driver.NamedValue) (driver.Result, error) {
	theRecorder.add(q, a)
	return recResult{}, nil
}
func (recConn) QueryContext(_ context.Context, q string, a []driver.NamedValue) (driver.Rows, error) {
	theRecorder.add(q, a)
	return recRows{}, nil
}

// spyDriver wraps the real (modernc) SQLite driver and records every statement text
// on its way into the database, including those the driver helpers send through the
// unexported *sql.DB.
type spyDriver struct{ inner driver.Driver }
type spyConn struct{ driver.Conn }

func (d spyDriver) Open(name string) (driver.Conn, error) {
	c, err := d.inner.Open(name)
	if err != nil {
		return nil, err
	}
	return spyConn{c}, nil
}
func (c spyConn) ExecContext(ctx context.Context, q string, a []driver.NamedValue) (driver.Result, error) {
	theRecorder.add(q, a)
	return c.Conn.(driver.ExecerContext).ExecContext(ctx, q, a)
}
func (c spyConn) QueryContext(ctx context.Context, q string, a []driver.NamedValue) (driver.Rows, error) {
	theRecorder.add(q, a)
	return c.Conn.(driver.QueryerContext).QueryContext(ctx, q, a)
}
func (c spyConn) BeginTx(ctx context.Context, o driver.TxOptions) (driver.Tx, error) {
	return c.Conn.(driver.ConnBeginTx).BeginTx(ctx, o)
}
func (c spyConn) PrepareContext(ctx context.Context, q string) (driver.Stmt, error) {
	theRecorder.add(q, nil)
	return c.Conn.(driver.ConnPrepareContext).PrepareContext(ctx, q)
}
func (c spyConn) Ping(ctx context.Context) error {
	if p, ok := c.Conn.(driver.Pinger); ok {
		return p.Ping(ctx)
	}
	return nil
}
func (c spyConn) ResetSession(ctx context.Context) error {
	if p, ok := c.Conn.(driver.SessionResetter); ok {
		return p.ResetSession(ctx)
	}
	return nil
}
func (c spyConn) IsValid() bool {
	if p, ok := c.Conn.(driver.Validator); ok {
		return p.IsValid()
	}
	return true
}

var spyOnce sync.Once

// openSpySQLite returns an in-memory SQLite handle whose statements are recorded.
func openSpySQLite() (*sql.DB, error) {
	spyOnce.Do(func() { sql.Register("verifsqlite", spyDriver{&sqlite.Driver{}}) })
	db, err := sql.Open("verifsqlite", ":memory:?_pragma=foreign_keys(1)")
	if err != nil {
		return nil, err
	}
	db.SetMaxOpenConns(1)
	db.SetMaxIdleConns(1)
	return db, db.Ping()
}

var recOnce sync.Once

func recDB() *sql.DB {
	recOnce.Do(func() { sql.Register("verifrec", recDriver{}) })
	db, _ := sql.Open("verifrec", "")
	return db
}

// setUnexportedDB points the unexported `db *sql.DB` field of a driver struct at h.
func setUnexportedDB(target interface{}, h *sql.DB) error {
	v := reflect.ValueOf(target).Elem()
	f := v.FieldByName("db")
	if !f.IsValid() {
		return fmt.Errorf("%T has no field db", target)
	}
	reflect.NewAt(f.Type(), unsafe.Pointer(f.UnsafeAddr())).Elem().Set(reflect.ValueOf(h))
	return nil
}

// ---------------------------------------------------------------- SQL skeleton lexer

type sqlTok struct{ kind, text string }

// lexSQL splits a statement into tokens. quote is '"' or '`'.
func lexSQL(s string, quote byte) []sqlTok {
	var out []sqlTok
	i := 0
	for i < len(s) {
		c := s[i]
		switch {
		case c == ' ' || c == '\t' || c == '\n' || c == '\r':
			i++
		case c == quote:
			j := i + 1
			for j < len(s) && s[j] != quote {
				j++
			}
			if j < len(s) {
				j++
			}
			out = append(out, sqlTok{"ident", s[i:j]})
			i = j
		case c == '\'':
			j := i + 1
			for j < len(s) && s[j] != '\'' {
				j++
			}
			if j < len(s) {
				j++
			}
			out = append(out, sqlTok{"string", s[i:j]})
			i = j
		case c == '-' && i+1 < len(s) && s[i+1] == '-':
			out = append(out, sqlTok{"comment", "--"})
			for i < len(s) && s[i] != '\n' {
				i++
			}
		case c == '/' && i+1 < len(s) && s[i+1] == '*':
			out = append(out, sqlTok{"comment", "/*"})
			i += 2
		case c == '$' || c == '?':
			j := i + 1
			for j < len(s) && s[j] >= '0' && s[j] <= '9' {
				j++
			}
			out = append(out, sqlTok{"param", "P"})
			i = j
		case c >= '0' && c <= '9':
			j := i
			for j < len(s) && (s[j] >= '0' && s[j] <= '9' || s[j] == '.') {
				j++
			}
			out = append(out, sqlTok{"num", "N"})
			i = j
		case c == '_' || c >= 'a' && c <= 'z' || c >= 'A' && c <= 'Z' || c >= 0x80:
			j := i
			for j < len(s) && (s[j] == '_' || s[j] >= 'a' && s[j] <= 'z' || s[j] >= 'A' && s[j] <= 'Z' || s[j] >= '0' && s[j] <= '9' || s[j] >= 0x80) {
				j++
			}
			out = append(out, sqlTok{"word", strings.ToUpper(s[i:j])})
			i = j
		default:
			// multi-char operators
			if i+1 < len(s) && (s[i:i+2] == "<=" || s[i:i+2] == ">=" || s[i:i+2] == "<>" || s[i:i+2] == "!=") {
				out = append(out, sqlTok{"punct", s[i : i+2]})
				i += 2
			} else {
				out = append(out, sqlTok{"punct", string(c)})
				i++
			}
		}
	}
	return out
}

// c13PlaceholderAgreement: every bound argument meets exactly one placeholder. For $n
// placeholders the numbers used must be 1..k, each once, with k = len(args); for ? the
// count must equal len(args). A statement whose placeholders do not line up with its
// arguments binds a caller's value to another column than the one it was given for.
func c13PlaceholderAgreement(sql string, nargs int) string {
	var nums []int
	q := 0
	inIdent, inStr := byte(0), false
	for i := 0; i < len(sql); i++ {
		c := sql[i]
		switch {
		case inStr:
			if c == '\'' {
				inStr = false
			}
		case inIdent != 0:
			if c == inIdent {
				inIdent = 0
			}
		case c == '\'':
			inStr = true
		case c == '"' || c == '`':
			inIdent = c
		case c == '?':
			q++
		case c == '$':
			j := i + 1
			n := 0
			for j < len(sql) && sql[j] >= '0' && sql[j] <= '9' {
				n = n*10 + int(sql[j]-'0')
				j++
			}
			if j > i+1 {
				nums = append(nums, n)
			}
			i = j - 1
		}
	}
	if len(nums) > 0 && q > 0 {
		return fmt.Sprintf("mixes %d numbered and %d positional placeholders", len(nums), q)
	}
	if q > 0 || (len(nums) == 0 && nargs > 0) {
		if q != nargs {
			return fmt.Sprintf("%d positional placeholders for %d arguments", q, nargs)
		}
		return ""
	}
	seen := map[int]int{}
	for _, n := range nums {
		seen[n]++
	}
	for n, c := range seen {
		if n < 1 || n > nargs {
			return fmt.Sprintf("placeholder $%d with %d arguments", n, nargs)
		}
		if c > 1 {
			return fmt.Sprintf("placeholder $%d is used %d times (arguments: %d)", n, c, nargs)
		}
	}
	if len(seen) != nargs {
		return fmt.Sprintf("%d distinct placeholders for %d arguments", len(seen), nargs)
	}
	return ""
}

func skeleton(toks []sqlTok) string {
	var b []string
	for _, t := range toks {
		switch t.kind {
		case "ident":
			b = append(b, "ID")
		default:
			b = append(b, t.text)
		}
	}
	return strings.Join(b, " ")
}

// ---------------------------------------------------------------- safe grammar, restated

var c13Ident = regexp.MustCompile(`\A[A-Za-z_][A-Za-z0-9_]*\z`)
var c13Ops = map[string]bool{"=": true, "!=": true, "<>": true, "<": true, ">": true, "<=": true, ">=": true, "LIKE": true, "ILIKE": true, "IN": true, "NOT IN": true, "IS": true, "IS NOT": true}
var c13Joins = map[string]bool{"INNER": true, "LEFT": true, "RIGHT": true, "FULL": true}
var c13TypeChars = regexp.MustCompile(`\A[A-Za-z][A-Za-z0-9_ (),.]*\z`)

// typeIsOneDefinition: a column type may not contain a top-level comma nor close a
// parenthesis it did not open (either would add a definition or end the column list).
func typeIsOneDefinition(t string) bool {
	if !c13TypeChars.MatchString(t) {
		return false
	}
	d := 0
	for _, c := range t {
		switch c {
		case '(':
			d++
		case ')':
			d--
			if d < 0 {
				return false
			}
		case ',':
			if d == 0 {
				return false
			}
		}
	}
	return d == 0
}

// ---------------------------------------------------------------- slots

// A c13Case fills the slots of one entry point.
type c13Case struct {
	Entry   string            `json:"entry"`
	Dialect string            `json:"dialect"`
	Idents  map[string]string `json:"identifiers"`
	Op      string            `json:"operator,omitempty"`
	Dir     string            `json:"direction,omitempty"`
	Join    string            `json:"join_type,omitempty"`
	Type    string            `json:"column_type,omitempty"`
	Values  []string          `json:"values"`
}

var c13Hostile = []string{
	`x"; DROP TABLE sentinel; --`, `x" OR "1"="1`, `"`, `""`, `a"b`, `a'b`, `'; DELETE FROM sentinel; --`, `a;b`, `a--b`, `a/*b*/c`, "a\x00b", "a\nb", "a b", `a\b`, `a.b`, `sentinel"."secret`,
	"a”b", "a＂b", "a；b", ";", "1abc", "", " ", "*", "a,b", "a`b", "`", "a)b", "(a", "a=b", "id; --", "id\n", "id ", " id", "id\t", "ID\r", "naïve", "имя", "a\u0000", "\xff\xfe", "a%b", "a$1", "$1", "?", "a?b",
	"u\u017fers", "\u212aeys", "pa\u017f\u017fword", "\u212a", "\u017f", "ıd", "İd", "ǅ", "ﬁeld", "id\u0307",
	"select", "table", "drop", "null", "order", "group", "union", "where", "from", "values", "set", "and", "or", "not", "_x", "a1", "A_B_c9", "x" + strings.Repeat("y", 300),
}

func c13Str(rng *rand.Rand) string {
	switch rng.Intn(10) {
	case 0, 1, 2, 3:
		return c13Hostile[rng.Intn(len(c13Hostile))]
	case 4:
		return "c" + fmt.Sprint(rng.Intn(50))
	case 5:
		// mutate a valid identifier by inserting one hostile character
		b := "col" + fmt.Sprint(rng.Intn(9))
		ch := []string{`"`, `'`, ";", "-", " ", "\x00", "\n", "`", ")", "(", ",", ".", "\\", "/", "*", "”", "=", "\t"}[rng.Intn(18)]
		p := rng.Intn(len(b) + 1)
		return b[:p] + ch + b[p:]
	case 6:
		return strings.Repeat(c13Hostile[rng.Intn(len(c13Hostile))], 1+rng.Intn(3))
	case 7:
		return "x" + strings.Repeat("a", 100000)
	default:
		return c13Hostile[rng.Intn(len(c13Hostile))] + c13Hostile[rng.Intn(len(c13Hostile))]
	}
}

var c13OpPool = []string{"=", "!=", "<>", "<", ">", "<=", ">=", "LIKE", "like", " Like ", "ILIKE", "IN", "NOT IN", "not in", "IS", "IS NOT", "==", "= 1 OR 1", "=;", "= $1; --", "LIKE '%'", "OR", "AND 1=1 OR", "", " ", "=\x00", "NOT  IN", "IS  NOT", "=--", "=", "＝", "BETWEEN", "~", "||", "= ANY", "IN (SELECT secret FROM sentinel) OR id ="}
var c13DirPool = []string{"ASC", "DESC", "asc", "Desc", "", " ", "ASC;", "ASC, secret", "DESC NULLS FIRST", "ASC--", "RANDOM()", "1", "ASC\n", "ASC /*x*/", "ASC", "ＡＳＣ", "ASC , (SELECT 1)", "DESC LIMIT 1"}
var c13JoinPool = []string{"INNER", "LEFT", "RIGHT", "FULL", "inner", "Left", "CROSS", "NATURAL", "", "INNER JOIN sentinel --", "LEFT OUTER", "INNER;", "FULL OUTER", "INNER\n", "，", "LEFT\x00"}
var c13TypeBase = []string{"TEXT", "INTEGER", "VARCHAR(255)", "NUMERIC(10, 2)", "DECIMAL(10,2)", "BOOLEAN", "TIMESTAMP", "INT", "BIGINT", "DOUBLE PRECISION", "VARCHAR(100) NOT NULL", "INTEGER PRIMARY KEY", "TIMESTAMP DEFAULT CURRENT_TIMESTAMP"}
var c13TypeTail = []string{"", ", extra TEXT", "), (x", ") ; DROP TABLE sentinel", ", secret TEXT, y INT", " , z TEXT", ")", "(", "()", ",", " REFERENCES sentinel(secret)", "(1), extra TEXT", ") WITHOUT ROWID", " -- x", "; --", "'", "\"", "\x00", " DEFAULT (1), b TEXT", "(1,2), c INT", " CHECK (1), d INT", ".x", " , ", "(10, 2)", " NOT NULL", " UNIQUE", " , e"}

func c13Type(rng *rand.Rand) string {
	switch rng.Intn(6) {
	case 0:
		return c13TypeBase[rng.Intn(len(c13TypeBase))]
	case 1:
		return c13Hostile[rng.Intn(len(c13Hostile))]
	case 2:
		// random string over the admitted alphabet around a valid base
		alpha := "abcXYZ019_ (),."
		var b strings.Builder
		b.WriteString([]string{"TEXT", "INT", "VARCHAR", "text"}[rng.Intn(4)])
		for i := rng.Intn(20); i > 0; i-- {
			b.WriteByte(alpha[rng.Intn(len(alpha))])
		}
		return b.String()
	default:
		return c13TypeBase[rng.Intn(len(c13TypeBase))] + c13TypeTail[rng.Intn(len(c13TypeTail))]
	}
}

var c13Values = []string{`v`, `x'; DROP TABLE sentinel; --`, `" OR ""="`, `'`, `''`, "a\x00b", `\`, `%`, `1; DELETE FROM sentinel`, "’", strings.Repeat("'", 50), `$1`, `?`, `NULL`, `1 OR 1=1`, "line1\nline2", `/* */`, `--`}

type c13Env struct {
	dialect string
	quote   byte
	db      database.Database // what ORM/handlers talk to
	drv     interface{}       // *PostgresDB / *MySQLDB / *SQLiteDB for helper calls
	real    *database.SQLiteDB
}

// c13Run executes the entry point of cs against env and returns the recorded statements.
func c13Run(env *c13Env, cs c13Case, vals []string) (stmts []recStmt, panicked interface{}) {
	theRecorder.take()
	defer func() {
		if e := recover(); e != nil {
			panicked = e
		}
		stmts = theRecorder.take()
	}()
	ctx := context.Background()
	id := func(k string) string { return cs.Idents[k] }
	v := func(i int) interface{} {
		if i < len(vals) {
			return vals[i]
		}
		return "v"
	}
	orm := database.NewORM(env.db, id("table"))
	th := database.NewHandler(env.db).Table(id("table"))
	type helper interface {
		BulkInsert(ctx context.Context, table string, columns []string, values [][]interface{}) error
		CreateTable(ctx context.Context, table string, schema map[string]string) error
		DropTable(ctx context.Context, table string) error
		TableExists(ctx context.Context, table string) (bool, error)
		GetLastInsertID(ctx context.Context, table string, idColumn string) (int64, error)
	}
	h, _ := env.drv.(helper)
	switch cs.Entry {
	case "qb.select":
		orm.NewQueryBuilder().Select(id("col"), id("col2")).Get(ctx)
	case "qb.reuse":
		// one builder used for several queries: what an earlier, successful Build looked at says nothing about what a
		// later Select / Where / Join / OrderBy hands over
		cols := []string{"id", "name"}
		qb := orm.NewQueryBuilder().Select(cols...).WhereEq("id", v(0))
		qb.Get(ctx)
		qb.Select(id("col"), id("col2")).Get(ctx)
		qb2 := orm.NewQueryBuilder().Select(cols...)
		qb2.First(ctx)
		cols[0] = id("col") // the caller's slice edited after the first query
		qb2.Get(ctx)
		qb3 := orm.NewQueryBuilder().WhereEq("id", v(0)).OrderBy("id", "ASC")
		qb3.Get(ctx)
		qb3.Where(id("col2"), "=", v(1)).OrderBy(id("col"), "DESC").Get(ctx)
	case "qb.where":
		orm.NewQueryBuilder().Where(id("col"), cs.Op, v(0)).Where(id("col2"), "=", v(1)).Get(ctx)
	case "qb.wherelist":
		// a list value (IN-style) followed by further conditions: however a list is rendered,
		// every later value must still meet its own placeholder
		list := []interface{}{v(0), v(1), "third"}[:1+len(vals[0])%3]
		orm.NewQueryBuilder().Where(id("col"), cs.Op, list).Where(id("col2"), "=", v(1)).WhereEq(id("col"), "tail").Get(ctx)
	case "qb.orderby":
		orm.NewQueryBuilder().OrderBy(id("col"), cs.Dir).Limit(3).Offset(1).Get(ctx)
	case "qb.join":
		orm.NewQueryBuilder().Join(cs.Join, id("table2"), id("col"), id("col2")).WhereEq(id("col"), v(0)).Get(ctx)
	case "qb.first":
		orm.NewQueryBuilder().WhereEq(id("col"), v(0)).First(ctx)
	case "orm.create":
		orm.Create(ctx, map[string]interface{}{id("col"): v(0)})
	case "orm.update":
		orm.Update(ctx, v(1), map[string]interface{}{id("col"): v(0)})
	case "orm.delete":
		orm.Delete(ctx, v(0))
	case "orm.count":
		orm.Count(ctx, database.WhereCondition{Column: id("col"), Operator: cs.Op, Value: v(0)})
	case "orm.exists":
		orm.Exists(ctx, database.WhereCondition{Column: id("col"), Operator: cs.Op, Value: v(0)})
	case "orm.findbyid":
		orm.FindByID(ctx, v(0))
	case "orm.findall":
		orm.FindAll(ctx)
	case "th.get":
		th.Get(v(0))
	case "th.create":
		th.Create(map[string]interface{}{id("col"): v(0), id("col2"): v(1)})
	case "th.update":
		th.Update(v(1), map[string]interface{}{id("col"): v(0)})
	case "th.delete":
		th.Delete(v(0))
	case "th.count":
		th.Count(id("col"), v(0))
	case "th.countwhere":
		th.CountWhere(id("col"), v(0), id("col2"), v(1))
	case "th.filter":
		th.Filter(id("col"), v(0))
	case "th.exists":
		th.Exists(id("col"), v(0))
	case "th.where":
		th.Where(id("col"), cs.Op, v(0)).Get(ctx)
	case "th.findwhere":
		th.FindWhere(id("col"), v(0))
	case "th.first":
		th.First()
	case "th.last":
		th.Last()
	case "th.length":
		th.Length()
	case "th.nextid":
		th.NextId()
	case "th.all":
		th.All()
	case "drv.bulkinsert":
		h.BulkInsert(ctx, id("table"), []string{id("col"), id("col2")}, [][]interface{}{{v(0), v(1)}, {v(1), v(0)}})
	case "drv.createtable":
		h.CreateTable(ctx, id("table"), map[string]string{id("col"): cs.Type})
	case "drv.droptable":
		h.DropTable(ctx, id("table"))
	case "drv.tableexists":
		h.TableExists(ctx, id("table"))
	case "drv.lastinsertid":
		h.GetLastInsertID(ctx, id("table"), id("col"))
	}
	return
}

var c13Entries = []string{"qb.select", "qb.reuse", "qb.where", "qb.wherelist", "qb.orderby", "qb.join", "qb.first", "orm.create", "orm.update", "orm.delete", "orm.count", "orm.exists", "orm.findbyid", "orm.findall",
	"th.get", "th.create", "th.update", "th.delete", "th.count", "th.countwhere", "th.filter", "th.exists", "th.where", "th.findwhere", "th.first", "th.last", "th.length", "th.nextid", "th.all",
	"drv.bulkinsert", "drv.createtable", "drv.droptable", "drv.tableexists", "drv.lastinsertid"}

// identSlots lists which identifier slots an entry uses, and which of them are
// bound as *values* (not identifiers) by the entry point.
func c13Slots(entry string) (idents []string, usesOp, usesDir, usesJoin, usesType bool) {
	switch entry {
	case "qb.select", "qb.reuse":
		return []string{"table", "col", "col2"}, false, false, false, false
	case "qb.where", "qb.wherelist":
		return []string{"table", "col", "col2"}, true, false, false, false
	case "qb.orderby":
		return []string{"table", "col"}, false, true, false, false
	case "qb.join":
		return []string{"table", "table2", "col", "col2"}, false, false, true, false
	case "orm.count", "orm.exists", "th.where":
		return []string{"table", "col"}, true, false, false, false
	case "qb.first", "orm.create", "orm.update", "th.update", "th.count", "th.filter", "th.exists", "th.findwhere":
		return []string{"table", "col"}, false, false, false, false
	case "th.create", "th.countwhere", "drv.bulkinsert":
		return []string{"table", "col", "col2"}, false, false, false, false
	case "drv.createtable":
		return []string{"table", "col"}, false, false, false, true
	case "drv.lastinsertid":
		return []string{"table", "col"}, false, false, false, false
	case "drv.tableexists":
		return nil, false, false, false, false // the table name is a bound value here
	default:
		return []string{"table"}, false, false, false, false
	}
}

func checkC13(tier string) {
	r := mon.New("C13", tier, "exploration")
	r.Rule = "every query-building entry point (QueryBuilder Select/Where/OrderBy/Join/First, ORM Create/Update/Delete/Count/Exists/FindByID/FindAll, 15 TableHandler methods, and per driver BulkInsert/CreateTable/DropTable/TableExists/GetLastInsertID) x {postgres, mysql (recording driver), sqlite (real in-memory database with a sentinel table)} x PRNG-chosen strings for every identifier/operator/direction/join/type slot (quotes, comments, semicolons, NULs, look-alikes, keywords, 100 kB) and hostile values; distinct = content hash of the filled slots; non-trivial = at least one slot holds a string outside [A-Za-z0-9_]"
	r.Assume("no PostgreSQL/MySQL server exists in the sandbox: those drivers are monitored at the statement-text level through a recording database/sql driver installed into the unexported db field (reflect+unsafe)")
	n := r.Pick(40000, 1000000)
	ctx := context.Background()

	mkEnv := func(dialect string) (*c13Env, error) {
		switch dialect {
		case "postgres":
			p := database.NewPostgresDB(&database.Config{Driver: "postgres"})
			if err := setUnexportedDB(p, recDB()); err != nil {
				return nil, err
			}
			return &c13Env{dialect: dialect, quote: '"', db: p, drv: p}, nil
		case "mysql":
			m := database.NewMySQLDB(&database.Config{Driver: "mysql"})
			if err := setUnexportedDB(m, recDB()); err != nil {
				return nil, err
			}
			return &c13Env{dialect: dialect, quote: '`', db: m, drv: m}, nil
		default:
			s := database.NewSQLiteDB(&database.Config{Driver: "sqlite", Database: ":memory:"})
			h, err := openSpySQLite()
			if err != nil {
				return nil, err
			}
			if err := setUnexportedDB(s, h); err != nil {
				return nil, err
			}
			return &c13Env{dialect: "sqlite", quote: '"', db: s, drv: s, real: s}, nil
		}
	}
	envs := map[string]*c13Env{}
	for _, d := range []string{"postgres", "mysql", "sqlite"} {
		e, err := mkEnv(d)
		if err != nil {
			r.Inconclusive("cannot set up " + d + ": " + err.Error())
			r.Finish()
		}
		envs[d] = e
	}
	resetSQLite := func() {
		s := envs["sqlite"].real
		rows, err := s.Query(ctx, "SELECT name FROM sqlite_master WHERE type='table'")
		var names []string
		if err == nil {
			for rows.Next() {
				var n string
				rows.Scan(&n)
				names = append(names, n)
			}
			rows.Close()
		}
		for _, n := range names {
			s.Exec(ctx, `DROP TABLE IF EXISTS "`+strings.ReplaceAll(n, `"`, `""`)+`"`)
		}
		s.Exec(ctx, `CREATE TABLE sentinel (secret TEXT)`)
		s.Exec(ctx, `INSERT INTO sentinel VALUES ('s3cr3t-1'), ('s3cr3t-2')`)
		s.Exec(ctx, `CREATE TABLE items (id INTEGER PRIMARY KEY, name TEXT, qty TEXT)`)
		s.Exec(ctx, `INSERT INTO items (id, name, qty) VALUES (1, 'one', 'a'), (2, 'two', 'b')`)
		s.Exec(ctx, `CREATE TABLE other (id INTEGER PRIMARY KEY, name TEXT)`)
	}
	sqliteState := func() string {
		s := envs["sqlite"].real
		var parts []string
		rows, err := s.Query(ctx, "SELECT name FROM sqlite_master WHERE type='table' ORDER BY name")
		if err != nil {
			return "ERR " + err.Error()
		}
		var names []string
		for rows.Next() {
			var n string
			rows.Scan(&n)
			names = append(names, n)
		}
		rows.Close()
		for _, n := range names {
			cr, err := s.Query(ctx, `SELECT name FROM pragma_table_info(?) ORDER BY cid`, n)
			var cols []string
			if err == nil {
				for cr.Next() {
					var c string
					cr.Scan(&c)
					cols = append(cols, c)
				}
				cr.Close()
			}
			parts = append(parts, n+"("+strings.Join(cols, ",")+")")
		}
		sr, err := s.Query(ctx, "SELECT secret FROM sentinel ORDER BY secret")
		if err != nil {
			parts = append(parts, "SENTINEL-GONE")
		} else {
			var ss []string
			for sr.Next() {
				var x string
				sr.Scan(&x)
				ss = append(ss, x)
			}
			sr.Close()
			parts = append(parts, "sentinel-rows="+strings.Join(ss, ","))
		}
		return strings.Join(parts, " ")
	}
	resetSQLite()
	baseState := sqliteState()
	r.Set("sqlite_baseline_state", baseState)

	// (0) the three Sanitize*Identifier(s) functions: accepted => safe and exactly quoted
	type sanit struct {
		name string
		f    func(string) (string, error)
		q    string
	}
	for _, sf := range []sanit{{"SanitizeIdentifier", database.SanitizeIdentifier, `"`}, {"SanitizeSQLiteIdentifier", database.SanitizeSQLiteIdentifier, `"`}, {"SanitizeMySQLIdentifier", database.SanitizeMySQLIdentifier, "`"}} {
		rng := r.Rand("sanitize-" + sf.name)
		for i := 0; i < n/20; i++ {
			s := c13Str(rng)
			out, err := sf.f(s)
			r.Case("san|"+sf.name+"|"+mon.Hash(s), !c13Ident.MatchString(s))
			if err == nil {
				if !c13Ident.MatchString(s) {
					r.Violate("sanitize:accepts-unsafe:"+sf.name, fmt.Sprintf("%s accepted %q", sf.name, clip(s)), map[string]interface{}{"input": s, "output": out})
				} else if out != sf.q+s+sf.q {
					r.Violate("sanitize:wrong-quoting:"+sf.name, fmt.Sprintf("%s(%q) = %q", sf.name, clip(s), clip(out)), map[string]interface{}{"input": s, "output": out})
				}
			}
		}
	}
	if err := database.ValidateIdentifier("a;b"); err == nil {
		r.Violate("sanitize:accepts-unsafe:ValidateIdentifier", "ValidateIdentifier accepted a;b", nil)
	}

	rng := r.Rand("slots")
	accepted, rejected := 0, 0
	perEntry := map[string]int{}
	for i := 0; i < n; i++ {
		entry := c13Entries[rng.Intn(len(c13Entries))]
		dialect := []string{"postgres", "mysql", "sqlite"}[rng.Intn(3)]
		env := envs[dialect]
		slots, uOp, uDir, uJoin, uType := c13Slots(entry)
		cs := c13Case{Entry: entry, Dialect: dialect, Idents: map[string]string{"table": "items", "table2": "other", "col": "name", "col2": "qty"}, Op: "=", Dir: "ASC", Join: "INNER", Type: "TEXT"}
		benign := cs
		benign.Idents = map[string]string{"table": "items", "table2": "other", "col": "name", "col2": "qty"}
		if entry == "drv.createtable" {
			cs.Idents["table"], benign.Idents["table"] = "fresh", "fresh"
			cs.Idents["col"], benign.Idents["col"] = "c1", "c1"
		}
		// choose which slots get hostile strings (1..all)
		hostileAny := false
		for _, sl := range slots {
			if rng.Intn(2) == 0 {
				cs.Idents[sl] = c13Str(rng)
				if !c13Ident.MatchString(cs.Idents[sl]) {
					hostileAny = true
				}
			}
		}
		if uOp && rng.Intn(2) == 0 {
			cs.Op = c13OpPool[rng.Intn(len(c13OpPool))]
		}
		if uDir && rng.Intn(2) == 0 {
			cs.Dir = c13DirPool[rng.Intn(len(c13DirPool))]
		}
		if uJoin && rng.Intn(2) == 0 {
			cs.Join = c13JoinPool[rng.Intn(len(c13JoinPool))]
		}
		if uType {
			cs.Type = c13Type(rng)
		}
		vals := []string{c13Values[rng.Intn(len(c13Values))], c13Values[rng.Intn(len(c13Values))]}
		cs.Values = vals
		opSafe := c13Ops[strings.ToUpper(strings.TrimSpace(cs.Op))]
		dirU := strings.ToUpper(cs.Dir)
		dirSafe := dirU == "ASC" || dirU == "DESC" || strings.TrimSpace(cs.Dir) == "" // empty direction = default order
		joinSafe := c13Joins[strings.ToUpper(cs.Join)]
		typeSafe := typeIsOneDefinition(cs.Type)
		if !opSafe || !dirSafe || !joinSafe || (uType && !typeSafe) {
			hostileAny = true
		}
		r.Case(mon.Hash(cs), hostileAny)
		perEntry[entry]++
		if i%4001 == 0 {
			r.Sample(cs)
		}
		if dialect == "sqlite" {
			resetSQLiteIfDirty(envs["sqlite"], sqliteState, baseState, resetSQLite)
		}
		stmts, pan := c13Run(env, cs, vals)
		if pan != nil {
			r.Violate("panic:"+entry, fmt.Sprintf("%s panicked: %v", entry, pan), cs)
			continue
		}
		if len(stmts) == 0 {
			rejected++
			continue
		}
		accepted++
		// (a) reach monitor (operators, join types and column types have an allow-list / grammar;
		// identifiers and directions are judged on the statement they produce, see (b))
		if uOp && !opSafe {
			r.Violate("reach:unsafe-operator:"+entry, fmt.Sprintf("%s built SQL with operator %q: %s", entry, cs.Op, clip(stmts[0].SQL)), map[string]interface{}{"case": cs, "sql": clipN(stmts[0].SQL, 400)})
		}
		if uJoin && !joinSafe {
			r.Violate("reach:unsafe-join-type:"+entry, fmt.Sprintf("%s built SQL with join type %q", entry, cs.Join), map[string]interface{}{"case": cs, "sql": clipN(stmts[0].SQL, 400)})
		}
		if uType && !typeSafe {
			r.Violate("reach:column-type-adds-structure:"+dialect, fmt.Sprintf("%s CreateTable accepted column type %q which is not a single column definition: %s", dialect, cs.Type, clip(stmts[0].SQL)), map[string]interface{}{"case": cs, "sql": clipN(stmts[0].SQL, 400)})
		}
		// (b) skeleton vs benign baseline (same op/dir/join/type so that only identifiers differ)
		bcs := benign
		bcs.Op, bcs.Dir, bcs.Join, bcs.Type = "=", "ASC", "INNER", cs.Type
		if opSafe {
			bcs.Op = cs.Op
		}
		if joinSafe {
			bcs.Join = cs.Join
		}
		if cs.Idents["col"] == cs.Idents["col2"] {
			bcs.Idents["col2"] = bcs.Idents["col"] // same collision structure (map-keyed entry points)
		}
		for sl, v := range cs.Idents {
			if v == "*" && entry == "qb.select" {
				bcs.Idents[sl] = "*" // "*" is the documented wildcard of Select
			}
		}
		if dialect == "sqlite" {
			resetSQLiteIfDirty(envs["sqlite"], sqliteState, baseState, resetSQLite)
		}
		bst, _ := c13Run(env, bcs, []string{"v", "v"})
		// the ORM / query builder always quote with double quotes (PostgreSQL style), whatever
		// the driver; only the MySQL driver helpers use backticks
		quote := byte('"')
		if dialect == "mysql" && strings.HasPrefix(entry, "drv.") {
			quote = '`'
		}
		pseudo := false
		if len(bst) == len(stmts) && !pseudo {
			for k := range stmts {
				if why := c13PlaceholderAgreement(stmts[k].SQL, len(stmts[k].Args)); why != "" {
					r.Violate("sql:placeholders-do-not-match-arguments:"+entry, fmt.Sprintf("%s/%s: %s in %s", dialect, entry, why, clip(stmts[k].SQL)), map[string]interface{}{"case": cs, "sql": clipN(stmts[k].SQL, 400), "args": fmt.Sprint(stmts[k].Args)})
				}
				r.Count("placeholder_agreement_checked", 1)
				toks := lexSQL(stmts[k].SQL, quote)
				sk, bsk := skeleton(toks), skeleton(lexSQL(bst[k].SQL, quote))
				if sk != bsk && uDir {
					// a direction is either ASC or DESC; compare with the other benign rendering too
					bcs2 := bcs
					bcs2.Dir = "DESC"
					if b2, _ := c13Run(env, bcs2, []string{"v", "v"}); len(b2) == len(stmts) {
						if sk == skeleton(lexSQL(b2[k].SQL, quote)) {
							bsk = sk
						}
					}
				}
				for _, t := range toks {
					if t.kind == "ident" && (len(t.text) < 2 || !c13Ident.MatchString(t.text[1:len(t.text)-1])) {
						r.Violate("sql:unsafe-identifier-token:"+entry, fmt.Sprintf("%s/%s: the statement carries the identifier token %s", dialect, entry, clip(t.text)), map[string]interface{}{"case": cs, "sql": clipN(stmts[k].SQL, 400)})
					}
				}
				if sk != bsk && entry == "qb.orderby" && strings.TrimSpace(cs.Idents["col"]) == "" && strings.TrimSpace(cs.Dir) == "" &&
					sk == strings.Replace(bsk, " ORDER BY ID ASC", "", 1) {
					// a blank ordering column with a blank direction adds no ORDER BY clause at all: the
					// statement is the benign one minus that clause, nothing of the input reaches it
					r.Count("blank_order_by_omitted", 1)
					bsk = sk
				}
				if sk != bsk {
					r.Violate("skeleton:differs-from-benign:"+entry, fmt.Sprintf("%s/%s: statement skeleton changes with the identifier strings: %s  vs benign  %s", dialect, entry, clipN(sk, 160), clipN(bsk, 160)), map[string]interface{}{"case": cs, "sql": clipN(stmts[k].SQL, 400), "benign_sql": bst[k].SQL})
				}
				// every supplied identifier must be present as an exactly quoted token
				for _, sl := range slots {
					want := string(quote) + cs.Idents[sl] + string(quote)
					if entry == "drv.lastinsertid" || entry == "qb.reuse" {
						continue // identifiers are validated and then bound as values / unused; qb.reuse: several statements, each with some of the identifiers
					}
					found := false
					for _, t := range toks {
						if t.kind == "ident" && t.text == want {
							found = true
						}
					}
					if !found && c13Ident.MatchString(cs.Idents[sl]) {
						r.Violate("skeleton:identifier-not-quoted:"+entry+":"+sl, fmt.Sprintf("%s/%s: identifier %q does not appear as the quoted token %s in %s", dialect, entry, clip(cs.Idents[sl]), clip(want), clipN(stmts[k].SQL, 200)), map[string]interface{}{"case": cs, "sql": clipN(stmts[k].SQL, 400)})
					}
				}
				for _, t := range toks {
					if t.kind == "comment" {
						r.Violate("skeleton:comment-in-statement:"+entry, "generated SQL contains a comment: "+clipN(stmts[k].SQL, 200), cs)
					}
				}
			}
		} else if len(bst) > 0 {
			r.Count("stmt_count_differs_from_benign", 1)
		}
		// (c) value independence
		if dialect == "sqlite" {
			resetSQLiteIfDirty(envs["sqlite"], sqliteState, baseState, resetSQLite)
		}
		st2, _ := c13Run(env, cs, []string{"plain1", "plain2"})
		if len(st2) == len(stmts) {
			for k := range stmts {
				if stmts[k].SQL != st2[k].SQL && !sameTokenMultiset(stmts[k].SQL, st2[k].SQL, quote) {
					r.Violate("values:change-sql-text:"+entry, fmt.Sprintf("%s/%s: SQL text depends on a value: %s  vs  %s", dialect, entry, clipN(stmts[k].SQL, 200), clipN(st2[k].SQL, 200)), cs)
				}
				for _, v := range vals {
					if len(v) > 3 && strings.Contains(stmts[k].SQL, v) && !strings.Contains(st2[k].SQL, v) {
						r.Violate("values:inlined-into-sql:"+entry, fmt.Sprintf("%s/%s: value %q appears inside the SQL text", dialect, entry, v), cs)
					}
				}
			}
		} else {
			r.Violate("values:change-statement-count:"+entry, fmt.Sprintf("%s/%s: number of statements depends on values (%d vs %d)", dialect, entry, len(stmts), len(st2)), cs)
		}
		// (d) state monitor on the real SQLite
		if dialect == "sqlite" {
			st := sqliteState()
			exp := baseState
			if entry == "drv.createtable" && c13Ident.MatchString(cs.Idents["table"]) && c13Ident.MatchString(cs.Idents["col"]) {
				// model: either unchanged (database refused it) or exactly one new table with exactly the named column
				alt := c13StateWithTable(baseState, cs.Idents["table"], cs.Idents["col"])
				if st == alt {
					exp = alt
				}
			}
			if entry == "drv.droptable" && c13Ident.MatchString(cs.Idents["table"]) {
				alt := c13StateWithoutTable(baseState, cs.Idents["table"])
				if st == alt {
					exp = alt
				}
			}
			if st != exp {
				sig := "state:schema-or-sentinel-changed:" + entry
				r.Violate(sig, fmt.Sprintf("sqlite/%s: after the call the database is %q, model allows %q", entry, clipN(st, 200), clipN(exp, 200)), map[string]interface{}{"case": cs, "sql": clipN(stmts[0].SQL, 400)})
			}
		}
	}
	r.Count("cases_reaching_database", accepted)
	r.Count("cases_rejected_before_database", rejected)
	keys := []string{}
	for k := range perEntry {
		keys = append(keys, k)
	}
	sort.Strings(keys)
	r.Set("entry_points_exercised", keys)
	if accepted < 100 || rejected < 100 {
		r.Inconclusive(fmt.Sprintf("workload unbalanced: %d accepted / %d rejected", accepted, rejected))
	}
	r.Floor(1000)
	r.Finish()
}

// sameTokenMultiset: two statements built from a Go map may list their columns in a
// different order; they are the same statement up to that order.
func sameTokenMultiset(a, b string, q byte) bool {
	ta, tb := lexSQL(a, q), lexSQL(b, q)
	if len(ta) != len(tb) {
		return false
	}
	sa, sb := make([]string, len(ta)), make([]string, len(tb))
	for i := range ta {
		sa[i], sb[i] = ta[i].kind+ta[i].text, tb[i].kind+tb[i].text
	}
	sort.Strings(sa)
	sort.Strings(sb)
	for i := range sa {
		if sa[i] != sb[i] {
			return false
		}
	}
	return true
}

func resetSQLiteIfDirty(env *c13Env, state func() string, base string, reset func()) {
	if state() != base {
		reset()
	}
}

func c13StateWithTable(base, table, col string) string {
	parts := strings.Split(base, " ")
	var tabs []string
	var tail []string
	for _, p := range parts {
		if strings.HasPrefix(p, "sentinel-rows=") {
			tail = append(tail, p)
		} else {
			tabs = append(tabs, p)
		}
	}
	for _, t := range tabs {
		if strings.HasPrefix(t, table+"(") {
			return base // IF NOT EXISTS: existing table untouched
		}
	}
	tabs = append(tabs, table+"("+col+")")
	sort.Slice(tabs, func(i, j int) bool { return tabs[i][:strings.Index(tabs[i], "(")] < tabs[j][:strings.Index(tabs[j], "(")] })
	return strings.Join(append(tabs, tail...), " ")
}

func c13StateWithoutTable(base, table string) string {
	var out []string
	for _, p := range strings.Split(base, " ") {
		if strings.HasPrefix(p, table+"(") {
			continue
		}
		if table == "sentinel" && strings.HasPrefix(p, "sentinel-rows=") {
			out = append(out, "SENTINEL-GONE")
			continue
		}
		out = append(out, p)
	}
	return strings.Join(out, " ")
}

func clipN(s string, n int) string {
	if len(s) > n {
		return s[:n] + "…"
	}
	return s
}

