package main

// C02 — Compiled and interpreted execution are indistinguishable.
//
// Differential monitor at the HTTP boundary: one module text, one request, two
// execution modes wired exactly as the CLI wires them (setupRoutes with and without
// forceInterpreter); the triples (status, decoded body, connection fate) must be equal.
// Constructs behind a recorded finding are kept out of the random exploration by a
// generator flag and are each replayed by one directed probe.

import (
	"encoding/json"
	"fmt"
	"os"
	"reflect"
	"sort"
	"strings"

	"verifharness/gen"
	"verifharness/mon"
)

func init() { checks["C02"] = checkC02 }

// c02Core is the feature set of the random exploration: everything the two engines are
// expected to agree on. Flags that are off here are listed in c02Quarantine with the
// recorded finding they belong to.
func c02Core() gen.Features {
	return gen.Features{Floats: true, Strings: true, Arrays: true, Objects: true, While: true, For: true, Switch: true,
		BreakContinue: true, StatusReturn: true, Guards: true, BuiltinsCore: true, Match: true, DivZero: true, IndexOOR: true, Mod: true,
		NestedReturn: true, DeclInBranch: true, IllTyped: 3, NoMatchBindShadow: true, ArrFork: true}
}

// Content-Type spellings for the request-binding workload: whether a body is parsed into
// `input` must not depend on the execution mode, whatever rule decides it.
var c02ContentTypes = []string{"application/json", "application/json; charset=utf-8", "text/plain", "application/x-www-form-urlencoded",
	"Application/JSON", "APPLICATION/JSON; charset=UTF-8", "application/json-patch+json", "application/jsonx", "application/vnd.api+json", " application/json",
	"application/json;charset=utf-8", "application/json ; x=1", "text/json", "application/ld+json", "multipart/form-data; boundary=x", "*/*", "application/jso"}

type c02Flag struct {
	Name  string
	Apply func(f *gen.Features)
}

// flags that are OFF in the core; each is explored alone on top of the core when
// VERIF_C02_EXPLORE is set, and otherwise represented by its directed probe only.
var c02Quarantine = []c02Flag{
	{"logic.rhs_may_fail", func(f *gen.Features) { f.LogicRhsMayFail = true }},
	{"eq.int_float", func(f *gen.Features) { f.EqIntFloat = true }},
	{"cmp.string_order", func(f *gen.Features) { f.StrOrder = true }},
	{"call.userfn", func(f *gen.Features) { f.UserFuncs = true }},
	{"call.builtin_not_in_vm", func(f *gen.Features) { f.BuiltinsInterp = true }},
	{"scope.loopvar_shadows_outer", func(f *gen.Features) { f.LoopVarShadow = true }},
	{"scope.matchbind_shadows_outer", func(f *gen.Features) { f.NoMatchBindShadow = false }},
}

type c02Case struct {
	Prog    *gen.Prog
	Pattern string
	Req     string
}

func c02Module(rngSeed int64, f gen.Features, n int, mk func(i int) *gen.G) (string, []c02Case) {
	var b strings.Builder
	var cs []c02Case
	var funcs strings.Builder
	for i := 0; i < n; i++ {
		g := mk(i)
		p := g.Program(2 + g.R.Intn(6))
		// user functions are module-level: rename per route to avoid clashes
		for _, fn := range p.Funcs {
			fn.Name = fmt.Sprintf("r%d_%s", i, fn.Name)
		}
		c02RenameCalls(p, i)
		pattern, req := p.RoutePath(fmt.Sprintf("/r%d", i))
		src := p.Source(pattern)
		// split functions from the route so that all functions come first
		if idx := strings.Index(src, "@ GET"); idx > 0 {
			funcs.WriteString(src[:idx])
			src = src[idx:]
		}
		b.WriteString(src)
		b.WriteString("\n")
		cs = append(cs, c02Case{Prog: p, Pattern: pattern, Req: req})
	}
	return funcs.String() + b.String(), cs
}

func c02RenameCalls(p *gen.Prog, route int) {
	names := map[string]bool{}
	for _, fn := range p.Funcs {
		names[strings.TrimPrefix(fn.Name, fmt.Sprintf("r%d_", route))] = true
	}
	var we func(e *gen.Expr)
	we = func(e *gen.Expr) {
		if e == nil {
			return
		}
		if e.K == "call" && names[e.S] {
			e.S = fmt.Sprintf("r%d_%s", route, e.S)
		}
		for _, a := range e.A {
			we(a)
		}
		for _, a := range e.Arms {
			we(a.Lit)
			we(a.Guard)
			we(a.Body)
		}
	}
	var ws func(ss []*gen.Stmt)
	ws = func(ss []*gen.Stmt) {
		for _, s := range ss {
			we(s.E)
			ws(s.Body)
			ws(s.Else)
			if s.ElseIf != nil {
				ws([]*gen.Stmt{s.ElseIf})
			}
			for _, c := range s.Cases {
				we(c.Val)
				ws(c.Body)
			}
		}
	}
	for _, fn := range p.Funcs {
		ws(fn.Body)
	}
	ws(p.Body)
}

type c02Triple struct {
	Status  int         `json:"status"`
	Body    interface{} `json:"body"`
	Dropped bool        `json:"dropped"`
	Raw     string      `json:"raw,omitempty"`
}

func c02TripleOf(rs HResp) c02Triple {
	t := c02Triple{Status: rs.S, Dropped: rs.Dropped}
	if rs.Dropped {
		return t
	}
	if rs.S >= 500 {
		t.Body = "generic-5xx"
		return t
	}
	var v interface{}
	if json.Unmarshal([]byte(rs.B), &v) == nil {
		t.Body = v
	} else {
		t.Body = "text:" + rs.B
	}
	return t
}

// c02Sig: the outcome classes plus the constructs of the program (sorted), so that the
// signature of a disagreement does not depend on literal values.
func c02Sig(p *gen.Prog, a, b c02Triple) string {
	cls := func(t c02Triple) string {
		switch {
		case t.Dropped:
			return "dropped"
		case t.Status >= 500:
			return "5xx"
		case t.Status >= 400:
			return "4xx"
		}
		return "ok"
	}
	_, kinds := p.Size()
	var ks []string
	for k := range kinds {
		switch k {
		case "ret", "decl", "e:obj", "e:int", "e:var", "e:bin", "e:bool", "e:str", "e:float", "e:arr", "e:un":
		default:
			ks = append(ks, strings.TrimPrefix(k, "e:"))
		}
	}
	sort.Strings(ks)
	return fmt.Sprintf("compiled=%s,interpreted=%s:%s", cls(a), cls(b), strings.Join(ks, "+"))
}

type c02Probe struct {
	ID   string
	Src  string
	Reqs []HReq
}

func c02Probes() []c02Probe {
	get := func(p string) []HReq { return []HReq{{M: "GET", P: p}} }
	return []c02Probe{
		{"logic.rhs_may_fail", "@ GET /p {\n  $ z = 0\n  > {x: false && (1 / z == 1)}\n}\n", get("/p")},
		{"eq.int_float", "@ GET /p {\n  > {x: 1 == 1.0}\n}\n", get("/p")},
		{"cmp.string_order", "@ GET /p {\n  > {x: \"a\" < \"b\"}\n}\n", get("/p")},
		{"call.userfn", "! twice(n: int!): int {\n  > n * 2\n}\n\n@ GET /p {\n  > {x: twice(4)}\n}\n", get("/p")},
		{"call.builtin_not_in_vm", "@ GET /p {\n  > {x: abs(0 - 4), y: startsWith(\"abc\", \"a\")}\n}\n", get("/p")},
		{"scope.loopvar_shadows_outer", "@ GET /p {\n  $ i = 5\n  for i in [1, 2] {\n    $ t = i\n  }\n  > {x: i}\n}\n", get("/p")},
		{"scope.matchbind_shadows_outer", "@ GET /p {\n  $ v = 1\n  $ w = match 9 {\n    3 => 0\n    v when v > 7 => v\n    _ => 0\n  }\n  > {x: v, w: w}\n}\n", get("/p")},
		{"field.absent", "@ GET /p {\n  $ o = {a: 1}\n  > {x: o.missing}\n}\n", get("/p")},
		{"input.defaults", ": T {\n  f0: str!\n  f1: int = 7\n}\n@ POST /p {\n  < input: T\n  > {echo: input}\n}\n", []HReq{{M: "POST", P: "/p", B: sp(`{"f0":"a"}`)}}},
		{"index.absent_key", "@ GET /p {\n  > {x: headers[\"X-Not-Sent\"]}\n}\n", get("/p")},
		{"req.delete_body", "@ DELETE /p {\n  > {echo: input}\n}\n", []HReq{{M: "DELETE", P: "/p", B: sp(`{"a":1}`)}}},
	}
}

// c02LoopShapes enumerates two loop nests in a row: each nest 1-3 levels deep over literal arrays (plain and indexed
// for, a while level), with a break or a continue at one level or none. Every body folds its loop variables into an
// order-sensitive checksum.
func c02LoopShapes() (string, []HReq) {
	var b strings.Builder
	var reqs []HReq
	type nest struct {
		depth int
		ctl   string // "", "break", "continue"
		at    int    // level carrying the control statement
		while bool   // the outermost level is a while loop
	}
	var nests []nest
	for d := 1; d <= 3; d++ {
		nests = append(nests, nest{d, "", 0, false})
		for at := 0; at < d; at++ {
			nests = append(nests, nest{d, "break", at, false}, nest{d, "continue", at, at == 0 && d > 1})
		}
	}
	arrs := []string{"[1, 2, 3]", "[10, 20, 30]", "[5, 6, 7, 8]"}
	emit := func(nn nest, id string, ind string) string {
		var o strings.Builder
		vars := []string{"a" + id, "b" + id, "c" + id}
		for l := 0; l < nn.depth; l++ {
			pad := ind + strings.Repeat("  ", l)
			if l == 0 && nn.while {
				fmt.Fprintf(&o, "%s$ w%s = 0\n%swhile w%s < 3 {\n%s  w%s = w%s + 1\n%s  $ %s = w%s\n", pad, id, pad, id, pad, id, id, pad, vars[l], id)
			} else if l == 1 {
				fmt.Fprintf(&o, "%sfor i%s, %s in %s {\n", pad, id, vars[l], arrs[l])
			} else {
				fmt.Fprintf(&o, "%sfor %s in %s {\n", pad, vars[l], arrs[l])
			}
			if nn.ctl != "" && nn.at == l {
				fmt.Fprintf(&o, "%s  if %s > %s {\n%s    %s\n%s  }\n", pad, vars[l], []string{"1", "10", "6"}[l], pad, nn.ctl, pad)
			}
		}
		pad := ind + strings.Repeat("  ", nn.depth)
		expr := "acc * 31"
		for l := 0; l < nn.depth; l++ {
			expr += " + " + vars[l]
		}
		fmt.Fprintf(&o, "%sacc = (%s) %% 1000003\n", pad, expr)
		for l := nn.depth - 1; l >= 0; l-- {
			fmt.Fprintf(&o, "%s}\n", ind+strings.Repeat("  ", l))
		}
		return o.String()
	}
	k := 0
	for _, n1 := range nests {
		for _, n2 := range nests {
			fmt.Fprintf(&b, "@ GET /ls%d {\n  $ acc = 7\n%s%s  > {acc: acc}\n}\n\n", k, emit(n1, "x", "  "), emit(n2, "y", "  "))
			reqs = append(reqs, HReq{M: "GET", P: fmt.Sprintf("/ls%d", k)})
			k++
		}
	}
	return b.String(), reqs
}

func checkC02(tier string) {
	r := mon.New("C02", tier, "translation_validation")
	r.Rule = "modules of 4 generated routes (G-prog core fragment: int/float/str/bool/array/object expressions, arithmetic with coercion, comparisons, total && ||, field/index on variables, shared builtins, if/else, bounded while, for / indexed for, switch, break/continue, nested return, status return, guards, ill-typed operands, division by zero, out-of-range indices) served in compiled and interpreted mode through the CLI wiring; every request's (status, decoded body, connection fate) compared; distinct = route source hash; non-trivial = >= 12 AST nodes. Quarantined constructs (one recorded finding each) are replayed by directed probes only"
	r.Assume("5xx responses are compared as 'generic 5xx' only; log output, timing and header order are ignored; each module is served by a fresh router pair")
	explore := os.Getenv("VERIF_C02_EXPLORE") != ""
	nmod := r.Pick(6000, 60000)
	type meta struct {
		cases []c02Case
		src   string
		flag  string
		reqs  []HReq // binding modules: the requests sent, in order
	}
	metas := map[int]*meta{}
	var jobs []HJob
	addModule := func(seedIdx int, f gen.Features, flag string) {
		src, cs := c02Module(int64(seedIdx), f, 4, func(i int) *gen.G {
			return gen.New(r.Rand(fmt.Sprintf("mod-%s-%d-%d", flag, seedIdx, i)), f)
		})
		var reqs []HReq
		for _, c := range cs {
			reqs = append(reqs, HReq{M: "GET", P: c.Req})
		}
		id := len(metas)
		metas[id] = &meta{cases: cs, src: src, flag: flag}
		jobs = append(jobs, HJob{ID: id * 2, Src: src, Interp: false, Reqs: reqs}, HJob{ID: id*2 + 1, Src: src, Interp: true, Reqs: reqs})
	}
	for i := 0; i < nmod; i++ {
		addModule(i, c02Core(), "core")
	}
	if explore {
		for _, q := range c02Quarantine {
			for i := 0; i < 150; i++ {
				f := c02Core()
				q.Apply(&f)
				addModule(i, f, q.Name)
			}
		}
	}
	// request-binding parity: path parameters, query strings (typed, untyped, repeated,
	// encoded), JSON bodies on POST/PUT/PATCH, header reads, in both modes
	bindSrc := "@ GET /e/:a/:b {\n  ? n: int = 3\n  ? s: str\n  ? f: bool\n  > {a: a, b: b, n: n, q: query}\n}\n\n" +
		"@ POST /e/:a {\n  > {a: a, i: input, q: query}\n}\n\n" +
		"@ PUT /e/:a {\n  > {a: a, i: input}\n}\n\n@ PATCH /e/:a {\n  > {a: a, i: input}\n}\n\n" +
		"@ GET /h {\n  > {h: headers[\"X-Test\"], ua: headers[\"User-Agent\"]}\n}\n"
	brng := r.Rand("bindings")
	qpool := []string{"", "?n=5", "?n=5&s=x", "?s=a%20b&f=true", "?n=x", "?f=maybe", "?n=5&n=6", "?zz=1&zz=2&s=", "?s=%E2%9C%93", "?n=-0", "?n=007", "?n=1e3", "?n=9999999999999999999", "?s=a+b", "?f=TRUE", "?f=1", "?s", "?=x", "?n=%35"}
	bpool := []string{`{}`, `{"x":1}`, `{"x":[1,2,{"y":null}],"z":"s"}`, `[1]`, `"s"`, ``, `{"x":1.5e2}`, `{"a":{"b":{"c":{}}}}`, `{"k":"\u00e9"}`, `{"big":12345678901234567890}`, `nope`}
	var breqs []HReq
	for i := 0; i < r.Pick(300, 3000); i++ {
		seg := []string{"x", "ab", "a%20b", "%C3%A4", "1", "true", "null"}[brng.Intn(7)]
		switch brng.Intn(4) {
		case 0:
			breqs = append(breqs, HReq{M: "GET", P: "/e/" + seg + "/" + seg + qpool[brng.Intn(len(qpool))]})
		case 1:
			h := map[string][]string{}
			if brng.Intn(3) > 0 {
				h["Content-Type"] = []string{c02ContentTypes[brng.Intn(len(c02ContentTypes))]}
			}
			breqs = append(breqs, HReq{M: "POST", P: "/e/" + seg + qpool[brng.Intn(len(qpool))], B: sp(bpool[brng.Intn(len(bpool))]), H: h})
		case 2:
			breqs = append(breqs, HReq{M: []string{"PUT", "PATCH"}[brng.Intn(2)], P: "/e/" + seg, B: sp(bpool[brng.Intn(len(bpool))])})
		default:
			breqs = append(breqs, HReq{M: "GET", P: "/h", H: map[string][]string{"X-Test": {[]string{"v", "", "a b", "ü"}[brng.Intn(4)]}, "User-Agent": {"verif"}}})
		}
	}
	bindID := len(metas)
	metas[bindID] = &meta{src: bindSrc, flag: "bindings", reqs: breqs}
	jobs = append(jobs, HJob{ID: bindID * 2, Src: bindSrc, Interp: false, Reqs: breqs}, HJob{ID: bindID*2 + 1, Src: bindSrc, Interp: true, Reqs: breqs})

	// request values *used*: a number from a JSON body or a typed query parameter enters arithmetic, ordering, an index
	// and a substring bound — whether it is an int or a float there must not depend on the mode. (== is left out: the
	// int/float equality difference is the recorded finding C02-eq-int-float.)
	useSrc := "@ POST /u/div {\n  > {q: input.total / input.count, h: input.total / 2, m: input.total * 3, s: input.total + 0.5, lt: input.total < input.count}\n}\n\n" +
		"@ GET /u/q {\n  ? price: float = 1.5\n  ? k: int = 1\n  > {half: price / 2, kd: k / 2, sum: price + k, prod: price * k, lt: price < k}\n}\n\n" +
		"@ POST /u/ix {\n  $ names = [\"a\", \"b\", \"c\", \"d\"]\n  > {x: names[input.i]}\n}\n\n" +
		"@ POST /u/mod {\n  > {r: input.total % input.count}\n}\n\n" +
		"@ POST /u/str {\n  > {s: \"n=\" + input.total}\n}\n\n" +
		"@ GET /u/p/:n {\n  > {twice: n + n}\n}\n"
	ubodies := []string{`{"total":7,"count":2}`, `{"total":7.5,"count":2}`, `{"total":8,"count":2}`, `{"total":8,"count":2.5}`, `{"total":-7,"count":2}`, `{"total":1e3,"count":7}`,
		`{"total":9007199254740993,"count":2}`, `{"total":"x","count":2}`, `{"total":7,"count":0}`, `{"total":7}`, `{"i":1}`, `{"i":1.5}`, `{"i":0}`, `{"i":9}`, `{"i":-1}`, `{"i":"1"}`, `{"total":3.0,"count":2.0}`}
	uqs := []string{"", "?price=9", "?price=9.5", "?k=9", "?price=9&k=2", "?price=1e3&k=3", "?price=-0", "?price=7.0&k=2", "?price=x", "?k=2.0", "?price=9007199254740993"}
	var ureqs []HReq
	for _, p := range []string{"/u/div", "/u/ix", "/u/mod", "/u/str"} {
		for _, b := range ubodies {
			ureqs = append(ureqs, HReq{M: "POST", P: p, B: sp(b)})
		}
	}
	for _, q := range uqs {
		ureqs = append(ureqs, HReq{M: "GET", P: "/u/q" + q})
	}
	for _, seg := range []string{"7", "7.0", "x", "-3", "1e3"} {
		ureqs = append(ureqs, HReq{M: "GET", P: "/u/p/" + seg})
	}
	useID := len(metas)
	metas[useID] = &meta{src: useSrc, flag: "bindings-use", reqs: ureqs}
	jobs = append(jobs, HJob{ID: useID * 2, Src: useSrc, Interp: false, Reqs: ureqs}, HJob{ID: useID*2 + 1, Src: useSrc, Interp: true, Reqs: ureqs})

	// loop shapes: nests of for / indexed for / while loops with breaks and continues, one nest after the other. The VM
	// keeps iterators in a table; which slot a loop gets must never depend on what earlier loops left behind.
	lsSrc, lsReqs := c02LoopShapes()
	lsID := len(metas)
	metas[lsID] = &meta{src: lsSrc, flag: "loop-shapes", reqs: lsReqs}
	jobs = append(jobs, HJob{ID: lsID * 2, Src: lsSrc, Interp: false, Reqs: lsReqs}, HJob{ID: lsID*2 + 1, Src: lsSrc, Interp: true, Reqs: lsReqs})

	// directed probes of the quarantined constructs
	probes := c02Probes()
	probeBase := len(metas)
	for pi, p := range probes {
		id := probeBase + pi
		metas[id] = &meta{src: p.Src, flag: "probe:" + p.ID}
		jobs = append(jobs, HJob{ID: id * 2, Src: p.Src, Interp: false, Reqs: p.Reqs}, HJob{ID: id*2 + 1, Src: p.Src, Interp: true, Reqs: p.Reqs})
	}
	res, err := httpRun(r, jobs, HRunOpts{Tag: "c02"})
	if err != nil {
		r.Inconclusive("cannot build the HTTP worker: " + err.Error())
		r.Finish()
	}
	agree, refusedBoth, refusedOne, fellBack := 0, 0, 0, 0
	perFlag := map[string]int{}
	for id, m := range metas {
		oc, oi := res[id*2], res[id*2+1]
		if oc == nil || oi == nil {
			r.Inconclusive(fmt.Sprintf("no result for module %d", id))
			continue
		}
		wit := map[string]interface{}{"source": m.src}
		if oc.Died != "" || oi.Died != "" {
			r.Violate("process-died", "the worker process died serving this module: "+oc.Death+oi.Death, wit)
			continue
		}
		if oc.Ev == "hang" || oi.Ev == "hang" {
			r.Violate("hang:"+m.flag, "a request did not return: "+oc.Hang+oi.Hang, wit)
			continue
		}
		cRef := oc.ParseErr != "" || oc.SetupErr != ""
		iRef := oi.ParseErr != "" || oi.SetupErr != ""
		if cRef && iRef {
			refusedBoth++
			if oc.ParseErr != "" {
				r.Count("parse_refused_generated_module", 1)
				if r.Counter("parse_refused_generated_module") <= 2 {
					r.Set(fmt.Sprintf("parse_refusal_example_%d", r.Counter("parse_refused_generated_module")), clipN(oc.ParseErr, 200)+" :: "+clipN(m.src, 500))
				}
			}
			continue
		}
		if cRef != iRef {
			// one mode refuses to start: visible to the operator, not to a client (the
			// quantifier is "the fragment both engines accept")
			refusedOne++
			continue
		}
		if !oc.Compiled {
			fellBack++
		}
		if m.flag == "bindings" || m.flag == "bindings-use" || m.flag == "loop-shapes" {
			breqs, bindSrc := m.reqs, m.src
			for qi := range oc.Resps {
				if qi >= len(oi.Resps) {
					break
				}
				a, b := c02TripleOf(oc.Resps[qi]), c02TripleOf(oi.Resps[qi])
				rq := breqs[qi]
				r.Case("bind|"+rq.M+rq.P+fmt.Sprint(rq.B != nil && *rq.B != ""), true)
				if reflect.DeepEqual(a, b) {
					agree++
					r.Count("binding_requests_agreeing", 1)
					continue
				}
				kind := rq.M
				if strings.Contains(rq.P, "?") {
					kind += "+query"
				}
				body := ""
				if rq.B != nil {
					body = *rq.B
				}
				if a.Status == b.Status {
					kind = c02DiffPath(a.Body, b.Body, "")
				}
				r.Violate(m.flag+":"+kind+":compiled="+fmt.Sprint(a.Status)+",interpreted="+fmt.Sprint(b.Status), fmt.Sprintf("%s %s body=%q: compiled answers %d %s, interpreted %d %s", rq.M, rq.P, body, a.Status, clipN(fmt.Sprint(a.Body), 100), b.Status, clipN(fmt.Sprint(b.Body), 100)),
					map[string]interface{}{"source": bindSrc, "request": rq, "compiled": a, "interpreted": b})
			}
			continue
		}
		if strings.HasPrefix(m.flag, "probe:") {
			pid := strings.TrimPrefix(m.flag, "probe:")
			for qi := range oc.Resps {
				if qi >= len(oi.Resps) {
					break
				}
				a, b := c02TripleOf(oc.Resps[qi]), c02TripleOf(oi.Resps[qi])
				if !reflect.DeepEqual(a, b) {
					wit["compiled"], wit["interpreted"] = a, b
					r.Violate("probe:"+pid, fmt.Sprintf("directed probe %s: compiled answers %d %v, interpreted %d %v", pid, a.Status, clipN(fmt.Sprint(a.Body), 80), b.Status, clipN(fmt.Sprint(b.Body), 80)), wit)
				}
			}
			r.Case("probe|"+pid, true)
			continue
		}
		for qi, c := range m.cases {
			if qi >= len(oc.Resps) || qi >= len(oi.Resps) {
				break
			}
			a, b := c02TripleOf(oc.Resps[qi]), c02TripleOf(oi.Resps[qi])
			nodes, _ := c.Prog.Size()
			rsrc := c.Prog.Source(c.Pattern)
			r.Case(mon.Hash(rsrc), nodes >= 12)
			if reflect.DeepEqual(a, b) {
				agree++
				if a.Status == 200 {
					r.Count("agree_200", 1)
				} else if a.Status >= 500 {
					r.Count("agree_5xx", 1)
				} else {
					r.Count("agree_4xx", 1)
				}
				continue
			}
			perFlag[m.flag]++
			w2 := map[string]interface{}{"route_source": rsrc, "request": "GET " + c.Req, "compiled": a, "interpreted": b, "compiled_mode_really_compiled": oc.Compiled, "flag": m.flag}
			sig := "diff:" + c02Sig(c.Prog, a, b)
			if m.flag != "core" {
				sig = "explore:" + m.flag
			}
			r.Violate(sig, fmt.Sprintf("GET %s: compiled answers %d %s, interpreted %d %s", c.Req, a.Status, clipN(fmt.Sprint(a.Body), 100), b.Status, clipN(fmt.Sprint(b.Body), 100)), w2)
		}
		if id == 1 {
			r.Sample(map[string]interface{}{"module": m.src})
		}
	}
	r.Count("requests_agreeing", agree)
	r.Count("modules_refused_by_both_modes", refusedBoth)
	r.Count("modules_refused_by_one_mode", refusedOne)
	r.Count("modules_compiled_mode_fell_back_to_interpreter", fellBack)
	r.Set("disagreements_by_flag", perFlag)
	if agree < 500 {
		r.Inconclusive(fmt.Sprintf("only %d agreeing requests were observed", agree))
	}
	if fellBack > len(metas)/2 {
		r.Inconclusive("most modules fell back to the interpreter in compiled mode: the VM was not exercised")
	}
	r.Floor(500)
	r.Finish()
}

// c02DiffPath names where two decoded bodies differ: the key path, with the shape of the
// two values ("q.*:null-vs-array" is an undeclared repeated query key).
func c02DiffPath(a, b interface{}, path string) string {
	am, aok := a.(map[string]interface{})
	bm, bok := b.(map[string]interface{})
	if aok && bok {
		keys := map[string]bool{}
		for k := range am {
			keys[k] = true
		}
		for k := range bm {
			keys[k] = true
		}
		var ks []string
		for k := range keys {
			ks = append(ks, k)
		}
		sort.Strings(ks)
		for _, k := range ks {
			if !reflect.DeepEqual(am[k], bm[k]) {
				seg := k
				if path == "q" {
					seg = "*"
				}
				np := seg
				if path != "" {
					np = path + "." + seg
				}
				return c02DiffPath(am[k], bm[k], np)
			}
		}
	}
	shape := func(v interface{}) string {
		switch v.(type) {
		case nil:
			return "null"
		case []interface{}:
			return "array"
		case map[string]interface{}:
			return "object"
		case string:
			return "string"
		case float64:
			return "number"
		case bool:
			return "bool"
		}
		return "other"
	}
	return path + ":" + shape(a) + "-vs-" + shape(b)
}
