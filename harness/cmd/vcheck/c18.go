package main

// C18 — Source rewriting tools preserve the program.
//
// Law monitors over the repository's examples, generated programs (identifier pools that
// contain the expanded-syntax keywords, strings and comments full of sigils, CRLF/BOM/tab
// layouts) and arbitrary byte strings:
//   L1 fmt(fmt(x)) == fmt(x)                              for every byte string
//   L2 tokens(fmt(x)) == tokens(x)                        for every x the parser accepts
//   L3 AST(compact(expand(x))) == AST(x)                  for every x the parser accepts
//   L4 AST_expanded_lexer(expand(x)) == AST(x)            for every x the parser accepts
//   L5 none of the three functions panics

import (
	"encoding/json"
	"fmt"
	"math/rand"
	"os"
	"path/filepath"
	"reflect"
	"regexp"
	"strings"
	"time"

	"github.com/glyphlang/glyph/pkg/ast"
	"github.com/glyphlang/glyph/pkg/formatter"
	"github.com/glyphlang/glyph/pkg/parser"

	"verifharness/gen"
	"verifharness/mon"
)

func init() {
	checks["C18"] = checkC18
	workers["c18"] = c18Worker
}

type c18Tok struct {
	T  parser.TokenType
	L  string
	NL bool // separated from the previous token by at least one NEWLINE
}

func c18Tokens(src string) ([]c18Tok, error) {
	toks, err := parser.NewLexer(src).Tokenize()
	if err != nil {
		return nil, err
	}
	var out []c18Tok
	nl := false
	for _, t := range toks {
		if t.Type == parser.NEWLINE {
			nl = true
			continue
		}
		if t.Type == parser.EOF || len(out) == 0 {
			nl = false // leading blank lines are removed and exactly one final newline is kept: documented layout rules
		}
		out = append(out, c18Tok{t.Type, t.Literal, nl})
		nl = false
	}
	return out, nil
}

// c18Norm renders a value structurally, skipping position fields.
func c18Norm(v reflect.Value, b *strings.Builder, depth int) {
	if depth > 200 {
		b.WriteString("<deep>")
		return
	}
	switch v.Kind() {
	case reflect.Interface, reflect.Ptr:
		if v.IsNil() {
			b.WriteString("nil")
			return
		}
		c18Norm(v.Elem(), b, depth+1)
	case reflect.Struct:
		b.WriteString(v.Type().Name())
		b.WriteString("{")
		for i := 0; i < v.NumField(); i++ {
			f := v.Type().Field(i)
			if f.Name == "Pos" || f.Type == reflect.TypeOf(ast.Pos{}) {
				continue
			}
			b.WriteString(f.Name)
			b.WriteString(":")
			c18Norm(v.Field(i), b, depth+1)
			b.WriteString(",")
		}
		b.WriteString("}")
	case reflect.Slice, reflect.Array:
		b.WriteString("[")
		for i := 0; i < v.Len(); i++ {
			c18Norm(v.Index(i), b, depth+1)
			b.WriteString(",")
		}
		b.WriteString("]")
	case reflect.Map:
		b.WriteString("map[")
		keys := v.MapKeys()
		ks := make([]string, len(keys))
		m := map[string]reflect.Value{}
		for i, k := range keys {
			ks[i] = fmt.Sprint(k.Interface())
			m[ks[i]] = v.MapIndex(k)
		}
		sortStr(ks)
		for _, k := range ks {
			b.WriteString(k + ":")
			c18Norm(m[k], b, depth+1)
			b.WriteString(",")
		}
		b.WriteString("]")
	default:
		fmt.Fprintf(b, "%#v", v.Interface())
	}
}

func c18AST(mod *ast.Module) string {
	var b strings.Builder
	c18Norm(reflect.ValueOf(mod), &b, 0)
	return b.String()
}

func c18ParseExpanded(src string) (mod *ast.Module, err error) {
	defer func() {
		if e := recover(); e != nil {
			err = fmt.Errorf("PANIC: %v", e)
		}
	}()
	toks, err := parser.NewExpandedLexer(src).Tokenize()
	if err != nil {
		return nil, err
	}
	return parser.NewParser(toks).Parse()
}

var c18Keywords = []string{"route", "type", "let", "return", "middleware", "use", "expects", "validate", "handle", "cron", "command", "queue", "func"}
var c18VarRe = regexp.MustCompile(`\bv([0-9]+)\b`)

// c18Decorate turns a generated program into a layout / naming stress test.
func c18Decorate(rng *rand.Rand, src string, keywordNames bool) string {
	if keywordNames {
		pick := map[string]string{}
		src = c18VarRe.ReplaceAllStringFunc(src, func(m string) string {
			if r, ok := pick[m]; ok {
				return r
			}
			r := m
			if rng.Intn(3) == 0 {
				r = c18Keywords[rng.Intn(len(c18Keywords))] + []string{"", "", "_x", "2"}[rng.Intn(4)]
			}
			for _, used := range pick {
				if used == r {
					r = m
				}
			}
			pick[m] = r
			return r
		})
	}
	lines := strings.Split(src, "\n")
	for i, l := range lines {
		switch rng.Intn(14) {
		case 0:
			lines[i] = l + "   "
		case 1:
			lines[i] = l + "\t"
		case 2:
			if strings.TrimSpace(l) != "" && !strings.Contains(l, "match") && !strings.Contains(l, "=>") {
				lines[i] = l + []string{"  # note: {[(\"", "  // @ $ > : ? ~ * ! & = % <", "  # route let return"}[rng.Intn(3)]
			}
		case 3:
			lines[i] = "\t" + l
		case 4:
			lines[i] = "      " + l
		case 5:
			lines[i] = l + "\n"
		case 6:
			lines[i] = strings.TrimLeft(l, " ")
		}
	}
	out := strings.Join(lines, "\n")
	switch rng.Intn(8) {
	case 0:
		out = strings.ReplaceAll(out, "\n", "\r\n")
	case 1:
		out = "\ufeff" + out
	case 2:
		out = "\n\n\n" + out + "\n\n\n"
	case 3:
		out = strings.TrimRight(out, "\n")
	}
	return out
}

// c18HostileStrings replaces the content of some string literals by text that a rewriting
// tool must leave alone: raw tabs and runs of blanks, escapes (also an escaped backslash
// right before the closing quote), sigils, comment openers, brackets, and words of the
// expanded-syntax keyword table. Contents are given in source form (already escaped).
var c18StringPool = []string{"a\tb", "\t", "  lead", "trail  ", "a  b   c", `C:\\`, `dir\\sub\\`, `x\\\"y`, `\\`, `q\"q`, "please return the form", "let use type route", "validate expects handle",
	"# not a comment", "// neither", "/* nor this */", "@ $ % ~ > < : ? ! & *", "{", "}", "[(", ")]", "a: b, c", "=>", "|>", "\\x41", "\\u00e9", "caf\\xc3\\xa9", "\\xff", "\\x80\\x7f", "\\u00ff\\xfe", "it's", "tab\there", "end\\"}

func c18HostileStrings(rng *rand.Rand, src string) string {
	return c18DqRe.ReplaceAllStringFunc(src, func(m string) string {
		if rng.Intn(3) != 0 {
			return m
		}
		return "\"" + c18StringPool[rng.Intn(len(c18StringPool))] + "\""
	})
}

// c18OneLineBlocks folds blocks that hold a single simple statement onto one line
// (`if c { > 1 }`), a layout the parser accepts like any other.
var c18BlockRe = regexp.MustCompile(`\{\n[ \t]+([^\n{}#"]+)\n[ \t]*\}`)

func c18OneLineBlocks(rng *rand.Rand, src string) string {
	return c18BlockRe.ReplaceAllStringFunc(src, func(m string) string {
		if rng.Intn(2) == 0 {
			return m
		}
		sub := c18BlockRe.FindStringSubmatch(m)
		return "{ " + strings.TrimSpace(sub[1]) + " }"
	})
}

var c18DqRe = regexp.MustCompile(`"[^"\\\n]*"`)

func c18Examples() []string {
	var out []string
	for _, pat := range []string{"examples/*/*.glyph", "examples/*.glyph", "tests/fixtures/*.glyph", "tests/fixtures/*/*.glyph"} {
		fs, _ := filepath.Glob(filepath.Join(mon.Repo(), pat))
		for _, f := range fs {
			if b, err := os.ReadFile(f); err == nil && len(b) < 60000 {
				out = append(out, string(b))
			}
		}
	}
	return out
}

// c18Class names the construct behind a law failure so that recorded findings are specific.
func c18Class(src string, errText string) string {
	if regexp.MustCompile(`\r([^\n]|$)`).MatchString(src) {
		return "lone-cr" // a carriage return that is not part of CRLF: whitespace to the lexer, a line break to fmt
	}
	var cs []string
	has := func(re string) bool { return regexp.MustCompile(re).MatchString(src) }
	if has(`(?m)^\s*(break|continue)\s*$`) {
		cs = append(cs, "break-continue")
	}
	for _, k := range c18Keywords {
		if has(`(^|[^A-Za-z0-9_"])` + k + `([^A-Za-z0-9_"]|$)`) {
			cs = append(cs, "identifier-"+k)
			break
		}
	}
	if has(`\bmatch\b`) {
		cs = append(cs, "match")
	}
	if has(`\basync\b|\bawait\b`) {
		cs = append(cs, "async")
	}
	if has(`(?m)^\s*@\s*(ws|websocket|static)\b`) {
		cs = append(cs, "ws-or-static-route")
	}
	if has(`(?m)^\s*(import|from|module|const|macro|test|contract|provider|trait|impl)\b`) {
		cs = append(cs, "module-level-keyword")
	}
	if has(`\|>`) {
		cs = append(cs, "pipe")
	}
	if len(cs) == 0 {
		cs = append(cs, "core-syntax")
	}
	return strings.Join(cs, "+")
}

type c18Params struct {
	Family string `json:"family"`
}

func c18Laws(w *mon.W, label string, idx int, src string) {
	// "general:" = inputs on which the recorded expanded-syntax findings may show; every other
	// profile is a fragment on which the laws hold today, so any failure there is new
	prof := "general:"
	if label == "generated-core" || label == "generated-strings" || label == "generated-oneline" {
		prof = "core-profile:"
	}
	if label == "generated-oneline" {
		prof = "one-line-blocks:"
	}
	// the round-trip law (L3) and the expanded-text law (L4) can have different profiles: for
	// keyword-named locals the expanded lexer is known to misread the text (recorded, L4), while
	// the round trip works and must keep working (L3)
	prof3 := prof
	if label == "keyword-named-locals" {
		prof3 = "keyword-named-locals:"
	}
	var f1, f2, ex, co string
	var pan interface{}
	w.Watch(fmt.Sprintf("%s input %d (%d bytes)", label, idx, len(src)), 30*time.Second, func() {
		defer func() { pan = recover() }()
		f1 = formatter.CanonicalizeSource(src)
		f2 = formatter.CanonicalizeSource(f1)
		ex = formatter.ExpandSource(src)
		co = formatter.CompactSource(ex)
	})
	wit := func(extra map[string]interface{}) map[string]interface{} {
		m := map[string]interface{}{"family": label, "index": idx, "source": clipN(src, 3000)}
		for k, v := range extra {
			m[k] = v
		}
		return m
	}
	if pan != nil {
		w.Violate("panic:"+c04Norm(fmt.Sprint(pan)), fmt.Sprintf("a rewriting function panicked: %v", pan), wit(nil))
		return
	}
	if f1 != f2 {
		w.Violate("L1:fmt-not-idempotent", "fmt(fmt(x)) differs from fmt(x)", wit(map[string]interface{}{"fmt1": clipN(f1, 600), "fmt2": clipN(f2, 600)}))
	}
	w.Count("L1_checked", 1)
	mod, err := parseModule(src)
	if err != nil {
		w.Count("not_parseable_idempotence_only", 1)
		return
	}
	w.Count("parseable", 1)
	// L2
	t0, e0 := c18Tokens(src)
	t1, e1 := c18Tokens(f1)
	if e0 == nil {
		if e1 != nil {
			w.Violate("L2:formatted-file-does-not-lex:"+c18Class(src, ""), "the formatted file no longer lexes: "+e1.Error(), wit(map[string]interface{}{"formatted": clipN(f1, 1200)}))
		} else if !reflect.DeepEqual(t0, t1) {
			k := 0
			for k < len(t0) && k < len(t1) && t0[k] == t1[k] {
				k++
			}
			d := "length"
			if k < len(t0) && k < len(t1) {
				d = fmt.Sprintf("token %d: %v %q nl=%v vs %v %q nl=%v", k, t0[k].T, t0[k].L, t0[k].NL, t1[k].T, t1[k].L, t1[k].NL)
			}
			w.Violate("L2:fmt-changes-tokens:"+c18Class(src, ""), "the formatted file has a different token sequence: "+d, wit(map[string]interface{}{"formatted": clipN(f1, 1200)}))
		}
		w.Count("L2_checked", 1)
	}
	a0 := c18AST(mod)
	// L4
	if m4, err := c18ParseExpanded(ex); err != nil {
		w.Violate("L4:expanded-text-does-not-parse:"+prof+c18ErrSig(err.Error()), "the expanded text does not parse: "+clipN(err.Error(), 160), wit(map[string]interface{}{"expanded": clipN(ex, 1500)}))
	} else if a4 := c18AST(m4); a4 != a0 {
		w.Violate("L4:expanded-text-parses-to-another-tree:"+prof+c18DiffSig(a0, a4), "the expanded text parses, but to a different syntax tree: "+c18FirstDiff(a0, a4), wit(map[string]interface{}{"expanded": clipN(ex, 1500)}))
	}
	w.Count("L4_checked", 1)
	// L3
	if m3, err := parseModule(co); err != nil {
		w.Violate("L3:compact-of-expand-does-not-parse:"+prof3+c18ErrSig(err.Error()), "compact(expand(x)) does not parse: "+clipN(err.Error(), 160), wit(map[string]interface{}{"round_trip": clipN(co, 1500)}))
	} else if a3 := c18AST(m3); a3 != a0 {
		w.Violate("L3:round-trip-changes-the-tree:"+prof3+c18DiffSig(a0, a3), "compact(expand(x)) parses to a different syntax tree: "+c18FirstDiff(a0, a3), wit(map[string]interface{}{"round_trip": clipN(co, 1500)}))
	}
	w.Count("L3_checked", 1)
}

func c18FirstDiff(a, b string) string {
	k := 0
	for k < len(a) && k < len(b) && a[k] == b[k] {
		k++
	}
	lo := k - 60
	if lo < 0 {
		lo = 0
	}
	return fmt.Sprintf("…%s ≠ …%s", clipN(a[lo:], 140), clipN(b[lo:], 140))
}

func c18Worker(in, out string) {
	w := mon.OpenWorker(in, out)
	var p c18Params
	json.Unmarshal(w.Params, &p)
	ex := c18Examples()
	corpus := c10Corpus()
	for i := w.From; i < w.To; i++ {
		w.Begin(i)
		rng := w.Rand("c18-"+p.Family, i)
		var src string
		nt := true
		switch p.Family {
		case "examples":
			if i >= len(ex) {
				continue
			}
			src = ex[i]
		case "examples-layout":
			src = c18Decorate(rng, ex[i%len(ex)], false)
		case "generated":
			f := gen.FullInterp()
			f.IllTyped = 0
			g := gen.New(rng, f)
			prog := g.Program(2 + rng.Intn(7))
			pat, _ := prog.RoutePath("/t")
			src = c18Decorate(rng, prog.Source(pat), i%2 == 0)
		case "generated-core":
			f := gen.Features{Floats: true, Strings: true, Arrays: true, Objects: true, While: true, For: true, Switch: true, StatusReturn: true, BuiltinsCore: true, BuiltinsInterp: true,
				LogicRhsMayFail: true, EqIntFloat: true, DivZero: true, IndexOOR: true, NestedReturn: true, DeclInBranch: true, Guards: true}
			g := gen.New(rng, f)
			prog := g.Program(2 + rng.Intn(7))
			pat, _ := prog.RoutePath("/t")
			src = prog.Source(pat)
			if i%5 == 1 {
				// statement keywords directly followed by a parenthesis: `validate (..)`, `return (..) :: 201` in expanded text
				src += "\n@ GET /paren {\n  $ a = 1\n  ? (a > 0) :: 400 \"bad\"\n  if a > 5 {\n    > (a + 1) :: 201\n  }\n  > (a + 2) * 3\n}\n"
			}
			if i%3 == 0 {
				src = c18Decorate(rng, src, false)
			}
		case "generated-strings":
			f := gen.Features{Floats: true, Strings: true, Arrays: true, Objects: true, While: true, For: true, Switch: true, StatusReturn: true, BuiltinsCore: true, BuiltinsInterp: true,
				LogicRhsMayFail: true, EqIntFloat: true, DivZero: true, IndexOOR: true, NestedReturn: true, DeclInBranch: true}
			g := gen.New(rng, f)
			prog := g.Program(2 + rng.Intn(7))
			pat, _ := prog.RoutePath("/t")
			src = c18HostileStrings(rng, prog.Source(pat))
			if i%4 == 0 {
				src = c18Decorate(rng, src, false)
			}
			if i%150 == 7 {
				// one very long line (an inlined blob): 70 000 characters in a string literal
				src = strings.Replace(src, "@ GET /t", "@ GET /blob {\n  > \""+strings.Repeat("QUJD", 17500)+"\"\n}\n\n@ GET /t", 1)
			}
		case "generated-oneline":
			f := gen.Features{Floats: true, Strings: true, Arrays: true, Objects: true, While: true, For: true, Switch: true, StatusReturn: true, BuiltinsCore: true, BuiltinsInterp: true,
				LogicRhsMayFail: true, EqIntFloat: true, DivZero: true, IndexOOR: true, NestedReturn: true, DeclInBranch: true}
			g := gen.New(rng, f)
			prog := g.Program(2 + rng.Intn(7))
			pat, _ := prog.RoutePath("/t")
			src = c18OneLineBlocks(rng, prog.Source(pat))
		case "keyword-named-locals":
			// identifiers spelled like expanded-syntax keywords, used only where the tools handle
			// them today (after `$`, after `in`, inside expressions — never as the first word of a
			// line): the round trip must keep giving the same tree
			kw := []string{"type", "queue", "command", "handle", "route", "cron", "func"}[rng.Intn(7)]
			kw2 := []string{"type", "queue", "command", "handle", "route", "cron", "func"}[rng.Intn(7)]
			if kw2 == kw {
				kw2 = "plain"
			}
			a, b := rng.Intn(9)+1, rng.Intn(9)+1
			switch rng.Intn(4) {
			case 0:
				src = fmt.Sprintf("@ GET /t {\n  $ %s = [%d, %d, 2]\n  $ n = 0\n  for job in %s {\n    n = n + job\n  }\n  if n == length(%s) {\n    > {a: n}\n  }\n  while n > length(%s) {\n    n = n - 1\n  }\n  > {b: n, c: %s}\n}\n", kw, a, b, kw, kw, kw, kw)
			case 1:
				src = fmt.Sprintf("@ GET /t/:pin {\n  $ %s = \"email\"\n  $ %s = %d\n  if %s == \"email\" {\n    > {x: %s + %d}\n  }\n  if pin == %s {\n    > {y: %s}\n  }\n  > {z: [%s, %s]}\n}\n", kw, kw2, a, kw, kw2, b, kw, kw2, kw, kw2)
			case 2:
				src = fmt.Sprintf("@ GET /t {\n  $ %s = %d\n  $ acc = 0\n  while %s > acc {\n    acc = acc + %d\n  }\n  switch %s {\n    case %d {\n      > {hit: %s}\n    }\n    default {\n      > {miss: acc - %s}\n    }\n  }\n}\n", kw, a*3, kw, b, kw, a*3, kw, kw)
			default:
				src = fmt.Sprintf("@ GET /t {\n  $ %s = {a: %d, s: \"x\"}\n  $ %s = [%d]\n  $ m = match %s.a {\n    %d => %s[0]\n    _ => 0\n  }\n  > {m: m, o: %s, l: %s}\n}\n", kw, a, kw2, b, kw, a, kw2, kw, kw2)
			}
		case "bytes":
			if rng.Intn(3) == 0 || len(corpus) == 0 {
				b := make([]byte, rng.Intn(300))
				rng.Read(b)
				src = string(b)
			} else {
				src = string(c10Mutate(rng, corpus[rng.Intn(len(corpus))]))
			}
		}
		c18Laws(w, p.Family, i, src)
		w.Case(mon.Hash(src), nt && len(src) > 0)
		if i%700 == 1 && p.Family == "generated" {
			w.Sample(map[string]interface{}{"family": p.Family, "source": clipN(src, 1200)})
		}
	}
	w.Done()
}

func checkC18(tier string) {
	r := mon.New("C18", tier, "exploration")
	r.Rule = "repository examples and fixtures (as they are, and with layout noise: trailing blanks, tabs, comments full of sigils, CRLF, BOM, blank runs), generated programs with identifiers renamed to the expanded-syntax keywords (route type let return middleware use expects validate handle cron command queue func), and mutated / random byte strings; laws L1 idempotence (all inputs), L2 token preservation, L3 expand->compact round trip on the syntax tree, L4 expanded text parses to the same tree (parseable inputs); distinct = input hash; non-trivial = non-empty input"
	onDeath := func(i int, co mon.ChildOut, hang *mon.Rec) bool {
		if hang != nil {
			r.Violate("does-not-terminate", hang.Desc, map[string]interface{}{"index": i})
			return true
		}
		r.Violate("process-death:"+co.Death, mon.PanicExcerpt(co.Tail, 10), map[string]interface{}{"index": i})
		return true
	}
	nex := len(c18Examples())
	r.Set("example_files", nex)
	r.RunBatch(mon.Batch{Worker: "c18", Tag: "examples", N: nex, Chunk: (nex + 7) / 8, Parallel: 8, Params: c18Params{Family: "examples"}, OnDeath: onDeath, Timeout: 20 * time.Minute})
	nl := r.Pick(nex*6, nex*100)
	r.RunBatch(mon.Batch{Worker: "c18", Tag: "layout", N: nl, Chunk: (nl + 15) / 16, Parallel: 16, Params: c18Params{Family: "examples-layout"}, OnDeath: onDeath, Timeout: 20 * time.Minute})
	ng := r.Pick(12000, 400000)
	r.RunBatch(mon.Batch{Worker: "c18", Tag: "generated", N: ng, Chunk: (ng + 15) / 16, Parallel: 16, Params: c18Params{Family: "generated"}, OnDeath: onDeath, Timeout: 40 * time.Minute})
	nc := r.Pick(12000, 400000)
	r.RunBatch(mon.Batch{Worker: "c18", Tag: "generated-core", N: nc, Chunk: (nc + 15) / 16, Parallel: 16, Params: c18Params{Family: "generated-core"}, OnDeath: onDeath, Timeout: 40 * time.Minute})
	nsx := r.Pick(12000, 400000)
	r.RunBatch(mon.Batch{Worker: "c18", Tag: "generated-strings", N: nsx, Chunk: (nsx + 15) / 16, Parallel: 16, Params: c18Params{Family: "generated-strings"}, OnDeath: onDeath, Timeout: 40 * time.Minute})
	nkw := r.Pick(600, 6000)
	r.RunBatch(mon.Batch{Worker: "c18", Tag: "keyword-named-locals", N: nkw, Chunk: (nkw + 15) / 16, Parallel: 16, Params: c18Params{Family: "keyword-named-locals"}, OnDeath: onDeath, Timeout: 40 * time.Minute})
	nol := r.Pick(6000, 200000)
	r.RunBatch(mon.Batch{Worker: "c18", Tag: "generated-oneline", N: nol, Chunk: (nol + 15) / 16, Parallel: 16, Params: c18Params{Family: "generated-oneline"}, OnDeath: onDeath, Timeout: 40 * time.Minute})
	nb := r.Pick(20000, 800000)
	r.RunBatch(mon.Batch{Worker: "c18", Tag: "bytes", N: nb, Chunk: (nb + 15) / 16, Parallel: 16, Params: c18Params{Family: "bytes"}, OnDeath: onDeath, Timeout: 40 * time.Minute})
	if r.Counter("L3_checked") < 1000 {
		r.Inconclusive("fewer than 1000 parseable inputs reached the round-trip laws")
	}
	r.Floor(5000)
	r.Finish()
}

var c18QuoteRe = regexp.MustCompile("`[^`]*`|'[^']*'|\"[^\"]*\"")
var c18LineRe = regexp.MustCompile(`(?i)(error )?at line [0-9]+, column [0-9]+:?`)
var c18WordRe = regexp.MustCompile(`[A-Za-z_][A-Za-z0-9_]*`)

// c18ErrSig: the diagnostic with positions, quoted text and numbers removed.
func c18ErrSig(e string) string {
	e = c18LineRe.ReplaceAllString(e, "")
	if i := strings.Index(e, "Hint:"); i > 0 {
		e = e[:i]
	}
	e = c18QuoteRe.ReplaceAllString(e, "Q")
	e = strings.Join(strings.Fields(e), " ")
	return c04Norm(e)
}

// c18DiffSig: the AST field path at which two normalised trees first differ.
func c18DiffSig(a, b string) string {
	k := 0
	for k < len(a) && k < len(b) && a[k] == b[k] {
		k++
	}
	// walk back to find the enclosing "Type{... Field:" context
	lo := k
	for lo > 0 && k-lo < 200 {
		lo--
	}
	ctx := a[lo:k]
	fields := regexp.MustCompile(`([A-Z][A-Za-z]+)\{|([A-Z][A-Za-z]+):`).FindAllString(ctx, -1)
	if len(fields) > 3 {
		fields = fields[len(fields)-3:]
	}
	return strings.Join(fields, "")
}
