package main

import (
	"encoding/json"
	"fmt"
	"io"
	"os"

	"verifharness/mon"
)

// vcheck HTTPDEBUG x  < job.json   — run one HJob through the worker (both modes unless "interp" is set) and print what came back.
func init() {
	checks["HTTPDEBUG"] = func(string) {
		b, _ := io.ReadAll(os.Stdin)
		var j HJob
		if err := json.Unmarshal(b, &j); err != nil {
			fmt.Println(err)
			return
		}
		r := mon.New("HTTPDEBUG", "quick", "exploration")
		j2 := j
		j.ID, j2.ID = 0, 1
		j2.Interp = true
		res, err := httpRun(r, []HJob{j, j2}, HRunOpts{Tag: "dbg", Parallel: 2})
		if err != nil {
			fmt.Println(err)
			return
		}
		for id := 0; id < 2; id++ {
			o := res[id]
			if o == nil {
				fmt.Println(id, "no result")
				continue
			}
			fmt.Printf("--- interp=%v compiled=%v parse_err=%q setup_err=%q died=%q %s\n", id == 1, o.Compiled, o.ParseErr, o.SetupErr, o.Died, o.Death)
			for i, rs := range o.Resps {
				fmt.Printf("  %s %s -> %d %q ct=%s dropped=%v %s\n", j.Reqs[i].M, j.Reqs[i].P, rs.S, rs.B, rs.CT, rs.Dropped, rs.Panic)
			}
		}
	}
}
