package main

// C12 — Programs reach providers only through the allow-list.
//
// Probe-provider invocation monitor + crash monitor. A probe provider (harness type) has
// methods spelled like allow-listed operations and like dangerous Go methods; each records
// its invocation. From GlyphLang source (interpreter, custom provider injection) and through
// interpreter.CallMethod, every name x spelling x call form x argument vector is tried:
// an invocation record for a name outside the allow-list, or a panic / process death from
// any provider call (probe or the real in-memory providers), refutes the property.

import (
	"encoding/json"
	"fmt"
	"reflect"
	"strings"
	"sort"
	"sync"
	"sync/atomic"
	"time"
	"unicode"

	"github.com/glyphlang/glyph/pkg/ast"
	"github.com/glyphlang/glyph/pkg/database"
	"github.com/glyphlang/glyph/pkg/httpclient"
	"github.com/glyphlang/glyph/pkg/interpreter"
	"github.com/glyphlang/glyph/pkg/mongodb"
	"github.com/glyphlang/glyph/pkg/redis"

	"verifharness/mon"
)

func init() {
	checks["C12"] = checkC12
	workers["c12"] = c12Worker
}

// Probe is the probe provider. Its methods are declared below; all of them record.
type Probe struct {
	mu  sync.Mutex
	log []string
}

func (p *Probe) rec(name string, args ...interface{}) (interface{}, error) {
	p.mu.Lock()
	p.log = append(p.log, name)
	p.mu.Unlock()
	return "ran:" + name, nil
}
func (p *Probe) take() []string {
	p.mu.Lock()
	defer p.mu.Unlock()
	l := p.log
	p.log = nil
	return l
}

// spelled like allow-listed operations
func (p *Probe) Get(a ...interface{}) (interface{}, error)      { return p.rec("Get", a...) }
func (p *Probe) Set(a ...interface{}) (interface{}, error)      { return p.rec("Set", a...) }
func (p *Probe) Create(a ...interface{}) (interface{}, error)   { return p.rec("Create", a...) }
func (p *Probe) Delete(a ...interface{}) (interface{}, error)   { return p.rec("Delete", a...) }
func (p *Probe) FlushAll(a ...interface{}) (interface{}, error) { return p.rec("FlushAll", a...) }
func (p *Probe) HGetAll(a ...interface{}) (interface{}, error)  { return p.rec("HGetAll", a...) }
func (p *Probe) Length(a ...interface{}) (interface{}, error)   { return p.rec("Length", a...) }
func (p *Probe) Filter(a ...interface{}) (interface{}, error)   { return p.rec("Filter", a...) }
func (p *Probe) Keys(a ...interface{}) (interface{}, error)     { return p.rec("Keys", a...) }
func (p *Probe) Find(a ...interface{}) (interface{}, error)     { return p.rec("Find", a...) }
func (p *Probe) Complete(a ...interface{}) (interface{}, error) { return p.rec("Complete", a...) }
func (p *Probe) Post(a ...interface{}) (interface{}, error)     { return p.rec("Post", a...) }

// fixed-arity, typed parameters (allow-listed names): wrong arguments must error, not crash
func (p *Probe) Update(id int64, data map[string]interface{}) (interface{}, error) {
	return p.rec("Update", id, data)
}
func (p *Probe) Count(column string, value interface{}) int64 { p.rec("Count"); return 1 }
func (p *Probe) Insert(rows []interface{}) error              { p.rec("Insert"); return nil }
func (p *Probe) Expire(key string, seconds int) bool          { p.rec("Expire"); return true }
func (p *Probe) Table(name string) *Probe                     { p.rec("Table"); return p }
func (p *Probe) Where(f func(int) bool) string                { p.rec("Where"); return "w" }
func (p *Probe) Select(p2 *Probe, ch chan int) float64        { p.rec("Select"); return 0 }

// spelled like dangerous Go methods: never allow-listed
func (p *Probe) Close(a ...interface{}) (interface{}, error)       { return p.rec("Close", a...) }
func (p *Probe) Query(a ...interface{}) (interface{}, error)       { return p.rec("Query", a...) }
func (p *Probe) Exec(a ...interface{}) (interface{}, error)        { return p.rec("Exec", a...) }
func (p *Probe) Reset(a ...interface{}) (interface{}, error)       { return p.rec("Reset", a...) }
func (p *Probe) Connect(a ...interface{}) (interface{}, error)     { return p.rec("Connect", a...) }
func (p *Probe) Shutdown(a ...interface{}) (interface{}, error)    { return p.rec("Shutdown", a...) }
func (p *Probe) SetPassword(a ...interface{}) (interface{}, error) { return p.rec("SetPassword", a...) }
func (p *Probe) DropTable(a ...interface{}) (interface{}, error)   { return p.rec("DropTable", a...) }
func (p *Probe) Raw(a ...interface{}) (interface{}, error)         { return p.rec("Raw", a...) }
func (p *Probe) Eval(a ...interface{}) (interface{}, error)        { return p.rec("Eval", a...) }
func (p *Probe) Config(a ...interface{}) (interface{}, error)      { return p.rec("Config", a...) }
func (p *Probe) Lock(a ...interface{}) (interface{}, error)        { return p.rec("Lock", a...) }
func (p *Probe) Unlock(a ...interface{}) (interface{}, error)      { return p.rec("Unlock", a...) }
func (p *Probe) Run(a ...interface{}) (interface{}, error)         { return p.rec("Run", a...) }
func (p *Probe) System(a ...interface{}) (interface{}, error)      { return p.rec("System", a...) }
func (p *Probe) ReadFile(a ...interface{}) (interface{}, error)    { return p.rec("ReadFile", a...) }
func (p *Probe) WriteFile(a ...interface{}) (interface{}, error)   { return p.rec("WriteFile", a...) }
func (p *Probe) Env(a ...interface{}) (interface{}, error)         { return p.rec("Env", a...) }
func (p *Probe) Token(a ...interface{}) (interface{}, error)       { return p.rec("Token", a...) }
func (p *Probe) Secret(a ...interface{}) (interface{}, error)      { return p.rec("Secret", a...) }
func (p *Probe) Transaction(a ...interface{}) (interface{}, error) { return p.rec("Transaction", a...) }
func (p *Probe) BulkInsert(a ...interface{}) (interface{}, error)  { return p.rec("BulkInsert", a...) }
func (p *Probe) Getx(a ...interface{}) (interface{}, error)        { return p.rec("Getx", a...) }
func (p *Probe) GetAll(a ...interface{}) (interface{}, error)      { return p.rec("GetAll", a...) }
func (p *Probe) Sets(a ...interface{}) (interface{}, error)        { return p.rec("Sets", a...) }
func (p *Probe) ſet(a ...interface{}) (interface{}, error)         { return p.rec("ſet", a...) }

func c12Methods(obj interface{}) []string {
	t := reflect.TypeOf(obj)
	var out []string
	for i := 0; i < t.NumMethod(); i++ {
		out = append(out, t.Method(i).Name)
	}
	return out
}

// allowListed: the allow-list is taken from the running code (the global fallback list
// that IsProviderMethodAllowed consults for an unregistered provider type).
//
// The answer for every name is taken ONCE per process, before anything registers a custom
// provider (c12Snapshot): what one provider registers must not widen what another exposes.
func c12Allowed(name string) bool {
	c12SnapOnce.Do(c12Snapshot)
	c12SnapMu.Lock()
	defer c12SnapMu.Unlock()
	if v, ok := c12Snap[name]; ok {
		return v
	}
	v := interpreter.IsProviderMethodAllowed("\x00unregistered", name)
	c12Snap[name] = v
	return v
}

var c12SnapOnce sync.Once
var c12SnapMu sync.Mutex
var c12Snap = map[string]bool{}
var c12Registered atomic.Bool

func c12Snapshot() {
	names := c12Methods(&Probe{})
	for _, obj := range c12RealProviders() {
		names = append(names, c12Methods(obj)...)
	}
	for _, n := range names {
		for _, sp := range append(c12Spellings(n), n) {
			c12Snap[sp] = interpreter.IsProviderMethodAllowed("\x00unregistered", sp)
		}
	}
}

func c12Spellings(name string) []string {
	lowerFirst := string(unicode.ToLower(rune(name[0]))) + name[1:]
	var snake strings.Builder
	for i, r := range name {
		if i > 0 && unicode.IsUpper(r) {
			snake.WriteByte('_')
		}
		snake.WriteRune(unicode.ToLower(r))
	}
	return []string{name, strings.ToLower(name), strings.ToUpper(name), lowerFirst, snake.String(), name + "_", "_" + name, name + " ", " " + name, name + "\x00", strings.Replace(name, "e", "е", 1), strings.Replace(name, "S", "ſ", 1), strings.Replace(name, "s", "ſ", 1), name + "." + name}
}

var c12ArgPool = []interface{}{nil, int64(7), 2.5, "s", true, []interface{}{int64(1), "x"}, map[string]interface{}{"id": int64(1), "k": []interface{}{int64(1)}}, int64(-1), "", []interface{}{}, map[string]interface{}{}}

func c12ArgVectors() [][]interface{} {
	vs := [][]interface{}{{}}
	for _, a := range c12ArgPool {
		vs = append(vs, []interface{}{a})
		for _, b := range c12ArgPool {
			vs = append(vs, []interface{}{a, b})
		}
	}
	for i := 0; i < len(c12ArgPool); i++ {
		a, b, c := c12ArgPool[i], c12ArgPool[(i+3)%len(c12ArgPool)], c12ArgPool[(i+5)%len(c12ArgPool)]
		vs = append(vs, []interface{}{a, b, c}, []interface{}{a, b, c, a}, []interface{}{a, b, c, a, b})
	}
	return vs
}

func c12Lit(v interface{}) string {
	switch x := v.(type) {
	case nil:
		return "null"
	case int64:
		if x < 0 {
			return fmt.Sprintf("(0 - %d)", -x)
		}
		return fmt.Sprint(x)
	case float64:
		return fmt.Sprint(x)
	case string:
		return fmt.Sprintf("%q", x)
	case bool:
		return fmt.Sprint(x)
	case []interface{}:
		var p []string
		for _, e := range x {
			p = append(p, c12Lit(e))
		}
		return "[" + strings.Join(p, ", ") + "]"
	case map[string]interface{}:
		var p []string
		for _, k := range []string{"id", "k"} {
			if e, ok := x[k]; ok {
				p = append(p, k+": "+c12Lit(e))
			}
		}
		return "{" + strings.Join(p, ", ") + "}"
	}
	return "null"
}

type c12Job struct {
	Kind   string `json:"kind"` // lib-probe | lib-real | src-probe | src-real
	Target string `json:"target"`
	Name   string `json:"name"`
	Spell  string `json:"spelling"`
	Form   string `json:"form,omitempty"`
}

func c12Jobs() []c12Job {
	var jobs []c12Job
	probe := &Probe{}
	for _, m := range c12Methods(probe) {
		for _, sp := range c12Spellings(m) {
			jobs = append(jobs, c12Job{Kind: "lib-probe", Target: "Probe", Name: m, Spell: sp})
		}
		for _, form := range []string{"p.m(a)", "m(p, a)", "p.t.m(a)", "o.p.m(a)", "p |> m", "p.m"} {
			for _, sp := range []string{m, strings.ToLower(m), strings.ToUpper(m), string(unicode.ToLower(rune(m[0]))) + m[1:]} {
				if !regexpIdent(sp) {
					continue
				}
				jobs = append(jobs, c12Job{Kind: "src-probe", Target: "Probe", Name: m, Spell: sp, Form: form})
			}
		}
	}
	reals := c12RealProviders()
	var realNames []string
	for name := range reals {
		realNames = append(realNames, name)
	}
	sort.Strings(realNames) // map order differs from process to process; parent and children must agree on the job list
	for _, name := range realNames {
		obj := reals[name]
		for _, m := range c12Methods(obj) {
			for _, sp := range []string{m, strings.ToLower(m), string(unicode.ToLower(rune(m[0]))) + m[1:]} {
				jobs = append(jobs, c12Job{Kind: "lib-real", Target: name, Name: m, Spell: sp})
			}
			jobs = append(jobs, c12Job{Kind: "src-real", Target: name, Name: m, Spell: string(unicode.ToLower(rune(m[0]))) + m[1:], Form: "p.m(a)"})
		}
	}
	// an allow-listed name called on one provider and then on another that has no such method: whatever the first call
	// left behind (a lookup cache, a resolved method) must not make the second provider run anything
	for _, an := range realNames {
		for _, m := range c12Methods(reals[an]) {
			if !c12Allowed(m) {
				continue
			}
			jobs = append(jobs, c12Job{Kind: "lib-cross", Target: an, Name: m, Spell: string(unicode.ToLower(rune(m[0]))) + m[1:]})
		}
	}
	// last: a custom provider registers method names that other providers also have as Go
	// methods (Query, Close, Exec, ...). That must not make them reachable on any other provider.
	for _, m := range c12Methods(probe) {
		if c12Allowed(m) {
			continue
		}
		for _, sp := range []string{m, strings.ToLower(m), string(unicode.ToLower(rune(m[0]))) + m[1:]} {
			jobs = append(jobs, c12Job{Kind: "reg-probe", Target: "Probe", Name: m, Spell: sp})
		}
	}
	return jobs
}

func regexpIdent(s string) bool {
	for i, r := range s {
		if !(r == '_' || r >= 'a' && r <= 'z' || r >= 'A' && r <= 'Z' || i > 0 && r >= '0' && r <= '9') {
			return false
		}
	}
	return s != ""
}

func c12RealProviders() map[string]interface{} {
	db := database.NewMockDatabase()
	return map[string]interface{}{
		"MockDatabase":     db,
		"MockTableHandler": db.Table("users"),
		"RedisMock":        redis.NewMockHandler(),
		"MongoMock":        mongodb.NewMockHandler(),
		"HTTPHandler":      httpclient.NewHandler(),
	}
}

func c12Worker(in, out string) {
	w := mon.OpenWorker(in, out)
	jobs := c12Jobs()
	vectors := c12ArgVectors()
	for i := w.From; i < w.To && i < len(jobs); i++ {
		j := jobs[i]
		w.Begin(i)
		w.Case(mon.Hash(j), true)
		w.Count("kind:"+j.Kind, 1)
		switch j.Kind {
		case "reg-probe":
			if !c12Registered.Swap(true) {
				c12Allowed(j.Name) // make sure the snapshot exists before the registration
				interpreter.RegisterProviderMethods("VerifSearch", c12Methods(&Probe{}))
				w.Count("custom_provider_registrations", 1)
			}
			probe := &Probe{}
			for _, args := range [][]interface{}{{}, {"x"}, {int64(1), "y"}} {
				var pan interface{}
				w.Watch(fmt.Sprintf("CallMethod(probe, %q) after a custom provider registered that name", j.Spell), 30*time.Second, func() {
					defer func() { pan = recover() }()
					interpreter.CallMethod(probe, j.Spell, args...)
				})
				wit := map[string]interface{}{"job": j, "registered_by": "RegisterProviderMethods(\"VerifSearch\", <all probe method names>)"}
				if pan != nil {
					w.Violate("panic:CallMethod:Probe:"+c12PanicClass(pan), fmt.Sprintf("CallMethod(probe, %q) panicked: %v", j.Spell, pan), wit)
					break
				}
				for _, ran := range probe.take() {
					if !c12Allowed(ran) {
						w.Violate("not-allow-listed-method-invoked:after-registration:"+ran, fmt.Sprintf("after a custom provider registered the method name %q, CallMethod(probe, %q) on ANOTHER provider invoked %s, which is not on that provider's allow-list", j.Name, j.Spell, ran), wit)
					}
				}
			}
			w.Count("calls_after_registration", 1)
		case "lib-cross":
			reals := c12RealProviders()
			first := reals[j.Target]
			for _, args := range [][]interface{}{{}, {"s"}, {"s", int64(1)}} {
				func() {
					defer func() { recover() }()
					interpreter.CallMethod(first, j.Spell, args...)
				}()
				for bn, other := range reals {
					if bn == j.Target {
						continue
					}
					has := false
					for _, om := range c12Methods(other) {
						if strings.EqualFold(om, j.Name) {
							has = true
						}
					}
					if has {
						continue
					}
					var pan interface{}
					var err error
					w.Watch(fmt.Sprintf("CallMethod(%s, %q) after the same name on %s", bn, j.Spell, j.Target), 30*time.Second, func() {
						defer func() { pan = recover() }()
						_, err = interpreter.CallMethod(other, j.Spell, args...)
					})
					wit := map[string]interface{}{"job": j, "second_provider": bn, "args": fmt.Sprintf("%#v", args)}
					if pan != nil {
						w.Violate("panic:CallMethod:cross:"+c12PanicClass(pan), fmt.Sprintf("CallMethod(%s, %q) after CallMethod(%s, %q) panicked: %v", bn, j.Spell, j.Target, j.Spell, clipN(fmt.Sprint(pan), 160)), wit)
					} else if err == nil {
						w.Violate("method-the-provider-does-not-have-succeeded:"+bn, fmt.Sprintf("%s has no method %s, yet CallMethod(%s, %q) succeeded after the same name had been called on %s: some other Go method of %s ran", bn, j.Name, bn, j.Spell, j.Target, bn), wit)
					}
					w.Count("cross_provider_second_calls", 1)
				}
			}
		case "lib-probe", "lib-real":
			var obj interface{}
			var probe *Probe
			if j.Kind == "lib-probe" {
				probe = &Probe{}
				obj = probe
			} else {
				obj = c12RealProviders()[j.Target]
			}
			for vi, args := range vectors {
				if j.Kind == "lib-real" && (j.Target == "HTTPHandler") && vi > 40 {
					break // outbound calls fail fast (no network) but each still costs a dial
				}
				if rm, ok := obj.(*redis.MockHandler); ok {
					// the keys the argument pool names exist before every call: an operation on a live key takes other
					// paths than one on a missing key (expire with a non-positive timeout, incr on a string, ...)
					rm.Set("s", "v")
					rm.Set("", "v")
					rm.Set("7", "1")
				}
				var pan interface{}
				var res interface{}
				var err error
				w.Watch(fmt.Sprintf("CallMethod(%s, %q, %d args)", j.Target, j.Spell, len(args)), 30*time.Second, func() {
					defer func() { pan = recover() }()
					res, err = interpreter.CallMethod(obj, j.Spell, args...)
				})
				_ = res
				wit := map[string]interface{}{"job": j, "args": fmt.Sprintf("%#v", args)}
				if pan != nil {
					w.Violate(fmt.Sprintf("panic:CallMethod:%s:%s", j.Target, c12PanicClass(pan)), fmt.Sprintf("CallMethod(%s, %q, %s) panicked: %v", j.Target, j.Spell, clipN(fmt.Sprintf("%#v", args), 120), clipN(fmt.Sprint(pan), 160)), wit)
					break
				}
				if probe != nil {
					for _, ran := range probe.take() {
						if !c12Allowed(ran) {
							w.Violate("not-allow-listed-method-invoked:lib:"+ran, fmt.Sprintf("CallMethod(probe, %q) invoked %s, which is not on the allow-list", j.Spell, ran), wit)
						} else {
							w.Count("allow_listed_invocations", 1)
						}
					}
				} else if err == nil && !c12AllowedFold(j.Spell) {
					w.Violate("not-allow-listed-method-invoked:real:"+j.Target+":"+j.Name, fmt.Sprintf("CallMethod(%s, %q) succeeded although no allow-listed name matches", j.Target, j.Spell), wit)
				}
				if err != nil {
					w.Count("errors_returned", 1)
				}
			}
		case "src-probe", "src-real":
			c12Source(w, j, vectors)
		}
	}
	w.Done()
}

func c12AllowedFold(name string) bool {
	if c12Allowed(name) {
		return true
	}
	// the runtime resolves names case-insensitively against the list: consult it the same way
	probe := &Probe{}
	for _, m := range append(c12Methods(probe), "Ttl", "Incr", "Decr", "HGet", "HSet", "HDel", "HExists", "LPush", "RPush", "LPop", "RPop", "LLen", "LRange", "SAdd", "SRem", "SMembers", "SIsMember", "Publish", "Subscribe", "Ping", "Del", "Exists", "Collection", "FindOne", "InsertOne", "InsertMany", "UpdateOne", "UpdateMany", "DeleteOne", "DeleteMany", "CountDocuments", "Aggregate", "CreateIndex", "DropIndex", "First", "All", "Save", "Limit", "Offset", "Order", "CountWhere", "NextId", "Put", "Patch", "Chat", "Stream", "Embed", "ListModels", "TokenCount", "String", "Int", "Bool", "Float", "Len", "IsZero") {
		if strings.EqualFold(m, name) && c12Allowed(m) {
			return true
		}
	}
	return false
}

func c12PanicClass(p interface{}) string {
	s := fmt.Sprint(p)
	switch {
	case strings.Contains(s, "zero Value"):
		return "reflect-zero-value-argument"
	case strings.Contains(s, "reflect:") && strings.Contains(s, "as type"):
		return "reflect-wrong-argument-type"
	case strings.Contains(s, "uncomparable"):
		return "uncomparable-comparison"
	case strings.Contains(s, "nil map") || strings.Contains(s, "nil pointer"):
		return "nil-dereference"
	}
	return c04Norm(s)
}

// c12Source calls the method from GlyphLang source on an interpreter with the provider injected.
func c12Source(w *mon.W, j c12Job, vectors [][]interface{}) {
	probe := &Probe{}
	var provider interface{} = probe
	ptype := "Probe"
	if j.Kind == "src-real" {
		provider = c12RealProviders()[j.Target]
		ptype = "Realprov"
	}
	step := 7
	if j.Kind == "src-real" {
		step = 3
	}
	for vi := 0; vi < len(vectors); vi += step {
		args := vectors[vi]
		var al []string
		for _, a := range args {
			al = append(al, c12Lit(a))
		}
		as := strings.Join(al, ", ")
		var body string
		switch j.Form {
		case "p.m(a)":
			body = fmt.Sprintf("  $ r = p.%s(%s)\n  > {x: \"done\"}\n", j.Spell, as)
		case "m(p, a)":
			sep := ""
			if as != "" {
				sep = ", "
			}
			body = fmt.Sprintf("  $ r = %s(p%s%s)\n  > {x: \"done\"}\n", j.Spell, sep, as)
		case "p.t.m(a)":
			body = fmt.Sprintf("  $ r = p.things.%s(%s)\n  > {x: \"done\"}\n", j.Spell, as)
		case "o.p.m(a)":
			body = fmt.Sprintf("  $ o = {p: p}\n  $ r = o.p.%s(%s)\n  > {x: \"done\"}\n", j.Spell, as)
		case "p |> m":
			body = fmt.Sprintf("  $ r = p |> %s\n  > {x: \"done\"}\n", j.Spell)
		case "p.m":
			body = fmt.Sprintf("  $ r = p.%s\n  > {x: \"done\"}\n", j.Spell)
		}
		src := fmt.Sprintf("@ GET /t {\n  %% p: %s\n%s}\n", ptype, body)
		mod, err := parseModule(src)
		if err != nil {
			w.Count("source_form_not_parseable", 1)
			return
		}
		ip := interpreter.NewInterpreter()
		ip.SetProviderHandler(ptype, provider)
		if err := ip.LoadModule(*mod); err != nil {
			w.Count("module_load_failed", 1)
			return
		}
		var o engOut
		w.Watch("source call "+j.Form+" "+j.Spell, 30*time.Second, func() {
			o = c12Run(ip, mod)
		})
		wit := map[string]interface{}{"job": j, "source": src}
		if o.Kind == "panic" {
			w.Violate(fmt.Sprintf("panic:source:%s:%s", j.Target, c12PanicClassStr(o.Err)), fmt.Sprintf("%s: the provider call panicked: %s", strings.TrimSpace(body), clipN(o.Err, 200)), wit)
			return
		}
		if j.Kind == "src-probe" {
			for _, ran := range probe.take() {
				if !c12Allowed(ran) {
					w.Violate("not-allow-listed-method-invoked:source:"+ran+":"+j.Form, fmt.Sprintf("%s invoked %s, which is not on the allow-list", strings.TrimSpace(strings.Split(body, "\n")[0]), ran), wit)
					return
				}
				w.Count("allow_listed_invocations", 1)
			}
		} else if o.Kind == "value" && !c12AllowedFold(j.Name) {
			w.Violate("not-allow-listed-method-invoked:source-real:"+j.Target+":"+j.Name, "a non-allow-listed method of a real provider returned normally from source: "+strings.TrimSpace(body), wit)
			return
		}
		if j.Form == "p |> m" || j.Form == "p.m" {
			return // no argument vectors for these forms
		}
	}
}

func c12PanicClassStr(s string) string { return c12PanicClass(s) }

func c12Run(ip *interpreter.Interpreter, mod *ast.Module) engOut {
	return runInterp(ip, mod, "/t")
}

func checkC12(tier string) {
	r := mon.New("C12", tier, "exploration")
	jobs := c12Jobs()
	r.Rule = "enumerated: every method of a probe provider (12 allow-listed spellings with variadic parameters, 7 allow-listed names with typed fixed-arity parameters, 26 names spelled like dangerous Go methods) and every exported method of the real in-memory providers (MockDatabase, MockTableHandler, Redis mock, MongoDB mock, HTTP handler) x 14 spellings (case, snake, padding, NUL, Unicode look-alikes) x call forms (p.m(a), m(p, a), p.t.m(a), o.p.m(a), p |> m, p.m) x argument vectors (arity 0-5 over null/int/float/string/bool/array/object/empty shapes), through interpreter.CallMethod and from GlyphLang source; distinct = (kind, target, name, spelling, form); every case is non-trivial"
	r.Assume("llm.Handler is not driven (its constructor needs a provider configuration and every call would be an outbound request); the HTTP handler is driven with a reduced argument set because each call attempts a connection")
	r.Set("enumerated_jobs", len(jobs))
	n := len(jobs)
	r.RunBatch(mon.Batch{Worker: "c12", N: n, Chunk: (n + 31) / 32, Parallel: 16, Timeout: 30 * time.Minute, OnDeath: func(i int, co mon.ChildOut, hang *mon.Rec) bool {
		desc := ""
		if i >= 0 && i < len(jobs) {
			b, _ := json.Marshal(jobs[i])
			desc = string(b)
		}
		if hang != nil {
			r.Violate("provider-call-does-not-return", hang.Desc, map[string]interface{}{"job": desc})
			return true
		}
		r.Violate("process-death:"+co.Death, "a provider call killed the process: "+desc+" "+clipN(mon.PanicExcerpt(co.Tail, 10), 500), map[string]interface{}{"job": desc})
		return true
	}})
	if r.Counter("allow_listed_invocations") == 0 {
		r.Inconclusive("no allow-listed probe method was ever invoked: the call path was not reached")
	}
	r.Floor(500)
	r.Finish()
}
