// vcheck: one binary, one sub-command per property.
//
//	vcheck Cxx quick|thorough
//	vcheck Cxx --replay <file>
//	vcheck worker <name> <in> <out>     (child-process role, used by the checks themselves)
package main

import (
	"encoding/json"
	"fmt"
	"os"
	"sort"
	"strconv"
)

var checks = map[string]func(tier string){}
var workers = map[string]func(in, out string){}
var prewarms []func()

func main() {
	if len(os.Args) >= 5 && os.Args[1] == "worker" {
		w, ok := workers[os.Args[2]]
		if !ok {
			fmt.Fprintf(os.Stderr, "unknown worker %q\n", os.Args[2])
			os.Exit(2)
		}
		w(os.Args[3], os.Args[4])
		return
	}
	if len(os.Args) >= 2 && os.Args[1] == "prewarm" {
		for _, p := range prewarms {
			p()
		}
		return
	}
	if len(os.Args) < 3 {
		ids := []string{}
		for k := range checks {
			ids = append(ids, k)
		}
		sort.Strings(ids)
		fmt.Fprintf(os.Stderr, "usage: vcheck <Cxx> quick|thorough|--replay <file>\nproperties: %v\n", ids)
		os.Exit(2)
	}
	id := os.Args[1]
	c, ok := checks[id]
	if !ok {
		fmt.Fprintf(os.Stderr, "no check for %q\n", id)
		os.Exit(2)
	}
	tier := os.Args[2]
	if tier == "--replay" {
		if len(os.Args) < 4 {
			fmt.Fprintln(os.Stderr, "--replay needs a file")
			os.Exit(2)
		}
		b, err := os.ReadFile(os.Args[3])
		if err != nil {
			fmt.Fprintln(os.Stderr, err)
			os.Exit(2)
		}
		var rp struct {
			Tier string `json:"tier"`
			Seed int64  `json:"seed"`
			Sig  string `json:"signature"`
		}
		if err := json.Unmarshal(b, &rp); err != nil {
			fmt.Fprintln(os.Stderr, err)
			os.Exit(2)
		}
		// Replaying = running the same deterministic case list (same seed and
		// tier) against the current tree; the check exits 1 with the same
		// VIOLATION line if the witness still fails.
		os.Setenv("VERIF_SEED", strconv.FormatInt(rp.Seed, 10))
		os.Setenv("VERIF_REPLAY_SIG", rp.Sig)
		fmt.Printf("replaying %s tier=%s seed=%d signature=%q\n", id, rp.Tier, rp.Seed, rp.Sig)
		tier = rp.Tier
	}
	if t := os.Getenv("VERIF_TIER"); t != "" && tier != "quick" && tier != "thorough" {
		tier = t
	}
	c(tier)
}
