#!/bin/bash
# setup_cmd: build the framework offline from files on disk and pre-warm the Go build cache.
set -u
ROOT=$(cd "$(dirname "$0")" && pwd)
export GOFLAGS=-mod=mod GOPROXY=off
unset GOTOOLCHAIN GOSUMDB 2>/dev/null
REPO=${VERIF_REPO:-/repo}
B="$ROOT/.build"; mkdir -p "$B"
sed "s#=> /repo#=> $REPO#" "$ROOT/harness/go.mod" > "$B/harness.mod"
cat "$REPO/go.sum" "$ROOT/harness/go.sum" | sort -u > "$B/harness.sum"
"$ROOT/mkoverlay.sh" "$REPO" "$B" || exit 1
cd "$ROOT/harness" || exit 1
go build -tags verif -modfile="$B/harness.mod" -overlay="$B/overlay.json" -o "$B/vcheck" ./cmd/vcheck || exit 1
go build -race -tags verif -modfile="$B/harness.mod" -overlay="$B/overlay.json" -o "$B/vcheck.race" ./cmd/vcheck || exit 1
# pre-warm the overlay test binaries the checks build on demand
"$B/vcheck" prewarm || true
echo "setup ok"
