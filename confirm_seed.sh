#!/bin/bash
# confirm_seed.sh <Cxx> <A|B> <pkgdir-for-demo> : confirm a seeded change in a scratch worktree and store it under /verif/seeded/.
# Confirms: applies cleanly, builds, existing tests of touched packages pass, demo fails with the change and passes without it,
# and records whether ./check <Cxx> quick catches it.
set -u
ID=$1; V=$2; PKG=$3
SRC=/tmp/seed/$ID-out
export GOFLAGS=-mod=mod GOPROXY=off
WT=$(mktemp -d /tmp/cf-$ID-$V-XXXXXX)
git -C /repo worktree add --detach -f "$WT" HEAD >/dev/null 2>&1 || exit 2
cleanup() { git -C /repo worktree remove --force "$WT" >/dev/null 2>&1; rm -rf "$WT"; }
trap cleanup EXIT
DEMO=$SRC/${V}_demo_test.go
cp "$DEMO" "$WT/$PKG/zz_seed_${V}_demo_test.go"
TESTS=$(grep -o '^func Test[A-Za-z0-9_]*' "$DEMO" | sed 's/func //' | paste -sd'|')
cd "$WT"
go test -vet=off -count=1 -run "^($TESTS)\$" ./$PKG > /tmp/cf-$ID-$V-demo-clean.log 2>&1; DEMO_CLEAN=$?
git apply "$SRC/$V.diff" || { echo "patch does not apply on HEAD"; exit 2; }
TOUCHED=$(git diff --name-only | grep '\.go$' | xargs -n1 dirname | sort -u | sed 's#^#./#' | paste -sd' ')
go build ./... > /tmp/cf-$ID-$V-build.log 2>&1; BUILD=$?
go test -vet=off -count=1 -run "^($TESTS)\$" ./$PKG > /tmp/cf-$ID-$V-demo-seeded.log 2>&1; DEMO_SEEDED=$?
rm -f "$WT/$PKG/zz_seed_${V}_demo_test.go"
go test -vet=off -count=1 $TOUCHED ./cmd/glyph ./tests > /tmp/cf-$ID-$V-suite.log 2>&1; SUITE=$?
cd /verif
CHECK_OUT=$(./selftest.sh $ID "$SRC/$V.diff" 2>&1 | grep -v KNOWN-FINDING | tail -3)
CHECK=$(echo "$CHECK_OUT" | grep -o 'exit=[0-9]*' | tail -1)
echo "$ID/$V build=$BUILD demo_clean=$DEMO_CLEAN demo_seeded=$DEMO_SEEDED suite=$SUITE check:$CHECK touched=[$TOUCHED]"
if [ $BUILD -eq 0 ] && [ $DEMO_CLEAN -eq 0 ] && [ $DEMO_SEEDED -ne 0 ] && [ $SUITE -eq 0 ]; then
  D=/verif/seeded/$ID-$V; mkdir -p $D
  cp "$SRC/$V.diff" $D/patch.diff; cp "$DEMO" $D/demo_test.go
  python3 - "$ID" "$V" "$PKG" "$TOUCHED" "$CHECK" "$SRC/NOTES.md" "$CHECK_OUT" > $D/meta.json <<'PY'
import sys,json,re
id,v,pkg,touched,check,notes,out=sys.argv[1:8]
txt=open(notes).read() if notes else ''
json.dump({"property":id,"variant":v,"breaks":"see notes_excerpt","demo_package_dir":pkg,"touched_packages":touched.split(),
 "confirmed":{"applies_on_head":True,"go_build":"ok","existing_tests":"ok: go test -vet=off -count=1 "+touched+" ./cmd/glyph ./tests","demo_without_change":"pass","demo_with_change":"fail"},
 "check_result":{"command":"./selftest.sh %s seeded/%s-%s/patch.diff (VERIF_REPO=scratch worktree, quick tier)"%(id,id,v),"exit":check,"output_tail":out[-600:]},
 "needs_to_manifest_and_notes_excerpt":txt[:3000]},sys.stdout,indent=1)
PY
  echo "  stored $D"
else
  echo "  NOT CONFIRMED (see /tmp/cf-$ID-$V-*.log)"
fi
